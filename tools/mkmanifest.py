#!/usr/bin/env python3
"""Regenerates /verif/MANIFEST.json from tools/manifest_entries.json (per-property
text) and the set of checks that exist under tools/checks/."""
import json, os
V = os.path.dirname(os.path.dirname(os.path.abspath(__file__)))
entries = json.load(open(os.path.join(V, "tools", "manifest_entries.json")))
props = [json.loads(l) for l in open(os.path.join(V, "properties.jsonl"))]
checks, na = [], []
for p in props:
    pid = p["id"]
    e = entries.get(pid)
    if e and os.path.exists(os.path.join(V, "tools", "checks", pid + ".py")) and not e.get("not_applicable"):
        checks.append({
            "property_id": pid,
            "quick_cmd": f"./check {pid} --tier quick",
            "thorough_cmd": f"./check {pid} --tier thorough",
            "evidence_file": f"/verif/evidence/{pid}.json",
            "replay_cmd_template": f"./check {pid} --replay {{path}}",
            "engine": "rocq-proof+correspondence",
            "level_claimed": {"category": "proof", "text": e["text"], "design_ref": e.get("design_ref", "DESIGN.md section 5, " + pid)},
            "level_note": e["note"],
            "technique": e["technique"],
        })
    else:
        na.append({"property_id": pid, "reason": (e or {}).get("reason", "check not built yet in this round; see DESIGN.md section 5 for the planned theorems")})
m = {
    "version": 1,
    "setup_cmd": "./setup.sh",
    "hooks": {"guard": "XDEPS_VERIF", "enable": "no source hooks: checks copy /repo/xdeps to a scratch build (compiled with cython+gcc, and pure) and observe through harness-side wrappers; XDEPS_VERIF=1 is set for the implementation runners",
              "baseline_off_cmd": "cd /repo && /venv/bin/python -m pytest -ra -q -p no:cacheprovider --timeout=900 --continue-on-collection-errors",
              "source_commits": [], "add_only": True},
    "engines": [{"name": "rocq-proof+correspondence", "path": "/verif/check",
                 "serves_properties": [c["property_id"] for c in checks],
                 "kind_free_text": "Coq 8.16.1 theorems over executable Gallina models (coq/), tied to /repo by py2v-regenerated tables and by a differential correspondence check that evaluates the model with vm_compute on the histories the implementation ran"}],
    "checks": checks,
    "not_applicable": na,
    "notes": "fix: commits in /repo and known findings are listed in /verif/known_findings.json; see DESIGN.md sections 6-8.",
}
json.dump(m, open(os.path.join(V, "MANIFEST.json"), "w"), indent=1)
print(len(checks), "checks,", len(na), "not claimed")
