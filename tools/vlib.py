"""Common machinery of the xdeps verification checks.

Every check is `tools/checks/<ID>.py` exposing `run(ctx)`; `tools/check.py`
drives it.  This module provides:

  * a fresh build of /repo's working tree (compiled + pure), cached by the
    content hash of the sources (so it is always what the tree says *now*);
  * regeneration of coq/gen/*.v by the py2v translators and the Coq build;
  * evaluation of generated case files with coqc (vm_compute);
  * Print Assumptions capture + hygiene greps;
  * evidence / replay / VIOLATION / KNOWN-FINDING plumbing.
"""
import os, sys, json, hashlib, subprocess, shutil, time, re, tempfile, fcntl, glob, random
import sys as _sys
if hasattr(_sys, "set_int_max_str_digits"):
    _sys.set_int_max_str_digits(0)        # runner output may carry huge ints
from concurrent.futures import ThreadPoolExecutor

VERIF = os.path.dirname(os.path.dirname(os.path.abspath(__file__)))
REPO = os.environ.get("VERIF_REPO", "/repo")
PY = "/venv/bin/python"
COQ = os.path.join(VERIF, "coq")
CACHE = os.environ.get("VERIF_CACHE", os.path.join(VERIF, ".cache"))
NPROC = int(os.environ.get("VERIF_JOBS", "16"))

STD_TRUSTED = [
    "Coq 8.16.1 kernel (coqc), vm_compute used for table obligations and case evaluation; no native_compute",
    "py2v translators and the correspondence harness under /verif/tools (generators, canonicalisers, emitted Coq text)",
    "CPython 3.12 / numpy semantics named as oracles or section variables in DESIGN.md section 7",
]


class InfraError(Exception):
    pass


class ImplCrash(InfraError):
    """an implementation runner died with a Python traceback that ends inside the library under test: on the unchanged
    tree this never happens (the checks are green), so it is a behaviour change of the library, reported as a violation
    without a minimised input (the replay file holds the traceback)"""


class Ctx:
    def __init__(self, pid, tier, seed):
        self.id = pid
        self.tier = tier
        self.seed = seed
        self.t0 = time.time()
        self.rng = random.Random(f"{pid}-{seed}")
        self.obligations = []      # (name, discharged: bool, note)
        self.axioms = {}           # theorem -> list of axioms
        self.cov = {}              # extra coverage keys
        self.samples = []
        self.evaluations = 0
        self.nontrivial = set()
        self.traces = 0
        self.assumptions = []
        self.violations = []       # (replay_path, no_input: bool)
        self.known_lines = []
        self.notes = []
        self.rule = ""
        self._impl = None

    @property
    def quick(self):
        return self.tier == "quick"

    def pick(self, quick, thorough):
        """case count for the tier; the quick tier is scaled up (never alarmed) when a function mirrored by a
        hand-written model has a new source fingerprint (set by scale_if_changed)"""
        if not self.quick:
            return thorough
        k = getattr(self, "scale", 1)
        return min(thorough, quick * k) if isinstance(quick, int) and k > 1 and isinstance(thorough, int) else quick

    def scale_if_changed(self, factor=4):
        sys.path.insert(0, os.path.join(VERIF, "tools"))
        import fingerprint
        ch = fingerprint.changed(REPO)
        self.cov["source_fingerprints_changed"] = ch
        if ch:
            self.scale = factor
            self.notes.append(f"source fingerprints differ for {ch}: quick tier run at {factor}x size (no alarm by itself)")
        return ch


# --------------------------------------------------------------------------
# implementation builds
# --------------------------------------------------------------------------

def _src_files():
    out = []
    for root, dirs, files in os.walk(os.path.join(REPO, "xdeps")):
        dirs[:] = [d for d in dirs if d != "__pycache__"]
        for f in sorted(files):
            if f.endswith(".py"):
                out.append(os.path.join(root, f))
    return sorted(out)


def source_hash():
    h = hashlib.sha256()
    for f in _src_files():
        h.update(os.path.relpath(f, REPO).encode())
        h.update(open(f, "rb").read())
    return h.hexdigest()[:20]


def build_impl(ctx=None):
    """Copy /repo/xdeps (working tree) and build it twice.  Returns dict
    {'compiled': dir, 'pure': dir} usable as PYTHONPATH."""
    hh = source_hash()
    base = os.path.join(CACHE, "impl", hh)
    done = os.path.join(base, "DONE")
    os.makedirs(os.path.join(CACHE, "impl"), exist_ok=True)
    with open(os.path.join(CACHE, "impl", ".lock"), "w") as lk:
        fcntl.flock(lk, fcntl.LOCK_EX)
        if not os.path.exists(done):
            if os.path.exists(base):
                shutil.rmtree(base)
            # disk hygiene: drop builds not used for two hours (a use touches DONE)
            now = time.time()
            for d in glob.glob(os.path.join(CACHE, "impl", "*")):
                dn = os.path.join(d, "DONE")
                if os.path.isdir(d) and (not os.path.exists(dn) or now - os.path.getmtime(dn) > 7200):
                    if not os.path.exists(dn) and now - os.path.getmtime(d) < 900:
                        continue      # being built by someone else under another lock-free path
                    shutil.rmtree(d, ignore_errors=True)
            for mode in ("compiled", "pure"):
                dst = os.path.join(base, mode, "xdeps")
                shutil.copytree(os.path.join(REPO, "xdeps"), dst,
                                ignore=shutil.ignore_patterns("*.so", "refs.c", "__pycache__", "*.pyc"))
            cdir = os.path.join(base, "compiled")
            inc = subprocess.check_output([PY, "-c", "import sysconfig;print(sysconfig.get_paths()['include'])"], text=True).strip()
            suf = subprocess.check_output([PY, "-c", "import sysconfig;print(sysconfig.get_config_var('EXT_SUFFIX'))"], text=True).strip()
            r = subprocess.run(["/venv/bin/cython", "-3", "xdeps/refs.py", "-o", "refs.c"], cwd=cdir,
                               capture_output=True, text=True, timeout=300)
            if r.returncode != 0:
                raise InfraError("cython failed:\n" + r.stdout + r.stderr)
            r = subprocess.run(["gcc", "-O1", "-shared", "-fPIC", "-I" + inc, "refs.c", "-o", "xdeps/refs" + suf],
                               cwd=cdir, capture_output=True, text=True, timeout=600)
            if r.returncode != 0:
                raise InfraError("gcc failed:\n" + r.stderr[-3000:])
            os.remove(os.path.join(cdir, "refs.c"))
            open(done, "w").write(hh)
        else:
            os.utime(done, None)
    return {"compiled": os.path.join(base, "compiled"), "pure": os.path.join(base, "pure")}


def run_impl(script, payload, build="compiled", hashseed=0, timeout=600, impl=None, extra_env=None):
    """Run tools/impl/<script> under /venv python against a fresh build.
    payload (JSON-able) goes to stdin, JSON comes back on stdout."""
    impl = impl or build_impl()
    env = dict(os.environ)
    env.update({"PYTHONPATH": impl[build] + os.pathsep + os.path.join(VERIF, "tools", "impl"),
                "PYTHONHASHSEED": str(hashseed), "XDEPS_VERIF": "1",
                "PYTHONDONTWRITEBYTECODE": "1", "OMP_NUM_THREADS": "1", "OPENBLAS_NUM_THREADS": "1"})
    if extra_env:
        env.update(extra_env)
    sp = script if os.path.isabs(script) else os.path.join(VERIF, "tools", "impl", script)
    r = subprocess.run([PY, sp], input=json.dumps(payload), capture_output=True, text=True,
                       env=env, timeout=timeout, cwd=tempfile.gettempdir())
    if r.returncode != 0:
        tb = r.stderr[-4000:]
        frames = re.findall(r'File "([^"]+)", line \d+', tb)
        if r.returncode == 1 and "Traceback (most recent call last)" in tb and frames and os.sep + "xdeps" + os.sep in frames[-1]:
            raise ImplCrash(f"impl runner {script} ({build}, hash seed {hashseed}): the library raised outside any handled place:\n{tb}")
        raise InfraError(f"impl runner {script} failed rc={r.returncode}:\n{tb}")
    try:
        return json.loads(r.stdout)
    except Exception as e:
        raise InfraError(f"impl runner {script}: bad JSON ({e}): {r.stdout[:500]!r} stderr={r.stderr[-1000:]}")


def run_impl_many(script, payloads, configs, timeout=900, workers=None):
    """payloads: list; configs: list of (build, hashseed).  Returns dict
    (i, build, seed) -> result, run in parallel."""
    impl = build_impl()
    jobs = [(i, b, s) for i in range(len(payloads)) for (b, s) in configs]
    out = {}
    with ThreadPoolExecutor(max_workers=workers or NPROC) as ex:
        futs = {ex.submit(run_impl, script, payloads[i], b, s, timeout, impl): (i, b, s) for (i, b, s) in jobs}
        for f, k in futs.items():
            out[k] = f.result()
    return out


# --------------------------------------------------------------------------
# Coq build
# --------------------------------------------------------------------------

FORBIDDEN = re.compile(
    r"\b(Admitted|admit|Axiom|Axioms|Parameter|Parameters|Conjecture|Conjectures|Admit Obligations|"
    r"Unset Guard Checking|Unset Positivity Checking|Unset Universe Checking|bypass_check|"
    r"type-in-type|impredicative-set|native_compute)\b")


def strip_comments(text):
    out, depth, i = [], 0, 0
    while i < len(text):
        if text.startswith("(*", i):
            depth += 1; i += 2
        elif text.startswith("*)", i) and depth:
            depth -= 1; i += 2
        else:
            if not depth:
                out.append(text[i])
            i += 1
    return "".join(out)


def cone(vo_targets):
    """transitive .v dependency cone of the given .vo targets (paths relative
    to coq/), read from the dependency file coq_makefile maintains"""
    dep = os.path.join(COQ, ".Makefile.d")
    graph = {}
    if os.path.exists(dep):
        for line in open(dep).read().replace("\\\n", " ").splitlines():
            if ":" not in line:
                continue
            lhs, rhs = line.split(":", 1)
            tg = [x for x in lhs.split() if x.endswith(".vo")]
            ds = [x for x in rhs.split() if x.endswith(".vo")]
            for t in tg:
                graph[os.path.normpath(t)] = [os.path.normpath(d) for d in ds]
    seen, todo = set(), [os.path.normpath(t) for t in vo_targets]
    while todo:
        t = todo.pop()
        if t in seen:
            continue
        seen.add(t)
        todo += graph.get(t, [])
    return sorted(os.path.join(COQ, t[:-1]) for t in seen if os.path.exists(os.path.join(COQ, t[:-1])))


def hygiene(files=None):
    """Forbidden constructs in the given .v files (default: the whole
    development); comments and string literals excluded; also a
    Variable/Hypothesis outside a Section."""
    bad = []
    if files is None:
        files = sorted(glob.glob(os.path.join(COQ, "**", "*.v"), recursive=True))
    for f in files:
        if "/cases/" in f:
            continue
        txt = strip_comments(open(f).read())
        txt_ns = re.sub(r'"[^"]*"', '""', txt)
        for m in FORBIDDEN.finditer(txt_ns):
            bad.append(f"{os.path.relpath(f, VERIF)}: {m.group(0)}")
        depth = 0
        for line in txt_ns.splitlines():
            s = line.strip()
            if re.match(r"Section\s+\w+\s*\.", s):
                depth += 1
            elif re.match(r"End\s+\w+\s*\.", s) and depth:
                depth -= 1   # also closes Modules; sections inside modules keep depth >= 0
            elif depth == 0 and re.match(r"(Variable|Variables|Hypothesis|Hypotheses|Context)\b", s):
                bad.append(f"{os.path.relpath(f, VERIF)}: section-less {s[:40]}")
    for f in ("_CoqProject",):
        t = open(os.path.join(COQ, f)).read()
        if re.search(r"type-in-type|impredicative-set|-vos|-vok", t):
            bad.append(f"{f}: forbidden flag")
    return bad


def regenerate(which=None):
    """Run the translators tools/py2v/gen_<name>.py (all, or those named in
    `which`); each writes coq/gen/<X>.v only when the content changes.
    Returns dict name -> error string or None."""
    res = {}
    gdir = os.path.join(VERIF, "tools", "py2v")
    for f in sorted(glob.glob(os.path.join(gdir, "gen_*.py"))):
        name = os.path.basename(f)[4:-3]
        if which is not None and name not in which:
            continue
        env = dict(os.environ, VERIF_REPO=REPO)
        r = subprocess.run([PY, f], capture_output=True, text=True, env=env, timeout=120)
        res[name] = None if r.returncode == 0 else (r.stdout + r.stderr)[-3000:]
    return res


COQPROJECT_HEADER = """-Q . XD
-arg -w -arg -notation-overridden,-deprecated-hint-without-locality,-deprecated-instance-without-locality,-ambiguous-paths,-redundant-canonical-projection
"""


def write_coqproject():
    """_CoqProject lists every .v under lib/ model/ gen/ proofs/ props/ run/."""
    files = []
    for d in ("lib", "model", "gen", "proofs", "props", "run"):
        files += sorted(os.path.relpath(f, COQ) for f in glob.glob(os.path.join(COQ, d, "*.v")))
    txt = COQPROJECT_HEADER + "\n".join(files) + "\n"
    cp = os.path.join(COQ, "_CoqProject")
    if not os.path.exists(cp) or open(cp).read() != txt:
        open(cp, "w").write(txt)


def ensure_makefile():
    write_coqproject()
    mk = os.path.join(COQ, "Makefile")
    cp = os.path.join(COQ, "_CoqProject")
    if not os.path.exists(mk) or os.path.getmtime(mk) < os.path.getmtime(cp):
        r = subprocess.run(["coq_makefile", "-f", "_CoqProject", "-o", "Makefile"], cwd=COQ,
                           capture_output=True, text=True)
        if r.returncode != 0:
            raise InfraError("coq_makefile failed: " + r.stderr)


def coq_make(targets, timeout=3000, clean=False):
    """make the given .vo targets (paths relative to coq/).  Returns (ok, log)."""
    os.makedirs(CACHE, exist_ok=True)
    with open(os.path.join(CACHE, "coq.lock"), "w") as lk:
        fcntl.flock(lk, fcntl.LOCK_EX)
        ensure_makefile()
        if clean:
            subprocess.run(["make", "clean"], cwd=COQ, capture_output=True, text=True, timeout=300)
            ensure_makefile()
        r = subprocess.run(["timeout", str(timeout), "make", "-k", f"-j{NPROC}"] + list(targets), cwd=COQ,
                           capture_output=True, text=True)
        return r.returncode == 0, (r.stdout + r.stderr)


def coqc_file(path, timeout=1200):
    r = subprocess.run(["timeout", str(timeout), "coqc", "-Q", COQ, "XD", path],
                       capture_output=True, text=True, cwd=COQ)
    return r.returncode, r.stdout, r.stderr


def print_assumptions(props_rel):
    """Re-run coqc on the property file to capture `Print Assumptions` output.
    Returns (ok, {theorem: [axioms]}, raw)."""
    rc, out, err = coqc_file(os.path.join(COQ, props_rel))
    res = {}
    src = strip_comments(open(os.path.join(COQ, props_rel)).read())
    names = re.findall(r"Print Assumptions\s+([\w.']+)\s*\.", src)
    # output blocks: either "Closed under the global context" or "Axioms:\n name : type ..."
    blocks = re.split(r"(?=Closed under the global context|Axioms:)", out)
    blocks = [b for b in blocks if b.startswith("Closed under") or b.startswith("Axioms:")]
    for n, b in zip(names, blocks):
        if b.startswith("Closed"):
            res[n] = []
        else:
            ax = []
            for line in b.splitlines()[1:]:
                m = re.match(r"^([\w.']+)\s*:", line)
                if m:
                    ax.append(m.group(1))
            res[n] = ax
    ok = rc == 0 and len(blocks) == len(names)
    return ok, res, out + err


def theorems_in(props_rel):
    src = strip_comments(open(os.path.join(COQ, props_rel)).read())
    return re.findall(r"^\s*(?:Theorem|Lemma|Corollary|Example)\s+([\w']+)", src, re.M)


def coq_eval_files(ctx, texts, tag=None, timeout=1800):
    """Write each text to coq/cases/<ID>/<tag>_<k>.v, compile all in parallel,
    return list of (rc, stdout, stderr)."""
    d = os.path.join(COQ, "cases", ctx.id)
    os.makedirs(d, exist_ok=True)
    tag = tag or "c"
    for old in glob.glob(os.path.join(d, f"{tag}_*")) + glob.glob(os.path.join(d, f".{tag}_*")):
        os.remove(old)
    paths = []
    for k, t in enumerate(texts):
        p = os.path.join(d, f"{tag}_{k}.v")
        open(p, "w").write(t)
        paths.append(p)
    with ThreadPoolExecutor(max_workers=NPROC) as ex:
        res = list(ex.map(lambda p: coqc_file(p, timeout), paths))
    for p in paths:  # keep the .v for inspection, drop build products
        for ext in (".vo", ".vok", ".vos", ".glob"):
            q = p[:-2] + ext
            if os.path.exists(q):
                os.remove(q)
        aux = os.path.join(d, "." + os.path.basename(p)[:-2] + ".aux")
        if os.path.exists(aux):
            os.remove(aux)
    return res


def parse_nat_list(out):
    """Parse the result of `Eval vm_compute in (... : list nat)`, possibly
    wrapped over several lines: returns list of ints, or None if not found."""
    m = re.search(r"=\s*(\[[^\]]*\]|nil)", out.replace("\n", " "))
    if not m:
        return None
    return [int(x) for x in re.findall(r"\d+", m.group(1))]


def chunks(lst, n):
    for i in range(0, len(lst), n):
        yield lst[i:i + n]


# --------------------------------------------------------------------------
# Coq literal helpers
# --------------------------------------------------------------------------

def cz(i):
    i = int(i)
    return f"({i})%Z" if i < 0 else f"{i}%Z"


def cn(i):
    return f"{int(i)}%N"


def cnat(i):
    return f"{int(i)}%nat"


def clist(items):
    return "[" + "; ".join(items) + "]"


def copt(x, f):
    return "None" if x is None else f"(Some {f(x)})"


def cbool(b):
    return "true" if b else "false"


class Interner:
    """Maps arbitrary hashable Python values to small naturals (N)."""
    def __init__(self):
        self.d = {}
        self.rev = []

    def __call__(self, v):
        if v not in self.d:
            self.d[v] = len(self.rev)
            self.rev.append(v)
        return self.d[v]


# --------------------------------------------------------------------------
# findings, evidence, verdicts
# --------------------------------------------------------------------------

def known_findings(pid):
    p = os.path.join(VERIF, "known_findings.json")
    if not os.path.exists(p):
        return []
    return [e for e in json.load(open(p)) if e.get("property") == pid]


def write_replay(ctx, payload):
    d = os.path.join(VERIF, "replays", ctx.id)
    os.makedirs(d, exist_ok=True)
    payload = dict(payload)
    payload.setdefault("property", ctx.id)
    payload.setdefault("seed", ctx.seed)
    payload.setdefault("tier", ctx.tier)
    payload.setdefault("source_hash", source_hash())
    txt = json.dumps(payload, indent=1, sort_keys=True, default=str)
    h = hashlib.sha256(txt.encode()).hexdigest()[:12]
    p = os.path.join(d, f"{h}.json")
    open(p, "w").write(txt)
    return p


def violation(ctx, payload, no_input=False):
    p = write_replay(ctx, payload)
    ctx.violations.append((p, no_input))
    return p


def known(ctx, text):
    ctx.known_lines.append(text)


def standard_proof_part(ctx, props_rel, allowed_axioms=(), extra_targets=(), translators=()):
    """Regenerate tables, build the property's theorem file and its cone, run
    hygiene, capture Print Assumptions.  Records obligations in ctx.  Returns
    True when everything is discharged; on failure records what broke in
    ctx.broken (list of strings) — the caller then searches for an input."""
    broken = []
    if "tasks" in translators:
        ctx.assumptions.append("translator tools/py2v/gen_tasks.py (fail-closed) and the combinators of coq/model/TasksSem.v and TasksSemData.v "
                               "as the reading of the Python statement forms of xdeps/tasks.py (a defaultdict read creates the entry, a loop "
                               "iterates a snapshot, an exception keeps the state reached); docstrings, logger calls and the `is None` "
                               "argument defaults are skipped; sorting.toposort and the reference classes are tied by the correspondence only")
    gen = regenerate(list(translators))
    for k, e in gen.items():
        ctx.obligations.append((f"translator:{k}", e is None, "" if e is None else e[-400:]))
        if e is not None:
            broken.append(f"translator {k} failed (source construct not recognised): {e[-400:]}")
    vo = props_rel[:-2] + ".vo"
    ok, log = coq_make([vo] + list(extra_targets), clean=(os.environ.get("VERIF_CLEAN") == "1"))
    if not ok:
        errs = re.findall(r"File \"([^\"]+)\", line (\d+).*?\n(Error:.*?)(?=\nmake|\nFile|\Z)", log, re.S)
        msg = "; ".join(f"{os.path.basename(f)}:{l}: {' '.join(e.split())[:300]}" for f, l, e in errs[:5]) or log[-1500:]
        broken.append("coq build failed: " + msg)
    # quick: the dependency cone of this property; thorough: the whole development
    bad = hygiene(cone([vo] + list(extra_targets)) if ctx.quick else None)
    ctx.obligations.append(("hygiene: no Admitted/admit/Axiom/Parameter/Conjecture/disabled checks/section-less Variable",
                            not bad, "; ".join(bad[:5])))
    if bad:
        broken.append("hygiene: " + "; ".join(bad[:5]))
    thms = theorems_in(props_rel)
    if ok:
        pok, ax, raw = print_assumptions(props_rel)
        if not pok:
            broken.append("Print Assumptions capture failed: " + raw[-500:])
        ctx.axioms = ax
        allowed = set(allowed_axioms)
        for t in thms:
            a = ax.get(t)
            good = a is not None and all(x in allowed or x.split(".")[-1] in allowed for x in a)
            ctx.obligations.append((f"theorem {t}", good, "closed" if a == [] else f"axioms: {a}"))
            if not good:
                broken.append(f"theorem {t}: assumptions {a} not within the allowed list {sorted(allowed)}")
    else:
        for t in thms:
            # which theorems still compile is not known when the file fails
            ctx.obligations.append((f"theorem {t}", False, "property file or its dependencies did not compile"))
    if ok and not ctx.quick and os.environ.get("VERIF_NOCOQCHK") != "1":
        # independent re-check of the compiled property file and everything it depends on
        mod = "XD." + props_rel[:-2].replace("/", ".")
        with open(os.path.join(CACHE, "coq.lock"), "w") as lk:
            fcntl.flock(lk, fcntl.LOCK_SH)
            r = subprocess.run(["timeout", "2400", "coqchk", "-silent", "-o", "-Q", COQ, "XD", mod],
                               capture_output=True, text=True, cwd=COQ)
        out = r.stdout + r.stderr
        m = re.search(r"\* Axioms:(.*?)\n\s*\n\* Constants", out, re.S)
        axs = " ".join((m.group(1) if m else "?").split())
        good = r.returncode == 0 and axs == "<none>"
        ctx.obligations.append((f"coqchk -o {mod}", good, f"axioms: {axs}" if r.returncode == 0 else out[-300:]))
        ctx.cov["coqchk"] = {"module": mod, "rc": r.returncode, "axioms": axs}
        if not good:
            broken.append(f"coqchk on {mod}: rc={r.returncode} axioms={axs} {out[-200:] if r.returncode else ''}")
    ctx.broken = broken
    return not broken


def finish(ctx, level="proof", checker_cmd=None):
    """Write evidence, print verdict lines, return the exit code."""
    ob = ctx.obligations
    trusted = list(STD_TRUSTED)
    axs = sorted({a for v in ctx.axioms.values() for a in v})
    trusted.append("axioms reported by Print Assumptions for the property theorems: " + (", ".join(axs) if axs else "none (closed under the global context)"))
    trusted += ctx.assumptions
    cov = {
        "obligations": len(ob),
        "discharged": sum(1 for o in ob if o[1]),
        "checker_cmd": checker_cmd or f"cd /verif/coq && make props/{ctx.id}.vo && coqc -Q . XD props/{ctx.id}.v  (Print Assumptions), then tools/checks/{ctx.id}.py correspondence",
        "trusted_base": trusted,
        "evaluations": ctx.evaluations,
        "distinct_nontrivial": len(ctx.nontrivial),
        "rule": ctx.rule,
        "samples": ctx.samples[:8] if ctx.samples else ["(none)"],
        "traces_validated_against_impl": ctx.traces,
        "obligation_list": [{"name": n, "discharged": d, "note": note} for n, d, note in ob],
        "source_hash": source_hash(),
        "notes": ctx.notes,
        "known_findings_reported": ctx.known_lines,
    }
    cov.update(ctx.cov)
    ev = {
        "property_id": ctx.id, "tier": ctx.tier, "seed": ctx.seed, "level": level,
        "coverage": cov, "assumptions": trusted, "wall_s": round(time.time() - ctx.t0, 2),
        "violations": len(ctx.violations),
    }
    os.makedirs(os.path.join(VERIF, "evidence"), exist_ok=True)
    with open(os.path.join(VERIF, "evidence", f"{ctx.id}.json"), "w") as f:
        json.dump(ev, f, indent=1, default=str)
    for k in ctx.known_lines:
        print(f"KNOWN-FINDING: property={ctx.id} {k}")
    for p, no_input in ctx.violations:
        print(f"VIOLATION property={ctx.id} replay={p}" + (" no-failing-input-found" if no_input else ""))
    print(f"[{ctx.id}] tier={ctx.tier} seed={ctx.seed} obligations={cov['discharged']}/{cov['obligations']} "
          f"evaluations={ctx.evaluations} nontrivial={len(ctx.nontrivial)} traces={ctx.traces} "
          f"violations={len(ctx.violations)} wall={ev['wall_s']}s")
    sys.stdout.flush()
    return 1 if ctx.violations else 0
