"""Shared machinery of the optimizer checks C09, C10, C15: case generator
(merit-function families, configurations, operation sequences), Coq emission of
the recorded traces for run/RunOpt.v, and the common check driver."""
import json, math, os, random, re
from concurrent.futures import ThreadPoolExecutor
import vlib
from vlib import clist, cbool, cnat, cn

# other public entry points of Optimize (tiny budgets for the scipy based ones)
FOREIGN = [("run_simplex", {"n_steps": 4}), ("run_simplex", {"n_steps": 12}), ("run_nelder_mead", {"n_steps": 3}),
           ("run_ls_trf", {"n_steps": 2}), ("run_ls_dogbox", {"n_steps": 2}), ("run_bfgs", {"n_steps": 1}),
           ("run_l_bfgs_b", {"n_steps": 1}), ("run_direct", {"n_steps": 1}),
           ("get_merit_function", {}), ("get_merit_function", {"return_scalar": True}),
           ("get_merit_function", {"check_limits": False}), ("get_merit_function", {"rescale_x": [0.0, 1.0]}),
           ("target_status", {}), ("vary_status", {}), ("target_mismatch", {}), ("log", {}), ("show", {}),
           ("get_knob_values", {}), ("set_knobs_from_x", {}),
           ("enable_all_targets", {}), ("disable_all_targets", {}), ("enable_all_vary", {}), ("disable_all_vary", {}),
           ("enable_vary", {"id": 0}), ("disable_vary", {"id": 0}), ("enable_targets", {"id": 0}), ("disable_targets", {"id": 0}),
           ("run_jacobian", {"n": 2}), ("add_point_to_log", {"tag": "t1"})]
TAGS_V = ["", "a", "b"]
TAGS_T = ["", "p", "q"]
# string-selector mode: tags and names with proper prefixes, common suffixes, regex metacharacters,
# upper / lower case variants, empty and duplicate tags, indexed names beyond k9
TAGS_RICH_V = ["", "", "arc", "arc", "arc2", "arc23", "xarc", "Arc", "ARC", "a", "ab", "b", "a.b", "axb", "a|b", "(a)", "a[1]", "a1",
               "a*", "aa", "a+", "a?", "a$", "^a", "q.", "ir1", "ir10"]
TAGS_RICH_T = ["", "", "p", "pp", "p2", "P", "q", "q|p", "t.x", "tax", "t*", "(t)", "t[0]", "t0", "beta", "beta_x", "x_beta", "t$", "^t"]
NAME_POOLS = [[f"k{i}" for i in range(1, 13)],
              ["k1", "k10", "k11", "k12", "k2", "k21", "K1", "k.1", "kx1"],
              ["a", "ab", "abc", "b", "Ab", "a.b", "axb", "a+", "aa", "b$", "cb"],
              ["kq.1", "kq11", "kq.10", "kqx1", "kq[1]", "kq1", "q1", "kq"]]
ROW_TAGS = ["t1", "t2"]


# ---------------------------------------------------------------------------
# generator
# ---------------------------------------------------------------------------

def rnd(rng, lo, hi, digits=3):
    return round(rng.uniform(lo, hi), digits)


def gen_fun(rng, fam, n, m):
    A = [[rnd(rng, -2, 2) for _ in range(n)] for _ in range(m)]
    for i in range(min(n, m)):           # keep the square part reasonably conditioned
        A[i][i] = rnd(rng, 1.0, 3.0) * rng.choice([1, -1])
    b = [rnd(rng, -1, 1) for _ in range(m)]
    Q = [[0.0] * n for _ in range(m)]
    T = [0.0] * m
    U = [[0.0] * n for _ in range(m)]
    P = [0.0] * m
    if fam == "quadratic":
        Q = [[rnd(rng, -0.5, 0.5) if rng.random() < 0.6 else 0.0 for _ in range(n)] for _ in range(m)]
    elif fam == "trig":
        T = [rnd(rng, 0.2, 1.5) for _ in range(m)]
        U = [[rnd(rng, -1.5, 1.5) for _ in range(n)] for _ in range(m)]
        P = [rnd(rng, -3, 3) for _ in range(m)]
    elif fam == "rankdef":
        if n >= 2 and rng.random() < 0.6:
            j0, j1 = rng.sample(range(n), 2)
            c = rng.choice([1.0, 2.0, -1.0])
            for i in range(m):
                A[i][j1] = c * A[i][j0]
        elif m >= 2:
            i0, i1 = rng.sample(range(m), 2)
            A[i1] = list(A[i0])
        else:
            A[0] = [0.0] * n
    return {"A": A, "b": b, "Q": Q, "T": T, "U": U, "P": P, "fault": None}


def eval_fun(spec, k):
    out = []
    for i in range(len(spec["b"])):
        v = spec["b"][i]
        for j in range(len(k)):
            v += spec["A"][i][j] * k[j]
        for j in range(len(k)):
            if spec["Q"][i][j] != 0.0:
                v += spec["Q"][i][j] * (k[j] * k[j])
        if spec["T"][i] != 0.0:
            ph = spec["P"][i]
            for j in range(len(k)):
                ph += spec["U"][i][j] * k[j]
            v += spec["T"][i] * math.sin(ph)
        out.append(v)
    for i in spec.get("pos", []):
        out[i] = 0.5 + out[i] * out[i]
    return out          # (the singular terms spec["S"] are added by the runner only)


def str_selector(rng, attrs):
    """a string entry: the exact tag / name (its regex metacharacters keep their regex meaning), its
    escaped form, or a regular expression built from it; always a pattern that compiles"""
    a = rng.choice(attrs)
    k = rng.random()
    if k < 0.42:
        cand = a
    elif k < 0.56:
        cand = re.escape(a)
    elif k < 0.66:
        cand = (a[:max(1, len(a) - 1)] + ".*") if a else ".*"
    elif k < 0.74:
        cand = (re.escape(a[:-1]) + "[" + re.escape(a[-1]) + "0-9]") if a else ""
    elif k < 0.83:
        cand = f"{re.escape(a)}|{re.escape(rng.choice(attrs))}"
    elif k < 0.89:
        cand = re.escape(a) + "?"
    elif k < 0.93:
        cand = a.swapcase()
    elif k < 0.97:
        cand = "(?i)" + re.escape(a)
    else:
        cand = re.escape(a) + "\\d*"
    try:
        re.compile(cand)
    except re.error:
        cand = re.escape(a)
    return cand


def gen_sel(rng, n, tags, names=None, allow_bool=True, rich=False):
    """a selector for enable / disable / step arguments: True / False, integer ids, strings
    (matched against the tags, or against the names for vary_name), single or in lists, mixed"""
    k = rng.random()
    if allow_bool and k < 0.03:
        return rng.choice([True, False])
    attrs = names if names is not None else tags
    if not rich:
        if names is not None:
            return rng.sample(names, rng.randint(1, min(2, len(names))))
        if k < 0.75 or not [t for t in tags if t]:
            return rng.sample(range(n), rng.randint(1, min(2, n)))
        return [rng.choice([t for t in tags if t])]
    form = rng.random()
    if form < 0.07:
        return rng.randrange(n)                                   # a single integer id
    if form < 0.25 and names is None:
        return rng.sample(range(n), rng.randint(1, min(3, n)))
    if form < 0.5:
        return str_selector(rng, attrs)                           # a single string
    if form < 0.88:
        return [str_selector(rng, attrs) for _ in range(rng.choice([1, 1, 2, 3]))]
    return [rng.randrange(n), str_selector(rng, attrs)]           # mixed list


def gen_case_base(rng, profile):
    fam = rng.choice(["linear", "linear", "quadratic", "quadratic", "trig", "inconsistent", "rankdef"])
    n = rng.choice([1, 2, 2, 3, 3, 4])
    if fam == "inconsistent":
        m = rng.randint(n + 1, 5) if n < 5 else 5
    else:
        m = rng.choice([1, 2, 3, 4, 5])
    rich = rng.random() < {"C10": 0.5, "C09": 0.3, "C15": 0.3}[profile]     # string-selector mode
    if rich and rng.random() < 0.07:
        n = 12                                                                # k1 .. k12
    fun = gen_fun(rng, "linear" if fam == "inconsistent" else fam, n, m)
    if rich:
        pool = NAME_POOLS[0] if n == 12 else rng.choice(NAME_POOLS)
        names = list(pool) if n == 12 else rng.sample(pool, n)
        vtag_pool, ttag_pool = TAGS_RICH_V, TAGS_RICH_T
    else:
        names = [f"k{j}" for j in range(n)]
        vtag_pool, ttag_pool = TAGS_V, TAGS_T
    unit = rng.random() < (0.6 if profile != "C10" else 0.7)
    x0 = [rnd(rng, -2, 2) for _ in range(n)]
    # where the solution is: inside the limits, outside, or far away
    where = rng.choice({"C09": ["inside", "inside", "inside", "outside", "far"], "C10": ["inside", "outside", "outside", "far"],
                        "C15": ["inside", "inside", "outside", "far"]}[profile])
    dist = {"inside": 0.6, "outside": 1.5, "far": 30.0}[where]
    kstar = [x0[j] + rnd(rng, -dist, dist) for j in range(n)]
    check_limits = rng.random() >= {"C10": 0.35, "C09": 0.08, "C15": 0.08}[profile]
    vary = []
    for j in range(n):
        lim = None
        if rng.random() < (0.75 if profile == "C10" else 0.55):
            half_w = rnd(rng, 0.2, 1.0)
            lo, hi = x0[j] - rnd(rng, 0.05, 1.0) * half_w * 2, x0[j] + rnd(rng, 0.05, 1.0) * half_w * 2
            if rng.random() < 0.08:
                lo = x0[j]          # start exactly on a limit
            elif rng.random() < 0.08:
                hi = x0[j]
            if where == "inside":
                lo, hi = min(lo, kstar[j] - 0.05), max(hi, kstar[j] + 0.05)
            lim = [lo, hi]
            # one-sided limits: the other side None or infinite
            if rng.random() < {"C10": 0.35, "C09": 0.08, "C15": 0.08}[profile]:
                if kstar[j] < x0[j] or rng.random() < 0.25:
                    lim[1] = rng.choice([None, None, float("inf")])       # keep the side the solution is beyond
                else:
                    lim[0] = rng.choice([None, None, float("-inf")])
        w = 1.0 if unit else rng.choice([1.0, 0.5, 2.0, 3.0, 0.1, 7.3, 1e-3, 40.0])
        ms = None
        if rng.random() < (0.6 if profile == "C10" else 0.3):
            ms = rng.choice([0.01, 0.05, 0.1, 0.25, 0.5, 1.0, 2.0])
        vary.append({"limits": lim, "step": rng.choice([None, None, 1e-8, 1e-6, 1e-4]), "weight": w, "max_step": ms,
                     "tag": rng.choice(vtag_pool), "active": rng.random() < 0.9})
    if not any(v["active"] for v in vary) and rng.random() < 0.8:
        vary[0]["active"] = True
    if rng.random() < 0.03:
        j = rng.randrange(n)
        lj = vary[j]["limits"]
        if check_limits and lj is not None and lj[1] is not None and math.isfinite(lj[1]):
            x0[j] = lj[1] + 0.5      # the constructor must refuse a start outside the limits
            vary[j]["active"] = True
    # Target(optimize_log=True): the result of that target is made strictly positive
    fun["pos"] = []
    log_targets = set()
    if rng.random() < {"C10": 0.22, "C09": 0.07, "C15": 0.07}[profile]:
        for i in rng.sample(range(m), rng.choice([1, 1, 2]) if m >= 2 else 1):
            log_targets.add(i)
            if rng.random() < 0.9:
                fun["pos"].append(i)        # (10%: the result may be non-positive: the assertion of the source)
    vals = eval_fun(fun, kstar)
    targets = []
    for i in range(m):
        v = vals[i]
        if fam == "inconsistent":
            v += rnd(rng, 0.2, 2.0) * rng.choice([1, -1])
        tol = rng.choice([1e-10, 1e-8, 1e-8, 1e-6, 1e-4, 1e-2, 0.3])
        if rng.random() < 0.05:
            tol = 1e-15
        if i in log_targets and not v > 0:
            v = abs(v) + 0.1
        targets.append({"value": v, "tol": tol, "weight": rng.choice([1.0, 1.0, 1.0, 0.5, 2.0, 10.0, 1e3, 1e-2]),
                        "tag": rng.choice(ttag_pool), "optimize_log": i in log_targets})
    if rng.random() < 0.12:
        j = rng.randrange(n)
        d = 1 if kstar[j] >= x0[j] else -1
        if rng.random() < 0.3:
            d = -d
        fun["fault"] = [j, x0[j] + d * rnd(rng, 0.05, 0.8), d]
    # undefined (NaN) results: at the start point, on the way to the solution, or on a half line
    fun["S"] = []
    if rng.random() < {"C09": 0.30, "C10": 0.04, "C15": 0.06}[profile]:
        for _ in range(rng.choice([1, 1, 2])):
            i, j = rng.randrange(m), rng.randrange(n)
            kind = rng.choice(["sinc", "zero_over", "sqrt", "log"])
            place = rng.choice(["start", "start", "way", "far"])
            if kind in ("sinc", "zero_over"):
                c = {"start": x0[j], "way": x0[j] + 0.5 * (kstar[j] - x0[j]), "far": x0[j] + 7.3}[place]
            else:   # undefined for k_j < c
                c = {"start": x0[j] + rng.choice([0.0, 0.3]), "way": min(x0[j], kstar[j]) + 0.3 * abs(kstar[j] - x0[j]),
                     "far": x0[j] - 7.3}[place]
            fun["S"].append([kind, i, j, c, rnd(rng, 0.2, 1.5)])
        # the other targets already met at the start (so that only the undefined ones decide), half of the time
        if rng.random() < 0.5:
            at0 = eval_fun(fun, x0)
            hit = {e[1] for e in fun["S"]}
            for i in range(m):
                if i not in hit:
                    targets[i]["value"] = at0[i]
    if rng.random() < {"C09": 0.06, "C10": 0.01, "C15": 0.01}[profile]:
        targets[rng.randrange(m)]["tol"] = None
    opts = {"n_steps_max": rng.choice([1, 2, 3, 5, 8, 12, 20, 25] if profile != "C09" else [2, 5, 8, 12, 20, 25, 25]), "assert_within_tol": rng.random() < 0.92,
            "restore_if_fail": rng.random() < 0.8,
            "check_limits": check_limits}
    vt = [v["tag"] for v in vary]
    tt = [t["tag"] for t in targets]
    twin = None
    ops = []

    def gen_bro():
        return rng.choice([False, False, False, True, 2, 3])

    def gen_args(no_target_enable=False, force_dt=None):
        a = {}
        if force_dt is not None:
            a["disable_target"] = force_dt
        elif rng.random() < 0.35:
            a["disable_target"] = gen_sel(rng, m, tt, allow_bool=False, rich=rich)
        if rng.random() < 0.35:
            a["disable_vary"] = gen_sel(rng, n, vt, allow_bool=False, rich=rich)
        if rng.random() < 0.25:
            a["disable_vary_name"] = gen_sel(rng, n, vt, names=names, allow_bool=False, rich=rich)
        if rng.random() < 0.08 and not no_target_enable:
            a["enable_target"] = gen_sel(rng, m, tt, allow_bool=False, rich=rich)
        if rng.random() < 0.08:
            a["enable_vary"] = gen_sel(rng, n, vt, allow_bool=False, rich=rich)
        if rng.random() < 0.05:
            a["enable_vary_name"] = gen_sel(rng, n, vt, names=names, allow_bool=False, rich=rich)
        return a

    mode = rng.random()
    if profile == "C10" and m >= 2 and mode < 0.3:
        # twin experiment: target j is disabled (persistently, or by every step's
        # disable_target argument) and its component differs between the two runs
        j = rng.choice(sorted(log_targets)) if (log_targets and rng.random() < 0.7) else rng.randrange(m)
        twin = [j, rnd(rng, 0.3, 2.0)]
        opts["restore_if_fail"] = False
        if rng.random() < 0.5:
            ops += [["disable", [j], None, None], ["clear"]]
            for _ in range(rng.randint(1, 4)):
                k = rng.random()
                if k < 0.4:
                    ops.append(["solve", rng.choice([None, 1, 3]), rng.random() < 0.8, gen_bro()])
                elif k < 0.8:
                    a = gen_args(no_target_enable=True)
                    a.pop("disable_target", None)
                    ops.append(["step", rng.choice([1, 1, 2, 3]), rng.random() < 0.8, a, gen_bro()])
                elif k < 0.9:
                    ops.append(["tag", rng.choice(ROW_TAGS)])
                else:
                    ops.append(["disable", None, gen_sel(rng, n, vt, allow_bool=False, rich=rich), None])
        else:
            for _ in range(rng.randint(1, 4)):
                a = gen_args(no_target_enable=True, force_dt=[j])
                ops.append(["step", rng.choice([1, 1, 2, 3]), rng.random() < 0.8, a, gen_bro()])
    else:
        nops = rng.choice([1, 1, 2, 3, 4, 5, 6] if profile != "C15" else [2, 3, 4, 5, 6, 7, 8])
        rows_est = 1
        for _ in range(nops):
            k = rng.random()
            p_solve = {"C09": 0.5, "C10": 0.3, "C15": 0.22}[profile]
            if k < p_solve:
                ops.append(["solve", rng.choice([None, None, None, 1, 2, 4]), rng.random() < 0.85, gen_bro()])
                rows_est += 3
            elif k < p_solve + 0.28:
                a = gen_args() if rng.random() < (0.7 if profile == "C10" else 0.4) else {}
                ops.append(["step", rng.choice([0, 1, 1, 1, 2, 3, 5]), rng.random() < 0.8, a, gen_bro()])
                rows_est += 2
            elif k < p_solve + 0.40:
                ops.append(["reload", rng.randrange(0, rows_est + 1) if rng.random() < 0.9 else rows_est + 50])
                rows_est += 1
            elif k < p_solve + 0.46:
                ops.append(["tag", rng.choice(ROW_TAGS)])
                rows_est += 1
            elif k < p_solve + 0.50:
                ops.append(["reload_tag", rng.choice(ROW_TAGS + ["take_best"])])
                rows_est += 1
            elif k < p_solve + 0.60:
                ops.append(["enable", gen_sel(rng, m, tt, rich=rich) if rng.random() < 0.5 else None,
                            gen_sel(rng, n, vt, rich=rich) if rng.random() < 0.5 else None,
                            gen_sel(rng, n, vt, names=names, rich=rich) if rng.random() < 0.3 else None])
            elif k < p_solve + 0.72:
                ops.append(["disable", gen_sel(rng, m, tt, rich=rich) if rng.random() < 0.5 else None,
                            gen_sel(rng, n, vt, rich=rich) if rng.random() < 0.5 else None,
                            gen_sel(rng, n, vt, names=names, rich=rich) if rng.random() < 0.3 else None])
            else:
                ops.append(["clear"])
                rows_est = 1
    # ---- a name / tag that is a proper prefix of another one: the longer one disabled for good, the shorter one
    #      enabled again (explicitly or by the undo of a per-call disable_* argument), then steps
    if rich and twin is None and rng.random() < 0.3:
        pairs = [("name", a, b) for a in names for b in names if a != b and b.startswith(a)]
        vt_ = [v["tag"] for v in vary]
        pairs += [("tag", a, b) for a in set(vt_) for b in set(vt_) if a and a != b and b.startswith(a)]
        if pairs:
            kind_, short, long_ = rng.choice(pairs)
            esc = rng.choice([lambda x: x, re.escape])
            def ok(pat):
                try:
                    re.compile(pat); return pat
                except re.error:
                    return re.escape(pat)
            sh, lg = ok(esc(short)), ok(esc(long_))
            first = ["disable", None, None, [lg]] if kind_ == "name" else ["disable", None, [lg], None]
            if rng.random() < 0.5:
                second = ["enable", None, None, sh] if kind_ == "name" else ["enable", None, sh, None]
            else:
                second = ["step", 1, True, ({"disable_vary_name": sh} if kind_ == "name" else {"disable_vary": [sh]}), False]
            ops = [first, second, ["step", rng.choice([1, 2, 3]), True, {}, gen_bro()]] + ops
    # ---- "reconfigure between calls": attributes of the public Target / Vary objects re-assigned on the live optimizer
    def gen_set():
        k = rng.random()
        if k < 0.3:
            i = rng.randrange(m)
            t0 = targets[i]["tol"] or 1e-6
            return ["set", "target", i, "tol", rng.choice([t0 * 1e-4, t0 * 1e-2, t0 * 1e-6, t0 * 100, 1e-12, 0.3])]
        if k < 0.42:
            i = rng.randrange(m)
            v = targets[i]["value"] + rnd(rng, -0.3, 0.3)
            return ["set", "target", i, "value", (abs(v) + 0.05) if targets[i]["optimize_log"] else v]
        if k < 0.52:
            return ["set", "target", rng.randrange(m), "weight", rng.choice([1.0, 0.5, 2.0, 10.0, 1e-2])]
        if k < 0.62:
            return ["set", rng.choice(["target", "vary"]), 0, "active", rng.random() < 0.5]
        j = rng.randrange(n)
        if k < 0.78:
            c = x0[j]
            return ["set", "vary", j, "limits", rng.choice([None, [c - 3.0, c + 3.0], [c - 0.4, c + 0.4], [c - 3.0, None],
                                                            [None, c + 3.0], [min(c, kstar[j]) - 0.1, max(c, kstar[j]) + 0.1]])]
        if k < 0.9:
            return ["set", "vary", j, "max_step", rng.choice([None, 0.01, 0.1, 0.5, 2.0])]
        return ["set", "vary", j, "weight", rng.choice([1.0, 1.0, 0.5, 2.0, 3.0])]

    if twin is None and rng.random() < {"C09": 0.3, "C10": 0.18, "C15": 0.18}[profile]:
        if rng.random() < 0.45:
            # tighten-and-refine: solve, tighten every tolerance, solve again on the same object
            f_ = rng.choice([1e-3, 1e-5, 1e-8])
            ops = ops + [["solve", None, True, gen_bro()]] + \
                [["set", "target", i, "tol", (targets[i]["tol"] or 1e-6) * f_] for i in range(m)] + \
                [["solve", rng.choice([None, None, 3]), True, gen_bro()]]
        else:
            new_ops = []
            for op in ops:
                if rng.random() < 0.5:
                    new_ops += [gen_set() for _ in range(rng.choice([1, 1, 2]))]
                new_ops.append(op)
            ops = new_ops + ([gen_set(), rng.choice([["solve", None, True, False], ["step", 2, True, {}, False], ["tag", "t1"]])]
                             if rng.random() < 0.6 else [])
    # ---- every other public entry point of Optimize, interleaved with the modelled calls
    if twin is None and rng.random() < {"C09": 0.15, "C10": 0.15, "C15": 0.35}[profile]:
        for _ in range(rng.choice([1, 1, 2, 3])):
            name, kw = rng.choice(FOREIGN)
            fop = [name, kw["n"]] if name in ("run_jacobian",) else (["add_point", kw["tag"]] if name == "add_point_to_log"
                                                                      else ["foreign", name, kw])
            ops.insert(rng.randrange(len(ops) + 1), fop)
        if rng.random() < 0.6:
            ops.append(rng.choice([["tag", "t2"], ["step", 1, True, {}, False], ["solve", None, True, False], ["reload", 0]]))
    # ---- rarely used forms of the constructors
    ctor = {k: True for k in ("varylist", "targetlist", "scale", "action_target", "target_weight_none", "vary_weight_none",
                               "solver", "solver_options", "name", "single_vary", "show_call_counter")
            if rng.random() < 0.08}
    # an exception inside add_point_to_log (C15: the log must stay aligned): a disabled knob that sits outside
    # its limits is enabled, tag() then raises ValueError while it evaluates the point; later it is disabled again
    if profile == "C15" and twin is None and check_limits and rng.random() < 0.06:
        cand = [j for j in range(n) if vary[j]["limits"] is not None and vary[j]["limits"][1] is not None
                and math.isfinite(vary[j]["limits"][1])]
        if cand:
            j = rng.choice(cand)
            vary[j]["active"] = False
            x0[j] = vary[j]["limits"][1] + 0.3
            ops = [["enable", None, [j], None], ["tag", "t1"], ["disable", None, [j], None], ["tag", "t2"]] + ops
    return {"family": fam, "where": where, "fun": fun, "x0": x0, "vary": vary, "targets": targets, "opts": opts,
            "ops": ops, "twin": twin, "timeout": 5.0, "ctor": ctor, "names": names}


def tr_apply(spec, v):
    """the transform hooks, as the runner builds them"""
    if not spec:
        return v
    k = spec[0]
    if k == "abs":
        return abs(v)
    if k == "square":
        return v * v
    if k == "scale":
        return v * spec[1]
    if k == "floor":
        return v if v > spec[1] else spec[1]
    return v if v < spec[1] else spec[1]


def boundary_layer(case, profile):
    """degenerate and boundary configurations laid over a generated case.  Draws from a generator of its
    own (seeded by the case), so the underlying stream of cases is the same as without this layer.
      * several containers, knobs with EQUAL names in different containers (knob locations stay distinct)
      * duck-typed `transform` hooks on target objects, target values given as objects with `_value`,
        limits / step taken from `container.vary_default`
      * boundary values of the numeric attributes: max_step 0 / 0.0 / 1e-300 / inf / numpy scalar, tol 0,
        limits lo == hi and (0, 0), step 0 (rare), broyden 0, solve(n_steps=0)"""
    rng = random.Random("boundary:" + json.dumps(case, sort_keys=True))
    n, m = len(case["x0"]), len(case["targets"])
    vary, targets, names = case["vary"], case["targets"], case["names"]
    # ---- containers ---------------------------------------------------------------------------------
    if n >= 2 and rng.random() < {"C09": 0.22, "C10": 0.15, "C15": 0.22}[profile]:
        nc = rng.choice([2, 2, 3]) if n >= 3 else 2
        cidx = [rng.randrange(nc) for _ in range(n)]
        if len(set(cidx)) == 1:
            cidx[-1] = (cidx[0] + 1) % nc
        order = sorted(set(cidx)); cidx = [order.index(c) for c in cidx]
        if rng.random() < 0.8:
            # equal names across containers: knob j takes the name of an earlier knob that lives elsewhere
            for j in range(1, n):
                cand = [i for i in range(j) if cidx[i] != cidx[j] and
                        all(not (names[k] == names[i] and cidx[k] == cidx[j]) for k in range(n) if k != j)]
                if cand and rng.random() < 0.7:
                    names[j] = names[rng.choice(cand)]
        case["containers"] = cidx
    # ---- transform hooks ----------------------------------------------------------------------------
    if rng.random() < {"C09": 0.14, "C10": 0.12, "C15": 0.25}[profile]:
        plain = [i for i in range(m) if not targets[i].get("optimize_log")]
        for i in rng.sample(plain, min(len(plain), rng.choice([1, 1, 2, m]))):
            v = targets[i]["value"]
            spec = rng.choice([["abs"], ["abs"], ["square"], ["scale", 0.5], ["scale", -3.0], ["floor", v], ["ceil", v],
                               ["floor", v + 0.3], ["ceil", v - 0.3]])
            targets[i]["transform"] = spec
            if spec[0] in ("abs", "square", "scale") or rng.random() < 0.5:
                targets[i]["value"] = tr_apply(spec, v)      # still reachable where the raw value was
    if rng.random() < 0.05:
        case["ctor"]["boxed_value"] = True
    if rng.random() < 0.05:
        case["ctor"]["vary_default"] = True
    # ---- boundary values ----------------------------------------------------------------------------
    if rng.random() < {"C09": 0.10, "C10": 0.30, "C15": 0.10}[profile]:
        j = rng.randrange(n)
        vary[j]["max_step"] = rng.choice([0, 0, 0.0, 0.0, 1e-300, float("inf")])
        vary[j]["active"] = True
        if rng.random() < 0.6:
            for k in range(n):
                if k != j:
                    vary[k]["max_step"] = rng.choice([None, None, 0])
    if rng.random() < 0.10:
        for v in vary:
            if v["max_step"] is not None and rng.random() < 0.6:
                v["max_step_np"] = True
    if rng.random() < 0.04:
        targets[rng.randrange(m)]["tol"] = 0.0
    if rng.random() < 0.05:
        j = rng.randrange(n)
        if rng.random() < 0.3:
            case["x0"][j] = 0.0
        vary[j]["limits"] = [case["x0"][j], case["x0"][j]]
    if rng.random() < 0.015:
        vary[rng.randrange(n)]["step"] = 0.0
    for op in case["ops"]:
        if op[0] in ("solve", "step") and op[-1] is False and rng.random() < 0.1:
            op[-1] = 0
        if op[0] == "solve" and rng.random() < 0.03:
            op[1] = 0
    for k, op in enumerate(case["ops"]):
        if op[0] == "set" and op[3] == "max_step" and rng.random() < 0.3:
            op[4] = rng.choice([0, 0.0, 1e-300, float("inf")])
    # ---- limits re-assigned so that the start point (iteration 0) / the current point lies OUTSIDE them -------------
    def excluding(j):
        c = case["x0"][j]
        return rng.choice([[c + 0.2, c + 1.5], [c - 1.5, c - 0.2], [c + 0.05, None], [None, c - 0.05], [c + 1e-9, c + 3.0]])
    for op in case["ops"]:
        if op[0] == "set" and op[3] == "limits" and rng.random() < 0.3:
            op[4] = excluding(op[2])
    if case.get("twin") is None and rng.random() < {"C09": 0.10, "C10": 0.05, "C15": 0.05}[profile]:
        inside = all(v["limits"] is None or ((v["limits"][0] is None or v["limits"][0] <= x) and (v["limits"][1] is None or x <= v["limits"][1]))
                     for v, x in zip(vary, case["x0"]))
        if rng.random() < 0.6 and inside:       # (a start outside the limits stays a constructor error)
            case["opts"]["check_limits"] = False
        act = [j for j in range(n) if vary[j]["active"]] or [0]
        sets = [["set", "vary", j, "limits", excluding(j)] for j in rng.sample(act, rng.choice([1, 1, min(2, len(act))]))]
        tail = rng.choice([[["solve", rng.choice([None, 1, 2]), True, False]],
                           [["step", 1, True, {}, False], ["solve", None, True, False]],
                           [["solve", 1, False, False], ["reload", 0]],
                           [["reload", 0], ["tag", "t1"]]])
        pos = rng.randrange(len(case["ops"]) + 1) if rng.random() < 0.5 else 0
        case["ops"] = case["ops"][:pos] + sets + tail + case["ops"][pos:]
    # ---- a limit placed where the first unconstrained Jacobian step lands (resolved by resolve_landing) -------------
    if case.get("twin") is None and rng.random() < {"C09": 0.02, "C10": 0.09, "C15": 0.02}[profile]:
        act = [j for j in range(n) if vary[j]["active"]]
        inside = all(v["limits"] is None or ((v["limits"][0] is None or v["limits"][0] <= x) and (v["limits"][1] is None or x <= v["limits"][1]))
                     for v, x in zip(vary, case["x0"]))
        if act and inside:
            case["land"] = [rng.choice(act), rng.randrange(7)]
            if rng.random() < 0.7:
                case["opts"]["check_limits"] = False
            case["ops"] = [["step", 1, True, {}, False]] + case["ops"]
    return case


def gen_case(rng, profile):
    return boundary_layer(gen_case_base(rng, profile), profile)


def resolve_landing(cases):
    """cases marked "land": [j, k] get the limit of knob j placed relative to the point v where the first Jacobian step of
    the case lands when knob j is unlimited (found by running that step on the implementation): exactly at v, 1 or 3 ulps
    or 1e-10 relative or 5e-13 short of it (the full step then overshoots the limit by that little and the knob must
    be frozen), or one ulp beyond it (the step must pass).  Every accepted iterate is compared with the limits exactly."""
    import copy
    idx = [i for i, c in enumerate(cases) if c.get("land")]
    if not idx:
        return cases
    probes = []
    for i in idx:
        c = copy.deepcopy(cases[i])
        c["vary"][c["land"][0]]["limits"] = None
        c["ops"] = [["step", 1, True, {}, False]]
        del c["land"]
        probes.append(c)
    for i, r in zip(idx, run_cases(probes)):
        c = cases[i]
        j, k = c.pop("land")
        rows = [w for st in r.get("steps", []) for w in st["obs"]["newrows"] if w["alpha"] >= 0]
        if r["status"] != "ok" or not rows:
            continue
        v, x = float.fromhex(rows[0]["knobs"][j]), c["x0"][j]
        if not math.isfinite(v) or v == x:
            continue
        up = v > x
        back = -math.inf if up else math.inf
        sg = 1.0 if up else -1.0
        lim = [v, math.nextafter(v, back), math.nextafter(math.nextafter(math.nextafter(v, back), back), back),
               v - sg * 1e-10 * abs(v), v - sg * 5e-13, math.nextafter(v, -back), v - sg * 3e-10 * abs(v)][k]
        if (up and not lim > x) or (not up and not lim < x):
            continue
        c["vary"][j]["limits"] = [x - 1.0, lim] if up else [lim, x + 1.0]
        c["landing"] = [j, k]
    return cases


# ---------------------------------------------------------------------------
# Coq emission
# ---------------------------------------------------------------------------

def cf(h):
    """C99 hex string (or Python float) -> PrimFloat literal"""
    if not isinstance(h, str):
        h = float(h).hex()
    if h == "inf":
        return "infinity"
    if h == "-inf":
        return "neg_infinity"
    if h == "nan":
        return "nan"
    if h.startswith("-"):
        return f"(-{h[1:]})%float"
    return f"{h}%float"


def cfl(hs):
    return clist([cf(h) for h in hs])


def cbl(bs):
    return clist([cbool(b) for b in bs])


def csel(x, N):
    if x is None:
        return "None"
    if x is True:
        return "(Some SAll)"
    if x is False:
        return "(Some SNot)"
    if isinstance(x, (int, str)):
        x = [x]
    items = []
    for e in x:
        if isinstance(e, int):
            if e < 0:
                raise ValueError("negative index")
            items.append(f"EIdx {e}")
        else:
            items.append(f"EName {cn(N(e))}")
    return f"(Some (SList {clist(items)}))"


def cbro(b):
    if b is False or b == 0:
        return "BroOff"
    if b is True or b == 1:
        return "BroOn"
    return f"(BroEvery {int(b)})"


def emit_op(op, N):
    k = op[0]
    if k == "step":
        _, n, tb, a, bro = op
        args = "(mkArgs " + " ".join(csel(a.get(nm), N) for nm in
                                     ("enable_target", "enable_vary", "enable_vary_name",
                                      "disable_target", "disable_vary", "disable_vary_name")) + ")"
        return f"OStep {n} {cbool(tb)} {args} {cbro(bro)}"
    if k == "solve":
        _, n, tb, bro = op
        return f"OSolve {'None' if n is None else f'(Some {n})'} {cbool(tb)} {cbro(bro)}"
    if k == "run_jacobian":
        return f"OStep {op[1]} true (mkArgs None None None None None None) BroOff"
    if k == "add_point":
        return f"OTag {cn(N(op[1]))}"
    if k == "reload":
        return f"OReload {op[1]}"
    if k == "reload_tag":
        return f"OReloadTag {cn(N(op[1]))}"
    if k == "tag":
        return f"OTag {cn(N(op[1]))}"
    if k == "clear":
        return "OClear"
    if k == "enable":
        return f"OEnable {csel(op[1], N)} {csel(op[2], N)} {csel(op[3], N)}"
    if k == "disable":
        return f"ODisable {csel(op[1], N)} {csel(op[2], N)} {csel(op[3], N)}"
    raise ValueError(op)


def emit_row(r, N):
    return (f"(mkRow {cfl(r['knobs'])} {cbl(r['va'])} {cbl(r['ta'])} {cf(r['pen'])} {cfl(r['targets'])} "
            f"{cbl(r['tolmet'])} {cbl(r['hit'])} ({r['alpha']})%Z {cn(N(r['tag']))})")


def emit_obs(o, N):
    sx = "None" if o["sx"] is None else f"(Some {cfl(o['sx'])})"
    return (f"(mkObs {cfl(o['knobs'])} {cbl(o['va'])} {cbl(o['ta'])} {sx} {cbl(o['mfl'])} {cbool(o['lpwt'])} "
            f"{cfl(o['lres'])} {cbl(o['ltw'])} {cf(o['pen_after'])} ({o['alpha_last']})%Z {o['ncall']} {o['loglen']} "
            f"{cbool(o['ragged'])} {clist([emit_row(r, N) for r in o['newrows']])})")


def emit_outc(s):
    return "OOk" if s == "ok" else f"(OErr {s})"


MODEL_ERRS = ("EValue", "ERuntime", "EAssert", "EUser", "ELinAlg")


def new_interner():
    N = vlib.Interner()
    N("")
    N("take_best")
    return N


def emit_cfg(case, N):
    n = len(case["x0"])
    side = lambda x: "None" if x is None else f"(Some {cf(x)})"
    lims = clist(["None" if v["limits"] is None else f"(Some ({side(v['limits'][0])}, {side(v['limits'][1])}))" for v in case["vary"]])
    steps = clist([cf(1e-10 if v["step"] is None else v["step"]) for v in case["vary"]])
    maxs = clist(["None" if v["max_step"] is None else f"(Some {cf(v['max_step'])})" for v in case["vary"]])
    o = case["opts"]
    return (f"(mkCfg {cfl([v['weight'] for v in case['vary']])} {lims} {steps} {maxs} "
            f"{clist([cn(N(v['tag'])) for v in case['vary']])} {clist([cn(N(nm)) for nm in (case.get('names') or [f'k{j}' for j in range(n)])])} "
            f"{cfl([t['value'] for t in case['targets']])} {cfl([float('nan') if t['tol'] is None else t['tol'] for t in case['targets']])} "
            f"{cfl([t['weight'] for t in case['targets']])} {clist([cn(N(t['tag'])) for t in case['targets']])} "
            f"{o['n_steps_max']} {cbool(o['assert_within_tol'])} {cbool(o['restore_if_fail'])} {cbool(o.get('check_limits', True))} "
            f"{cbl([bool(t.get('optimize_log', False)) for t in case['targets']])} "
            f"{clist([ctr(t.get('transform')) for t in case['targets']])})")


def ctr(spec):
    if not spec:
        return "TId"
    k = spec[0]
    if k in ("abs", "square"):
        return {"abs": "TAbs", "square": "TSquare"}[k]
    return "(" + {"scale": "TScale", "floor": "TFloor", "ceil": "TCeil"}[k] + " " + cf(spec[1]) + ")"


def emit_case(case, res):
    """Coq term of type tcase, or None when the run is outside the model
    (non-finite values, timeout, an exception class the model has no name for)"""
    if res["status"] not in ("ok", "ragged", "ctor_error"):
        return None
    import copy
    N = new_interner()
    cur = copy.deepcopy(case)          # the configuration current at each call ("set" operations edit it)
    cfg = emit_cfg(cur, N)
    t = res["tables"]
    if not t["deterministic"]:
        return None
    ftab = clist([f"({cfl(k)}, {'None' if v is None else '(Some ' + cfl(v) + ')'})" for k, v in t["f"]])
    ptab = clist([f"({cfl(y)}, {cf(p)})" for y, p in t["pen"]])
    jm = lambda m: clist([cfl(c) for c in m])
    ntab = clist([f"({jm(mm)}, {cfl(b)}, {cfl(x)})" for mm, b, x in t["newton"]])
    sfail = clist([jm(mm) for mm in t["svdfail"]])
    btab = clist([f"(({jm(k[0])}, {cfl(k[1])}, {cfl(k[2])}, {cfl(k[3])}, {cfl(k[4])}), {jm(j)})" for k, j in t["bro"]])
    ltab = clist([f"({cf(x)}, {cf(y)})" for x, y in t.get("log10", [])])
    # re.fullmatch verdicts for every string selector of the history against every tag and name
    pats = set()
    def collect(x):
        if isinstance(x, str):
            pats.add(x)
        elif isinstance(x, (list, tuple)):
            for e in x:
                collect(e)
    for op in case["ops"]:
        if op[0] in ("enable", "disable"):
            collect(op[1]); collect(op[2]); collect(op[3])
        elif op[0] == "step":
            for v in op[3].values():
                collect(v)
    strs = set(v["tag"] for v in case["vary"]) | set(tt["tag"] for tt in case["targets"]) | \
        set(case.get("names") or [f"k{j}" for j in range(len(case["x0"]))])
    mtab = clist([f"({cn(N(pp))}, {cn(N(ss))})" for pp in sorted(pats) for ss in sorted(strs) if re.fullmatch(pp, ss) is not None])
    if res["status"] == "ctor_error":
        if res["ctor_error"] not in MODEL_ERRS:
            return None
        init = f"(OErr {res['ctor_error']}, None)"
        ops = "[]"
    else:
        init = f"(OOk, Some {emit_obs(res['init'], N)})"
        items = []
        dirty = False
        for op, st in zip(case["ops"], res["steps"]):
            kind = op[0]
            if kind == "foreign":
                items.append(f"TForeign {emit_obs(st['obs'], N)}")
                continue
            if kind == "set":
                _, what, i, attr, val = op
                if st["out"] != "ok":
                    return None
                if attr == "active":
                    sel = f"(Some (SList [EIdx {i}]))"
                    o_ = (f"{'OEnable' if val else 'ODisable'} " +
                          (f"{sel} None None" if what == "target" else f"None {sel} None"))
                    items.append(f"TOp {'(Some ' + emit_cfg(cur, N) + ')' if dirty else 'None'} ({o_}) false OOk {emit_obs(st['obs'], N)}")
                    dirty = False
                else:
                    (cur["targets"] if what == "target" else cur["vary"])[i][attr] = val
                    dirty = True
                continue
            if st["out"] != "ok" and st["out"] not in MODEL_ERRS:
                return None
            items.append(f"TOp {'(Some ' + emit_cfg(cur, N) + ')' if dirty else 'None'} ({emit_op(op, N)}) "
                         f"{cbool(kind == 'clear')} {emit_outc(st['out'])} {emit_obs(st['obs'], N)}")
            dirty = False
        ops = clist(items)
    return (f"(mkCase {cfg} {cfl(case['x0'])} {cbl([v['active'] for v in case['vary']])}\n  {ftab}\n  {ptab}\n  {ntab}\n  {sfail}\n"
            f"  {btab}\n  {ltab}\n  {mtab}\n  {init}\n  {ops})")


HEADER = ("From Coq Require Import List ZArith NArith PrimFloat.\nFrom XD Require Import model.Opt run.RunOpt.\n"
          "Import ListNotations.\n")


META = {}      # what the runner reports about the implementation's API (public methods, constructor signatures)


def run_cases(cases, workers=None, timeout=1800):
    impl = vlib.build_impl()
    per = max(1, min(40, (len(cases) + vlib.NPROC - 1) // vlib.NPROC))
    parts = list(vlib.chunks(cases, per))
    with ThreadPoolExecutor(max_workers=workers or vlib.NPROC) as ex:
        rs = list(ex.map(lambda p: vlib.run_impl("opt_runner.py", {"cases": p}, impl=impl, timeout=timeout), parts))
    out = []
    for r in rs:
        out += r["results"]
        META.update({k: v for k, v in r.items() if k != "results"})
    return out


def model_check(ctx, cases, results, tag, per_file=12):
    """evaluate the model on every representable trace; returns
    (mismatching case indices, indices outside the model)"""
    texts, index_of, outside = [], [], []
    cur, ids = [], []
    for i, (c, r) in enumerate(zip(cases, results)):
        try:
            e = emit_case(c, r)
        except ValueError:
            e = None
        if e is None:
            outside.append(i)
            continue
        cur.append(e); ids.append(i)
        if len(cur) == per_file:
            texts.append(cur); index_of.append(ids); cur, ids = [], []
    if cur:
        texts.append(cur); index_of.append(ids)
    files = [HEADER + "Definition cases : list tcase :=\n " + clist(t).replace("; (mkCase", ";\n (mkCase") +
             ".\nEval vm_compute in (mismatches cases).\n" for t in texts]
    mism = []
    for (rc, so, se), ids in zip(vlib.coq_eval_files(ctx, files, tag), index_of):
        lst = vlib.parse_nat_list(so) if rc == 0 else None
        if lst is None:
            raise vlib.InfraError(f"optimizer case file evaluation failed: rc={rc} {se[-1500:]} {so[-300:]}")
        mism += [ids[k] for k in lst]
    return sorted(mism), outside


def first_diff(ctx, case, res, tag="d"):
    e = emit_case(case, res)
    if e is None:
        return None
    txt = HEADER + "Definition cases : list tcase :=\n [" + e + "].\nEval vm_compute in (first_diffs cases).\n"
    (rc, so, se), = vlib.coq_eval_files(ctx, [txt], tag)
    return so.strip()[-200:] if rc == 0 else se[-500:]


# ---------------------------------------------------------------------------
# common driver of the three checks
# ---------------------------------------------------------------------------
import ast, hashlib

MIRRORED = {"optimize.py": ["MeritFunctionForMatch", "Optimize", "_set_state", "_bool_array_to_string", "_bool_array_from_string",
                            "Vary", "Target"],
            "jacobian.py": ["JacobianSolver"], "matrixutils.py": ["SVD"]}


def fingerprint():
    """hash of the normalised AST (docstrings removed) of the classes the model mirrors"""
    h = hashlib.sha256()
    for fn, names in sorted(MIRRORED.items()):
        p = os.path.join(vlib.REPO, "xdeps", "optimize", fn)
        try:
            tree = ast.parse(open(p).read())
        except Exception as e:
            h.update(f"unparsable {fn}: {e}".encode())
            continue
        for node in tree.body:
            if isinstance(node, (ast.ClassDef, ast.FunctionDef)) and node.name in names:
                for sub in ast.walk(node):
                    if isinstance(sub, (ast.FunctionDef, ast.ClassDef)) and sub.body and isinstance(sub.body[0], ast.Expr) \
                            and isinstance(getattr(sub.body[0], "value", None), ast.Constant) and isinstance(sub.body[0].value.value, str):
                        sub.body = sub.body[1:] or [ast.Pass()]
                h.update(ast.dump(node).encode())
    return h.hexdigest()[:16]


FP_FILE = os.path.join(vlib.VERIF, "tools", "opt_fingerprint.json")


def fails_of(res, pid):
    return list(res.get(pid, []))


def shrink_case(case, pid, pred=None):
    """delta-debug the operation list while the oracle of [pid] keeps failing"""
    pred = pred or (lambda r: bool(fails_of(r, pid)))
    ops = list(case["ops"])
    i = 0
    budget = 14
    while i < len(ops) and budget > 0:
        cand = dict(case, ops=ops[:i] + ops[i + 1:])
        budget -= 1
        try:
            r = run_cases([cand], workers=1)[0]
        except vlib.InfraError:
            break
        if pred(r):
            ops = cand["ops"]
        else:
            i += 1
    return dict(case, ops=ops)


def feature_key(case, res, pid):
    """non-trivial = the run exercised the mechanism the property is about"""
    c = res.get("counts", {})
    if c.get("jsteps", 0) < 1 or res["status"] not in ("ok", "ragged"):
        return None
    outs = [s["out"] for s in res["steps"]]
    rows = [r for s in res["steps"] for r in s["obs"]["newrows"]]
    if pid == "C09":
        ok = any(op[0] == "solve" for op in case["ops"]) and (any(o != "ok" for o in outs) or any(r["alpha"] >= 0 for r in rows))
    elif pid == "C10":
        ok = any(any(r["hit"]) for r in rows) or any(v["max_step"] is not None for v in case["vary"]) \
            or not all(v["active"] for v in case["vary"]) or case.get("twin") is not None \
            or any(op[0] == "step" and op[3] for op in case["ops"])
    else:
        ok = len(rows) >= 3 and (any(r["tag"] == "take_best" for r in rows) or any(r["alpha"] > 0 for r in rows)
                                 or any(op[0] in ("reload", "reload_tag", "clear") for op in case["ops"]))
    return json.dumps([case["fun"], case["x0"], case["ops"], case["opts"]], sort_keys=True) if ok else None


def distribution(cases, results):
    d = {"cases": len(cases), "family": {}, "solution": {}, "status": {}, "outcomes": {}, "ops": {},
         "knobs": {}, "targets": {}, "unit_weights": 0, "with_limits": 0, "with_max_step": 0, "disabled_knob_at_start": 0,
         "broyden_ops": 0, "twin_runs": 0, "rows": 0, "rows_hit_limit": 0, "rows_alpha_gt0": 0, "rows_take_best": 0,
         "failing_solves": 0, "solves": 0, "restored": 0, "user_faults": 0, "jacobian_steps": 0, "merit_calls": 0,
         "lstsq_calls": 0, "broyden_updates": 0, "temporary_args_steps": 0}
    inc = lambda k, v: d[k].__setitem__(str(v), d[k].get(str(v), 0) + 1)
    for c, r in zip(cases, results):
        inc("family", c["family"]); inc("solution", c["where"]); inc("status", r["status"])
        inc("knobs", len(c["x0"])); inc("targets", len(c["targets"]))
        d["unit_weights"] += all(v["weight"] == 1.0 for v in c["vary"])
        d["with_limits"] += any(v["limits"] is not None for v in c["vary"])
        d["with_max_step"] += any(v["max_step"] is not None for v in c["vary"])
        d["disabled_knob_at_start"] += not all(v["active"] for v in c["vary"])
        d["twin_runs"] += bool(r.get("twin_run"))
        cc = r.get("counts", {})
        d["jacobian_steps"] += cc.get("jsteps", 0); d["merit_calls"] += cc.get("mcalls", 0)
        d["lstsq_calls"] += cc.get("lstsq", 0); d["broyden_updates"] += cc.get("bro", 0)
        d["user_faults"] += c["fun"]["fault"] is not None
        for op, st in zip(c["ops"], r["steps"]):
            inc("ops", op[0]); inc("outcomes", st["out"])
            if op[0] == "solve":
                d["solves"] += 1
                if st["out"] != "ok":
                    d["failing_solves"] += 1
                    d["restored"] += bool(c["opts"]["restore_if_fail"])
            if op[0] in ("solve", "step") and op[-1]:
                d["broyden_ops"] += 1
            if op[0] == "step" and op[3]:
                d["temporary_args_steps"] += 1
            for row in st["obs"]["newrows"]:
                d["rows"] += 1
                d["rows_hit_limit"] += any(row["hit"])
                d["rows_alpha_gt0"] += row["alpha"] > 0
                d["rows_take_best"] += row["tag"] == "take_best"
    d["reconfiguration_ops"] = {}
    d["foreign_calls"] = {}
    d["optimize_log_cases"] = sum(any(t.get("optimize_log") for t in c["targets"]) for c in cases)
    used = set()
    for c, r in zip(cases, results):
        used |= set(r.get("ctor_used", []))
        for op in c["ops"]:
            if op[0] == "set":
                k = f"{op[1]}.{op[3]}"
                d["reconfiguration_ops"][k] = d["reconfiguration_ops"].get(k, 0) + 1
        for name, st in r.get("foreign", []):
            k = f"{name}:{'ok' if st == 'ok' else 'raised'}"
            d["foreign_calls"][k] = d["foreign_calls"].get(k, 0) + 1
    d["constructor_forms_used"] = sorted(used)
    bl = {"several_containers": 0, "equal_knob_names_in_different_containers": 0, "transform_hook_cases": 0, "transform_kinds": {},
          "max_step_boundary_values": {}, "all_max_steps_zero_or_None_with_a_zero": 0, "tol_zero": 0, "limits_lo_eq_hi": 0,
          "step_zero": 0, "broyden_0_ops": 0, "solve_n_steps_0": 0}
    for c in cases:
        bl["several_containers"] += bool(c.get("containers"))
        bl["equal_knob_names_in_different_containers"] += bool(c.get("containers")) and len(set(c["names"])) < len(c["names"])
        bl["transform_hook_cases"] += any(t.get("transform") for t in c["targets"])
        for t in c["targets"]:
            if t.get("transform"):
                k = t["transform"][0]; bl["transform_kinds"][k] = bl["transform_kinds"].get(k, 0) + 1
        for v in c["vary"]:
            if v["max_step"] is not None and (v["max_step"] in (0, 1e-300, float("inf")) or v.get("max_step_np")):
                k = repr(v["max_step"]) + (" (numpy)" if v.get("max_step_np") else "")
                bl["max_step_boundary_values"][k] = bl["max_step_boundary_values"].get(k, 0) + 1
        ms = [v["max_step"] for v in c["vary"]]
        bl["all_max_steps_zero_or_None_with_a_zero"] += any(x is not None and x == 0 for x in ms) and all(x is None or x == 0 for x in ms)
        bl["tol_zero"] += any(t["tol"] is not None and t["tol"] == 0 for t in c["targets"])
        bl["limits_lo_eq_hi"] += any(v["limits"] is not None and v["limits"][0] is not None and v["limits"][0] == v["limits"][1] for v in c["vary"])
        bl["step_zero"] += any(v["step"] is not None and v["step"] == 0 for v in c["vary"])
        for op in c["ops"]:
            bl["broyden_0_ops"] += op[0] in ("solve", "step") and op[-1] is not False and op[-1] == 0
            bl["solve_n_steps_0"] += op[0] == "solve" and op[1] is not None and op[1] == 0
    bl["limit_placed_where_the_first_step_lands"] = {}
    for c in cases:
        if c.get("landing"):
            k = ["exactly", "1 ulp short", "3 ulps short", "1e-10 relative short", "5e-13 short", "1 ulp beyond", "3e-10 relative short"][c["landing"][1]]
            bl["limit_placed_where_the_first_step_lands"][k] = bl["limit_placed_where_the_first_step_lands"].get(k, 0) + 1
    d["boundary_layer"] = bl
    return d


# which constructor arguments the generator exercises (checked against the signatures the runner reports)
CTOR_COVERAGE = {
    "Vary": {"name": "yes; equal names in different containers", "container": "dicts: one for all knobs, or 2..3 containers; "
                     "with a vary_default attribute (limits and step defaults)",
             "limits": "None, two-sided, one-sided None / inf, lo == hi, (0, 0)", "step": "None, values, 0 (rare: a NaN Jacobian)",
             "weight": "values and None (0 and negative: refused by an assertion of Vary, not generated)",
             "max_step": "None, values, 0, 0.0, 1e-300, inf, numpy scalars", "tag": "yes", "active": "True / False"},
    "Target": {"tar": "integer index into the action's result (callables: no)",
               "value": "floats, objects with a _value attribute ('preserve': no)",
               "tol": "values, None, 0", "weight": "values and None (<= 0: refused by Optimize, not generated)",
               "scale": "yes (alias of weight)", "action": "yes",
               "tag": "yes", "optimize_log": "True / False, enabled and disabled"},
    "VaryList": {"vars": "one name per list", "container": "yes", "kwargs": "the Vary keywords"},
    "TargetList": {"tars": "one index per list", "kwargs": "the Target keywords"},
    "Optimize": {"vary": "list of Vary / VaryList, a single Vary", "targets": "list of Target / TargetList (tuples: no)",
                 "restore_if_fail": "True / False", "solver": "None and 'jacobian' (the only implemented one)",
                 "verbose": "False only (printing)", "assert_within_tol": "True / False", "n_steps_max": "1..25",
                 "solver_options": "{} and {'n_steps_max': 20}; options that change JacobianSolver constants "
                                   "(n_bisections, tol, min_step, max_rel_penalty_increase, error_on_penalty_increase) are NOT exercised: "
                                   "the model fixes their defaults",
                 "show_call_counter": "False / True", "check_limits": "True / False", "name": "yes",
                 "kwargs": "NOT exercised (stored as tw_kwargs, unused by the optimizer)"},
}


# what the sources test by bare truthiness / by hasattr, and what the generator does about it (enumerated by grep over
# xdeps/optimize/{optimize,jacobian,matrixutils}.py; the fingerprint of these files guards the list)
TRUTHINESS_AND_HOOKS = {
    "numeric attributes and how the unchanged sources test them": {
        "Vary.max_step": "`is None` (0 is a bound: the whole step is scaled to zero) - generated: None, 0, 0.0, 1e-300, inf, numpy scalars",
        "Vary.weight / Target.weight": "`is None`; 0 and negative values are refused at construction - generated: None and positive values",
        "Vary.step": "`is None` - generated: None, positive values, 0 (the Jacobian column is NaN)",
        "Vary.limits": "`is None`, each side `is None` - generated: None, one-sided, infinite, lo == hi, (0, 0)",
        "Target.tol": "compared with `<` only - generated: positive values, 0, None (NaN)",
        "broyden": "bare truthiness (False, 0: off), `== True`, `i_step % broyden` - generated: False, 0, True, 2, 3",
        "n_steps (step / solve)": "`is None` in solve - generated: None, 0, 1..5",
        "Optimize.n_steps_max": "range() only - generated: 1..25",
        "rescale_x, verbose, show_call_counter, name, return_scalar, zero_if_met, check_limits, restore_if_fail, assert_within_tol, optimize_log":
            "booleans / None tested by truthiness by design (rescale_x and verbose only reachable through the scipy entry points, "
            "which are exercised as foreign calls)"},
    "duck-typed hooks (hasattr / getattr)": {
        "target.transform": "exercised: abs, square, scaling (0.5, -3), lower / upper clip (the inequality-target idiom); modelled (c_ttrans)",
        "target.value._value": "exercised (Target(value=<object with _value>))",
        "container.vary_default": "exercised (limits and step defaults)",
        "Vary container value with _value (Vary.get_value)": "NOT exercised: only the constructor's limit check reads it",
        "vary.active / target.active missing": "NOT exercised: Vary and Target always define active",
        "MeritFunctionForMatch._force_jacobian": "NOT exercised (a debugging hook no public entry point sets)",
        "solver._last_jac_svd, solver._last_jac": "exercised: set by every Jacobian step, read by Broyden steps"},
    "aliased configurations (outside the model, not generated)":
        "the same (container, name) location listed in two Vary entries, the same Vary or Target OBJECT listed twice: the unchanged "
        "sources accept them, the entries are then aliases of one location / one flag (disable(vary=0) disables both entries, a "
        "write to one knob entry is read back through the other); the model's knobs and flags are positional and distinct. "
        "Equal NAMES at distinct locations, equal tags and equal target definitions in distinct objects are generated.",
}


def api_coverage(dist):
    """public entry points of Optimize by introspection: modelled, exercised as foreign calls, never called"""
    api = META.get("public_api", [])
    modelled = set(META.get("modelled", []))
    notc = META.get("not_called", {})
    seen = {k.split(":")[0] for k in dist.get("foreign_calls", {})}
    listed = {n for n, _ in FOREIGN}
    out = {"public_methods": api, "modelled": sorted(modelled & set(api)), "foreign_calls_in_generator": sorted(listed & set(api)),
           "foreign_calls_exercised_this_run": sorted(seen), "not_called": notc,
           "unknown_new_methods": sorted(set(api) - modelled - listed - set(notc))}
    sig = META.get("ctor_signatures", {})
    out["constructor_arguments"] = {c: {a: CTOR_COVERAGE.get(c, {}).get(a, "NOT exercised (new argument)") for a in args}
                                    for c, args in sig.items()}
    return out


CORPUS_DIR = os.path.join(vlib.VERIF, "tools", "corpus")


def load_corpus(pid):
    p = os.path.join(CORPUS_DIR, f"opt_{pid}.json")
    return json.load(open(p)) if os.path.exists(p) else []


WHAT = {
    "C09": "solve(): normal return => every active target within tolerance at the container values; "
           "raise with restore_if_fail => knobs and active flags of log row 0",
    "C10": "log rows and containers inside the closed limits; |delta knob| <= max_step between consecutive Jacobian-step rows; "
           "disabled knobs unchanged; a disabled target's component does not influence the steps; temporary disable_* arguments undone",
    "C15": "every log row: reload(i) puts knobs/flags back and an independent evaluation reproduces penalty and targets; "
           "step(take_best=True) ends within tolerance or on the minimum-penalty point logged during the call; "
           "the rows are read through the public Optimize.log() table, which after every operation must show exactly the recorded rows",
}


def run_property(ctx, pid, n_quick, n_thorough):
    ctx.rule = ("random deterministic merit functions r = A k + b + Q k^2 + T sin(U k + P) (families linear, quadratic, trigonometric, "
                "inconsistent, rank-deficient; optional fault region where the user function raises), 1..4 knobs, 1..5 targets, "
                "start inside the limits (3% deliberately outside), solution inside/outside/far from the limits, per-knob limits, weights, "
                "max_step, tolerances, n_steps_max, Broyden off/on/every k, disabled knobs and targets, optimize_log targets, operation sequences mixing "
                "solve/step(with temporary enable_*/disable_* arguments)/reload/tag/enable/disable/clear_log, re-assignments of Target/Vary "
                "attributes between calls (tol, value, weight, active, limits, max_step), every other public entry point of Optimize "
                "(run_simplex, run_ls_*, run_bfgs, run_direct, views, status tables, deprecated enable/disable methods) interleaved, "
                "rarely used constructor forms, string selectors in every accepted form (single string, list, mixed with ids; exact tag / name, escaped, regular expressions) over tag and name sets with proper prefixes, common suffixes, regex metacharacters, case variants, empty and duplicate tags and indexed names k1..k12; a boundary layer over the generated cases: knobs in 2..3 containers with equal names "
                "in different containers, duck-typed transform hooks on targets (abs, square, scaling, lower / upper clip), target values as objects "
                "with _value, container.vary_default, max_step 0 / 0.0 / 1e-300 / inf / numpy scalars (alone or with every other max_step None or 0), "
                "tol 0, limits lo == hi and (0, 0), step 0, broyden=0, solve(n_steps=0), limits re-assigned so that iteration 0 / the current point "
                "lies outside them (both check_limits settings) followed by solve / step / reload, a limit placed exactly at / 1-3 ulps / 5e-13 / 1e-10 relative "
                "short of (or one ulp beyond) the point where the first unconstrained Jacobian step lands; profile " + pid +
                "; non-trivial = at least one Jacobian step and the mechanism of the property exercised (see feature_key); "
                "distinct by (function, start, ops, options)")
    proof_ok = vlib.standard_proof_part(ctx, f"props/{pid}.v", allowed_axioms=(), extra_targets=["run/RunOpt.vo"])
    fp = fingerprint()
    known_fp = json.load(open(FP_FILE)).get("fingerprint") if os.path.exists(FP_FILE) else None
    n = ctx.pick(n_quick, n_thorough)
    if known_fp != fp and ctx.quick:
        n *= 3      # the mirrored source changed since the model was last validated: look harder (never an alarm by itself)
    ctx.cov["source_fingerprint"] = {"current": fp, "validated": known_fp}
    corpus = load_corpus(pid)
    cases = resolve_landing(corpus + [gen_case(ctx.rng, pid) for _ in range(n)])
    results = run_cases(cases)
    mism, outside = model_check(ctx, cases, results, "c")
    ctx.evaluations += sum(len(r["steps"]) + 1 for r in results)
    ctx.traces += len(cases) - len(outside)
    for c, r in zip(cases, results):
        k = feature_key(c, r, pid)
        if k:
            ctx.nontrivial.add(k)
    dist = distribution(cases, results)
    obsn = {}
    for r in results:
        for k, v in r.get("observations", {}).items():
            obsn[k] = obsn.get(k, 0) + v
    dist["observations_outside_the_properties"] = obsn
    dist["outside_model"] = len(outside)
    dist["outside_model_reasons"] = {}
    for i in outside:
        st = results[i]["status"]
        if st in ("ok", "ragged"):
            st = "exception class outside the model's enum or non-deterministic table"
        dist["outside_model_reasons"][st] = dist["outside_model_reasons"].get(st, 0) + 1
    ctx.cov["input_distribution"] = dist
    ctx.cov["api_coverage"] = api_coverage(dist)
    ctx.cov["truthiness_tests_and_duck_typed_hooks"] = TRUTHINESS_AND_HOOKS
    if ctx.cov["api_coverage"]["unknown_new_methods"]:
        ctx.notes.append("public methods of Optimize neither modelled nor in the generator's foreign-call list: " +
                         ", ".join(ctx.cov["api_coverage"]["unknown_new_methods"]))
    okc = [i for i, r in enumerate(results) if r["status"] == "ok" and r["steps"]]
    ctx.samples = [{"case": cases[i], "outcomes": [s["out"] for s in results[i]["steps"]],
                    "final_knobs": results[i]["steps"][-1]["obs"]["knobs"], "log_rows": results[i]["steps"][-1]["obs"]["loglen"]}
                   for i in okc[:2]]
    # known findings: a failure carrying the exact signature of a registered finding whose witness
    # still fails is set aside (reported as KNOWN-FINDING); everything else is a violation
    active = set()
    for e in vlib.known_findings(pid):
        if e.get("kind") == "known" and e.get("witness") is not None:
            w = run_cases([e["witness"]], workers=1)[0]
            still = any(f.get("signature") == e["signature"] for f in w.get(pid, []))
            ctx.notes.append(f"known finding {e['signature']}: witness " + ("still fails" if still else "no longer fails"))
            if still:
                active.add(e["signature"])
                vlib.known(ctx, e["text"])
    set_aside = sum(1 for r in results for f in r.get(pid, []) if f.get("signature") in active)
    ctx.cov["failures_set_aside_as_known_findings"] = set_aside
    fails = [(i, f) for i, r in enumerate(results) for f in fails_of(r, pid) if f.get("signature") not in active]
    timeouts = [i for i, r in enumerate(results) if r["status"] == "timeout"]
    ctx.obligations.append(("correspondence: the model replays every recorded run (outcome, containers, flags, solver x, "
                            "masks, call counter, every log row) bit for bit", not mism, f"{len(mism)} mismatching of {len(cases) - len(outside)} traces"))
    ctx.obligations.append(("oracle on the implementation: " + WHAT[pid], not fails, f"{len(fails)} failures in {len(cases)} cases"))
    alien = [i for i in outside if results[i]["status"] in ("ok", "ragged")]
    ctx.obligations.append(("every exception raised by an operation belongs to the model's classes (ValueError, RuntimeError, "
                            "AssertionError, LinAlgError, the user's exception)", not alien, f"{len(alien)} runs raised another class"))
    ctx.notes.append(f"{len(timeouts)} cases hit the per-case time limit (non-terminating bisection with a non-finite penalty is outside the model)")
    # ---- decision ------------------------------------------------------------------------------
    if fails:
        i, f = fails[0]
        real = lambda rr: [x for x in fails_of(rr, pid) if x.get("signature") not in active]
        small = shrink_case(cases[i], pid, lambda rr: bool(real(rr)))
        r = run_cases([small], workers=1)[0]
        if not real(r):          # never store a replay that does not fail: fall back to the generated case
            small, r = cases[i], results[i]
        f = real(r)[0] if real(r) else f
        vlib.violation(ctx, {"kind": "oracle", "what": f["what"], "failures": (real(r) or [f])[:5], "case": small,
                             "outcomes": [s["out"] for s in r["steps"]], "n_failing_cases": len({k for k, _ in fails}),
                             "how_to_replay": f"./check {pid} --replay <this file>"})
    elif mism or alien or not proof_ok:
        what = list(getattr(ctx, "broken", []))
        if alien:
            k = alien[0]
            bad = [(op, s["out"]) for op, s in zip(cases[k]["ops"], results[k]["steps"]) if s["out"].startswith("other:")]
            what.append(f"{len(alien)} runs raised an exception class the model does not have; first: {json.dumps(bad[:1])}")
        if mism:
            j = mism[0]
            what.append(f"correspondence model/Opt.v vs xdeps.optimize broke on {len(mism)} traces; first: case {j}, "
                        f"first differing operation {first_diff(ctx, cases[j], results[j])}")
        extra = resolve_landing([gen_case(ctx.rng, pid) for _ in range(ctx.pick(1500, 4000))])
        rs = run_cases(extra)
        found = [(k, f) for k, r in enumerate(rs) for f in fails_of(r, pid)]
        if found:
            k, f = found[0]
            small = shrink_case(extra[k], pid)
            r = run_cases([small], workers=1)[0]
            if not fails_of(r, pid):
                small, r = extra[k], rs[k]
            vlib.violation(ctx, {"kind": "oracle", "what": f["what"], "failures": (r.get(pid) or [f])[:5], "case": small,
                                 "also_broken": what, "how_to_replay": f"./check {pid} --replay <this file>"})
        else:
            payload = {"kind": "proof-or-correspondence", "no_longer_checks": what,
                       "searched": f"{len(extra)} extra generated cases + {len(cases)} cases with the {pid} oracle: no failing input"}
            k = mism[0] if mism else (alien[0] if alien else None)
            if k is not None:
                payload["first_mismatching_case"] = cases[k]
                payload["implementation_outcomes"] = [s["out"] for s in results[k]["steps"]]
            vlib.violation(ctx, payload, no_input=True)


def replay_property(ctx, pid, data):
    case = data.get("case") or data.get("first_mismatching_case")
    if not case:
        print("replay file names a broken theorem/correspondence, no concrete input:", data.get("no_longer_checks"))
        return 1
    r = run_cases([case], workers=1)[0]
    fl = r.get(pid, [])
    print(json.dumps({"status": r["status"], "outcomes": [s["out"] for s in r["steps"]], pid: fl[:5]}, indent=1))
    if "case" not in data:
        mism, outside = model_check(ctx, [case], [r], "r")
        print("model vs implementation:", "differs at " + str(first_diff(ctx, case, r)) if mism else "agrees")
        return 1 if mism else 0
    if fl:
        print(f"VIOLATION property={pid} replay=(given) : {fl[0]['what']}")
        return 1
    print("replay: the oracle of " + pid + " finds no failure on this case")
    return 0
