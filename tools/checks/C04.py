"""C04 — deferred expressions evaluate to what Python computes on the operand values.

Proof part : coq/props/C04.v — table obligation C04_tables_ok against the tables
             regenerated from xdeps/refs.py (gen/GenRefs.v), the homomorphism
             value(build e) = pyeval e for every table that passes, every Python
             semantics and every expression depth, and the in-place theorem.
Tie        : tools/py2v/gen_refs.py (tables) + correspondence: for random trees
             the structure the overloads really build = model `build`, and their
             _get_value() under several container states = the model's integer
             instance (evaluated by vm_compute), on both builds.
Oracle     : the property itself in Python — every operator x operand order x
             {ref-ref, ref-lit, lit-ref} x value samples, builtins, calls, item /
             attribute access, in-place statements: deferred vs direct, by value
             and type (NaN for / // % by zero); plus direct evaluation of every
             random tree.
"""
import json, copy
import vlib
from checks import refs_shared as rs
from checks import refs_nested as rn
from checks import refs_attr as ra
from checks.refs_shared import gen_pexp, gen_state, pexp_depth, pexp_ops, cpexp, cterm, cstate, cxres, clit, Unrep

RUNNER = "refs_runner.py"


def variant_state(rng, st):
    """another state of the same containers (operands change); sometimes a key disappears"""
    new = gen_state(rng)
    if rng.random() < 0.1:
        c = new[0][1][1]
        del c[rng.randrange(5)]
    return new


def gen_tree_case(rng):
    depth = rng.choice([1, 2, 2, 3, 3, 4, 5, 6])
    p = gen_pexp(rng, depth)
    while p[0] in ("val",):
        p = gen_pexp(rng, depth)
    st0 = gen_state(rng)
    return {"pexp": p, "states": [st0, variant_state(rng, st0), variant_state(rng, st0)], "objattr": rs.OBJATTR}


def gen_inplace_case(rng, op):
    tgt = rng.choice([["item", rs.TOP["c"], ["val", rs.Sx(rng.choice("abcde"))]], ["attr", rs.TOP["o"], rng.choice("xy")],
                      ["item", ["item", rs.TOP["c"], ["val", rs.Sx("l")]], rs.val(1)]])
    cur = None
    if rng.random() < 0.5:
        cur = gen_pexp(rng, rng.choice([1, 2]), safe=True, const_keys=True)
        if cur[0] == "val":
            cur = ["un", "UPos", rs.leaf_ref(rng, True)]
    other = rs.val(rng.choice([0, 1, 2, 3, -2, 5])) if rng.random() < 0.5 else gen_pexp(rng, rng.choice([0, 1]), safe=True, const_keys=True)
    return {"op": op, "target": tgt, "cur": cur, "other": other, "state": gen_state(rng), "objattr": rs.OBJATTR}


def subtrees(p):
    k = p[0]
    if k == "item":
        return [p[1], p[2]]
    if k == "attr":
        return [p[1]]
    if k == "bin":
        return [p[2], p[3]]
    if k == "un":
        return [p[2]]
    if k == "builtin":
        return [p[2]] + list(p[3])
    if k == "call":
        return [p[1]] + list(p[2]) + [x for _, x in p[3]]
    return []


def tree_fails(case, ids, build="compiled"):
    classes, fns = ids
    r = vlib.run_impl(RUNNER, {"mode": "c04", "classes": classes, "fns": fns, "cases": [case]}, build=build)["results"][0]
    return any(o is not None for o in r.get("oracle", [])), r


def shrink_tree(case, ids, build):
    cur = case
    progress = True
    while progress:
        progress = False
        for s in subtrees(cur["pexp"]):
            if s[0] in ("val", "top"):
                continue
            cand = dict(cur, pexp=s)
            try:
                bad, _ = tree_fails(cand, ids, build)
            except vlib.InfraError:
                bad = False
            if bad:
                cur = cand; progress = True
                break
    return cur


def sweep(ctx, ids, scale, builds=("compiled", "pure")):
    """the Python-side oracle sweep, sliced over the cores; returns (n, kinds, fails)"""
    probe = vlib.run_impl(RUNNER, {"mode": "c04sweep", "seed": ctx.seed, "scale": scale, "slice": [0, 0]})
    total = probe["total"]
    step = max(1, (total + 7) // 8)
    payloads = [{"mode": "c04sweep", "seed": ctx.seed, "scale": scale, "slice": [lo, min(total, lo + step)]}
                for lo in range(0, total, step)]
    res = vlib.run_impl_many(RUNNER, payloads, [(b, 0) for b in builds], timeout=1800)
    fails, kinds, n = [], {}, 0
    for (i, b, s), r in sorted(res.items(), key=lambda kv: (kv[0][1], kv[0][0])):
        n += r["n"]
        if b == builds[0]:
            for k, v in r["kinds"].items():
                kinds[k] = kinds.get(k, 0) + v
        for f in r["fails"]:
            fails.append(dict(f, build=b))
    return n, kinds, fails


def run(ctx):
    ctx.rule = ("(a) correspondence: random expression trees of depth 1..6 over container-backed integers/bools (dict, list, nested dict, "
                "attribute objects, an ObjectAttrRef container, functions with positional/keyword arguments, constant and computed keys, "
                "literals on either side, zero divisors), each evaluated under 3 container states (operands changed, sometimes a key removed); "
                "compared: the structure built (model build over the regenerated tables) and every value/exception class (integer instance); "
                "(b) in-place dunders x {expression, plain value} x {literal, reference}: structure returned; "
                "(d) nested layouts: dict/list/tuple/str/numpy-array/object values at three levels, 1..8 definitions on members, on members of "
                "expression-defined containers and on roots; _expr/_tasks/_find_dependant_targets/_value of ~45 locations and _eval texts vs the "
                "model (expr_of, tasks_of, dependants, build); ~14 in-place statements per case on locations that own / are members of / are "
                "siblings of defined locations, judged by inplace_at (own definition else own value) and by the Python oracle, the last one "
                "really assigned and read back; "
                "(c) oracle sweep: every binary operator x {ref-ref, ref-lit, lit-ref} x value pairs from ints/floats/bools/complex/numpy "
                "scalars/arrays/raisers, unary ops, abs/round/round(x,n)/divmod/trunc/floor/ceil, calls, item/attr access, in-place statements, "
                "deferred vs direct by value and type; non-trivial = a tree of depth >= 2 whose value was really compared by the integer "
                "instance and differs between two states; distinct by (expression, states)")
    proof_ok = vlib.standard_proof_part(ctx, "props/C04.v", allowed_axioms=(), extra_targets=["run/RunRefs.vo"], translators=["refs"])
    classes, fns, iderr = rs.ids()
    ids = (classes, fns)
    if iderr:
        ctx.notes.append("translator could not read refs.py: " + iderr)

    # ---- (a) random trees -------------------------------------------------------------
    n = ctx.pick(400, 20000)
    cases = [gen_tree_case(ctx.rng) for _ in range(n)]
    parts = list(vlib.chunks(cases, max(1, (n + 15) // 16)))
    payloads = [{"mode": "c04", "classes": classes, "fns": fns, "cases": p} for p in parts]
    both = rs.run_both(payloads)
    res = {b: [r for part in both[b] for r in part["results"]] for b in both}
    unknown = sorted({u for b in both for part in both[b] for u in part["unknown"]})
    oracle_fail = []
    build_diff = []
    for i, c in enumerate(cases):
        for b in ("compiled", "pure"):
            r = res[b][i]
            if any(o is not None for o in r.get("oracle", [])) or "build_error" in r:
                oracle_fail.append((i, b))
        if res["compiled"][i].get("term") != res["pure"][i].get("term") or res["compiled"][i].get("values") != res["pure"][i].get("values"):
            build_diff.append(i)
    dist = {}
    depth_hist = {}
    for c in cases:
        pexp_ops(c["pexp"], dist)
        d = pexp_depth(c["pexp"])
        depth_hist[str(d)] = depth_hist.get(str(d), 0) + 1
    errs = {}
    for r in res["compiled"]:
        for v in r.get("values", []):
            key = v[1] if v[0] == "err" else v[0]
            errs[key] = errs.get(key, 0) + 1

    # model side
    items, idx = [], []
    unrep = []
    for i, c in enumerate(cases):
        r = res["compiled"][i]
        try:
            if r.get("term") is None:
                raise Unrep("not built")
            obs = vlib.clist([f"({cstate(st)}, {cxres(v)})" for st, v in zip(c["states"], r["values"])])
            items.append(f"({cpexp(c['pexp'])}, {cterm(r['term'])}, {obs})")
            idx.append(i)
        except Unrep:
            unrep.append(i)
    mism = []
    compared = 0
    coq_ok = iderr is None
    if coq_ok:
        try:
            mm, compared = rs.eval_chunks(ctx, items, "c04case", "c04_mismatches", "t", per=60, extra="c04_compared")
            mism = [idx[k] for k in mm] + unrep
        except vlib.InfraError as e:
            if proof_ok:
                raise
            coq_ok = False
            ctx.notes.append("case files not evaluated (development does not build): " + str(e)[:300])
    ctx.evaluations += sum(len(c["states"]) for c in cases) * 2
    ctx.traces += len(cases) * 2
    for i, c in enumerate(cases):
        vals = res["compiled"][i].get("values", [])
        if pexp_depth(c["pexp"]) >= 2 and len({json.dumps(v) for v in vals}) > 1 and i not in mism:
            ctx.nontrivial.add(json.dumps(c["pexp"]))

    # ---- (b) in-place structure ----------------------------------------------------------
    icases = [gen_inplace_case(ctx.rng, op) for op in rs.INPLACE for _ in range(ctx.pick(6, 120))]
    ib = rs.run_both([{"mode": "c04inplace", "classes": classes, "fns": fns, "cases": icases}])
    ires = {b: ib[b][0]["results"] for b in ib}
    iitems, iidx, imism = [], [], []
    for i, c in enumerate(icases):
        r = ires["compiled"][i]
        if rs.has_error(ires, i):
            continue
        if r != ires["pure"][i]:
            build_diff.append(("inplace", i))
        if "setup_error" in r:
            continue
        try:
            cur = "None" if r["cur_term"] is None else f"(Some {cterm(r['cur_term'])})"
            ret = f"(OExpr {cterm(r['returned'][1])})" if r["returned"][0] == "expr" else f"(OVal {cxres(r['returned'][1])})"
            iitems.append(f"({c['op']}, {cterm(r['target_term'])}, {cur}, {clit(r['old'])}, {cterm(r['other_term'])}, {ret})")
            iidx.append(i)
        except Unrep:
            pass       # old value is NaN/float (target defined by a division): not a literal of the model
    if coq_ok and iitems:
        try:
            mm, _ = rs.eval_chunks(ctx, iitems, "c04icase", "c04i_mismatches", "i", per=200)
            imism = [iidx[k] for k in mm]
        except vlib.InfraError as e:
            if proof_ok:
                raise
            coq_ok = False
    ctx.evaluations += 2 * len(icases)

    # ---- (d) nested layouts: manager-consulting properties and in-place at every level ---------
    ncases = [rn.gen_case(ctx.rng) for _ in range(ctx.pick(160, 4000))]
    nres, noracle, ndiff, nitems, nidx, eitems, nprobes, nstmts = rn.run_stream(ctx, ids, ncases, "n")
    nmism, emism = [], []
    if coq_ok:
        try:
            mm, _ = rs.eval_chunks(ctx, nitems, "c04ncase", "c04n_mismatches", "n", per=12)
            nmism = [nidx[k] for k in mm]
            mm, _ = rs.eval_chunks(ctx, eitems, "c04case", "c04_mismatches", "e", per=200)
            emism = mm
        except vlib.InfraError as e:
            if proof_ok:
                raise
            coq_ok = False
    cerrs = rs.case_errors(res) + rs.case_errors(ires) + rs.case_errors(nres)
    rel_hist = {}
    for c, r in zip(ncases, nres["compiled"]):
        if "setup_error" in r or "case_error" in r:
            continue
        for st, sr in zip(c["stmts"], r["stmts"]):
            if "returned" in sr:
                key = rn.relation_of(c, st) + "/" + st["kind"]
                rel_hist[key] = rel_hist.get(key, 0) + 1
                ctx.nontrivial.add("nested:" + key + "/" + st["op"])
    ctx.evaluations += 2 * (nprobes + nstmts + len(eitems))
    ctx.traces += 2 * len(ncases)

    # ---- (e) attribute access on values and on expression results, methods through attributes ----
    acases = [c for c in (ra.gen_case(ctx.rng) for _ in range(ctx.pick(260, 6000))) if c is not None]
    astats, anames = {}, set()
    for c in acases:
        st = c.pop("stats")
        anames |= st.pop("names", set())
        for k, v in st.items():
            astats[k] = astats.get(k, 0) + v
    aparts = list(vlib.chunks(acases, max(1, (len(acases) + 15) // 16)))
    aboth = rs.run_both([{"mode": "c04", "classes": classes, "fns": fns, "cases": p} for p in aparts])
    ares = {b: [r for part in aboth[b] for r in part["results"]] for b in aboth}
    cerrs += rs.case_errors(ares)
    aoracle, aitems, aidx, amism = [], [], [], []
    for i, c in enumerate(acases):
        if rs.has_error(ares, i):
            continue
        for b in ("compiled", "pure"):
            r = ares[b][i]
            if any(o is not None for o in r.get("oracle", [])) or "build_error" in r:
                aoracle.append((i, b))
        if ares["compiled"][i].get("term") != ares["pure"][i].get("term"):
            build_diff.append(("attr", i))
        try:
            if ares["compiled"][i].get("term") is not None:
                aitems.append(f"({cpexp(c['pexp'])}, {cterm(ares['compiled'][i]['term'])}, [])"); aidx.append(i)
        except Unrep:
            pass
    if coq_ok and aitems:
        try:
            mm, _ = rs.eval_chunks(ctx, aitems, "c04case", "c04_mismatches", "a", per=200)
            amism = [aidx[k] for k in mm]
        except vlib.InfraError as e:
            if proof_ok:
                raise
            coq_ok = False
    for n in anames:
        ctx.nontrivial.add("attrname:" + n)
    ctx.evaluations += 4 * len(acases)
    ctx.traces += 2 * len(acases)

    # ---- (c) the oracle sweep ---------------------------------------------------------------
    nsweep, kinds, sfails = sweep(ctx, ids, ctx.pick(0.35, 1.0))
    ctx.evaluations += nsweep
    for k in kinds:
        ctx.nontrivial.add("sweep:" + k)

    ctx.cov["input_distribution"] = {"trees": len(cases), "depth_hist": depth_hist, "node_kinds": dist,
                                     "results_observed": errs, "states_compared_by_integer_instance": compared,
                                     "states_total": sum(len(c["states"]) for c in cases),
                                     "inplace_cases": len(icases), "inplace_compared": len(iitems),
                                     "sweep_cases_per_build": nsweep // 2, "sweep_kinds": kinds,
                                     "attribute_cases": len(acases), "attribute_node_kinds": astats, "attribute_names_used": len(anames),
                                     "attribute_names_sample": sorted(anames)[:60],
                                     "nested_cases": len(ncases), "nested_setup_errors": sum(1 for r in nres["compiled"] if "setup_error" in r),
                                     "nested_probes_compared": nprobes, "nested_inplace_statements_compared": nstmts,
                                     "nested_eval_texts": len(eitems), "nested_statement_relation_x_value_kind": rel_hist}
    ctx.samples = [{"pexp": cases[0]["pexp"], "built": res["compiled"][0].get("term"), "values": res["compiled"][0].get("values")},
                   {"inplace": icases[0], "observed": ires["compiled"][0]}]
    ctx.obligations.append(("correspondence: structure built and values = model (build over GenRefs.v, integer instance), both builds",
                            coq_ok and not mism and not build_diff, f"{len(mism)} mismatching trees, {len(build_diff)} differing between builds, {compared} states compared"))
    ctx.obligations.append(("correspondence: what the in-place dunders return = model inplace", coq_ok and not imism, f"{len(imism)} mismatching of {len(iitems)}"))
    ctx.obligations.append(("correspondence (nested layouts): _expr/_tasks/_find_dependant_targets = model, in-place results = inplace_at, _eval = build; both builds agree",
                            coq_ok and not nmism and not emism and not ndiff, f"{len(nmism)} mismatching cases of {len(nitems)}, {len(emism)} _eval texts, {len(ndiff)} differing between builds"))
    ctx.obligations.append(("oracle (nested layouts): in-place result built from the location's own definition else its own value; _expr = task registered under the reference; _value = container content (both builds)",
                            not noracle, f"{len(noracle)} failing of {len(ncases)}"))
    ctx.obligations.append(("attribute access / methods through attributes on values and expression results (names found by introspection): "
                            "structure built = model build, deferred value = Python's getattr/call on the current values (both builds)",
                            coq_ok and not amism and not aoracle, f"{len(aoracle)} oracle failures, {len(amism)} structure mismatches, of {len(acases)} cases, {len(anames)} names"))
    ctx.obligations.append(("oracle: deferred value = direct Python evaluation on every random tree and state (both builds)", not oracle_fail, f"{len(oracle_fail)} failing"))
    ctx.obligations.append(("oracle sweep: operator x operand order x value samples, builtins, calls, access, in-place (both builds)", not sfails, f"{len(sfails)} failing of {nsweep}"))
    ctx.obligations.append(("every class met is known to the translator", not unknown, ", ".join(unknown)))
    ctx.obligations.append(("no case ended by an exception of the library outside the evaluations the model predicts", not cerrs,
                            "" if not cerrs else f"{len(cerrs)} cases, first: {cerrs[0][2]}"))

    # ---- decision -------------------------------------------------------------------------------
    if sfails:
        f = sfails[0]
        vlib.violation(ctx, {"kind": "sweep", "what": "deferred evaluation differs from direct Python evaluation",
                             "case": f["case"], "why": f["why"], "build": f["build"], "other_failures": len(sfails),
                             "more": [x["case"] for x in sfails[1:6]], "how_to_replay": "./check C04 --replay <this file>"})
    elif noracle:
        i, b = noracle[0]
        small = rn.shrink(ncases[i], ids, b)
        bad, r = rn.case_fails(small, ids, b)
        vlib.violation(ctx, {"kind": "nested", "what": "in-place operator / derived property of a location not determined by the location's own definition and value",
                             "build": b, "case": small, "problems": r.get("oracle"), "how_to_replay": "./check C04 --replay <this file>"})
    elif aoracle:
        i, b = aoracle[0]
        small = shrink_tree(acases[i], ids, b)
        bad, r = tree_fails(small, ids, b)
        vlib.violation(ctx, {"kind": "tree", "what": "attribute access / method call on a value or expression result: deferred differs from direct Python evaluation",
                             "build": b, "case": small, "observed": r, "how_to_replay": "./check C04 --replay <this file>"})
    elif oracle_fail:
        i, b = oracle_fail[0]
        small = shrink_tree(cases[i], ids, b)
        bad, r = tree_fails(small, ids, b)
        vlib.violation(ctx, {"kind": "tree", "what": "deferred evaluation differs from direct Python evaluation", "build": b,
                             "case": small, "observed": r, "how_to_replay": "./check C04 --replay <this file>"})
    elif mism or imism or nmism or emism or amism or ndiff or build_diff or unknown or cerrs or not proof_ok or not coq_ok:
        what = list(getattr(ctx, "broken", []))
        rs.describe_errors(cerrs, what)
        if mism:
            i = mism[0]
            what.append(f"correspondence model vs implementation broke on {len(mism)} trees, first: {json.dumps(cases[i]['pexp'])} built={json.dumps(res['compiled'][i].get('term'))} values={json.dumps(res['compiled'][i].get('values'))}")
        if imism:
            what.append(f"in-place correspondence broke on {len(imism)} cases, first: {json.dumps(icases[imism[0]])} observed={json.dumps(ires['compiled'][imism[0]])}")
        if build_diff:
            what.append(f"compiled and pure builds differ on {len(build_diff)} cases, first index {build_diff[0]}")
        if nmism:
            i = nmism[0]
            what.append(f"nested-layout correspondence broke on {len(nmism)} cases, first: defs={json.dumps(ncases[i]['defs'])} observed={json.dumps(nres['compiled'][i])[:1500]}")
        if emism:
            what.append(f"_eval correspondence broke on {len(emism)} texts")
        if amism:
            what.append(f"attribute-stream structure correspondence broke on {len(amism)} cases, first: {json.dumps(acases[amism[0]]['pexp'])} built={json.dumps(ares['compiled'][amism[0]].get('term'))}")
        if ndiff:
            what.append(f"compiled and pure builds differ on {len(ndiff)} nested cases, first: {json.dumps(ncases[ndiff[0]]['defs'])}")
        if unknown:
            what.append("classes/functions unknown to the translator: " + ", ".join(unknown))
        # search harder: the full sweep and more trees with the direct-evaluation oracle
        n2, kinds2, sf2 = sweep(ctx, ids, 1.0)
        extra = [gen_tree_case(ctx.rng) for _ in range(3000)]
        found = None
        nfound = None
        if nmism or emism or ndiff or cerrs:
            nextra = [rn.gen_case(ctx.rng) for _ in range(1500)]
            _, no2, _, _, _, _, _, _ = rn.run_stream(ctx, ids, nextra, "n2")
            if no2:
                nfound = (nextra[no2[0][0]], no2[0][1])
        if not sf2:
            parts = list(vlib.chunks(extra, 200))
            both2 = rs.run_both([{"mode": "c04", "classes": classes, "fns": fns, "cases": p} for p in parts])
            for b in ("compiled", "pure"):
                k = 0
                for part in both2[b]:
                    for r in part["results"]:
                        if found is None and any(o is not None for o in r.get("oracle", [])):
                            found = (extra[k], b)
                        k += 1
        if nfound:
            small = rn.shrink(nfound[0], ids, nfound[1])
            bad, r = rn.case_fails(small, ids, nfound[1])
            vlib.violation(ctx, {"kind": "nested", "build": nfound[1], "case": small, "problems": r.get("oracle"), "also_broken": what})
        elif sf2:
            f = sf2[0]
            vlib.violation(ctx, {"kind": "sweep", "what": "deferred evaluation differs from direct Python evaluation",
                                 "case": f["case"], "why": f["why"], "build": f["build"], "also_broken": what})
        elif found:
            small = shrink_tree(found[0], ids, found[1])
            bad, r = tree_fails(small, ids, found[1])
            vlib.violation(ctx, {"kind": "tree", "build": found[1], "case": small, "observed": r, "also_broken": what})
        else:
            vlib.violation(ctx, {"kind": "proof-or-correspondence", "no_longer_checks": what,
                                 "searched": f"full sweep ({n2} evaluations) and {len(extra)} extra trees on both builds with the direct-evaluation oracle: no failing input"},
                           no_input=True)


def replay(ctx, data):
    classes, fns, _ = rs.ids()
    case = data.get("case")
    if not case:
        print("replay file names a broken theorem/correspondence, no concrete input:", json.dumps(data.get("no_longer_checks"), indent=1))
        return 1
    rc = 0
    for b in ("compiled", "pure"):
        if data.get("kind") == "sweep":
            r = vlib.run_impl(RUNNER, {"mode": "c04case", "case": case}, build=b)
            print(b, json.dumps(r["why"]))
            bad = r["why"] is not None
        elif data.get("kind") == "nested":
            bad, r = rn.case_fails(case, (classes, fns), b)
            print(b, json.dumps(r.get("oracle")))
        else:
            bad, r = tree_fails(case, (classes, fns), b)
            print(b, json.dumps(r))
        if bad:
            print(f"VIOLATION property=C04 replay=(given) build={b}: deferred evaluation differs from direct Python evaluation")
            rc = 1
    if rc == 0:
        print("replay: the implementation agrees with direct Python evaluation on this case")
    return rc
