"""C04: attribute access on values and on expression results, and method calls
through attributes.  The attribute names are found by introspection of the
values the states really hold (dir(value): public, non-callable or callable
without arguments), at generation time, so the pool stays current with the
Python / numpy in use; protocol names __x__ are left out (xdeps.refs.
special_methods refuses those by design).  All randomness from the caller's rng."""
import copy
import numpy as np
from checks import refs_shared as rs
from checks.refs_shared import I, Sx, val

OBJATTR = ["g"]


class Obj:
    def __init__(self, **kw):
        self.__dict__.update(kw)

    def __eq__(self, other):
        return isinstance(other, Obj) and self.__dict__ == other.__dict__

    def __repr__(self):
        return "Obj(%r)" % (self.__dict__,)


def F2(*a, **k):
    return ("F2", a, tuple(sorted(k.items())))


def dec(v):
    t = v[0]
    if t == "i":
        return int(v[1])
    if t == "b":
        return bool(v[1])
    if t == "s":
        return v[1]
    if t == "none":
        return None
    if t == "f":
        return float.fromhex(v[1])
    if t == "c":
        return complex(float.fromhex(v[1]), float.fromhex(v[2]))
    if t == "t":
        return tuple(dec(x) for x in v[1])
    if t == "l":
        return [dec(x) for x in v[1]]
    if t == "d":
        return {dec(k): dec(x) for k, x in v[1]}
    if t == "o":
        return Obj(**{k: dec(x) for k, x in v[1]})
    if t == "fn":
        return F2
    if t == "np":
        return np.dtype(v[1]).type(dec(v[2]))
    if t == "arr":
        return np.array([dec(x) for x in v[3]], dtype=v[1]).reshape(v[2])
    raise ValueError(v)


def F(x):
    return ["f", float(x).hex()]


def arr(vals, dtype, shape=None):
    flat = [F(v) if dtype.startswith("float") else I(v) for v in vals]
    return ["arr", dtype, shape or [len(vals)], flat]


def gen_state(rng):
    iv = lambda: rng.choice([1, 2, 3, 4, 5, 7, 9, -2, -6, 12])
    fv = lambda: rng.choice([0.5, 1.5, -2.25, 3.0, 7.75, -0.5])
    shuffled = lambda n: rng.sample([iv() + k for k in range(n)], n)
    c = [[Sx("arr"), arr([fv(), fv(), fv()], "float64")], [Sx("iarr"), arr(shuffled(4), "int64")],
         [Sx("m2"), arr([iv(), iv(), iv(), iv()], "int64", [2, 2])],
         [Sx("x"), ["np", "float64", F(fv())]], [Sx("n64"), ["np", "int64", I(iv())]], [Sx("n32"), ["np", "int32", I(iv())]],
         [Sx("cx"), ["c", float(fv()).hex(), float(fv()).hex()]], [Sx("fl"), F(fv())], [Sx("i"), I(iv())], [Sx("b"), ["b", rng.random() < 0.5]],
         [Sx("s"), Sx(rng.choice(["ab", "Xy z", "q"]))], [Sx("tp"), ["t", [I(iv()), I(iv())]]], [Sx("lst"), ["l", [I(v) for v in shuffled(3)]]],
         [Sx("oo"), ["o", [["dtype", I(iv())], ["shape", ["t", [I(2)]]], ["val", F(fv())], ["a", arr([iv(), iv()], "int64")]]]],
         [Sx("f"), ["fn", 2]]]
    o = [["x", I(iv())], ["y", F(fv())], ["arr", arr([fv(), fv()], "float64")], ["name", Sx("nm")], ["real", I(iv())]]
    g = [[Sx("dtype"), I(iv())], [Sx("shape"), I(iv())], [Sx("real"), F(fv())], [Sx("T"), I(iv())], [Sx("u"), arr([iv(), iv()], "int64")],
         [Sx("size"), ["np", "float64", F(fv())]]]
    return [["c", ["d", c]], ["o", ["o", o]], ["g", ["d", g]]]


TOP = {"c": ["top", "c", False], "o": ["top", "o", False], "g": ["top", "g", True]}


def leaves(states):
    """(pexp, [value per state]) of every location of the containers"""
    out = []
    decoded = [{k: dec(v) for k, v in st} for st in states]
    for k, _ in states[0][0][1][1]:
        key = k[1]
        out.append((["item", TOP["c"], ["val", Sx(key)]], [d["c"][key] for d in decoded]))
    for name, _ in states[0][1][1][1]:
        out.append((["attr", TOP["o"], name], [getattr(d["o"], name) for d in decoded]))
    for k, _ in states[0][2][1][1]:
        key = k[1]
        out.append((["attr", TOP["g"], key], [d["g"][key] for d in decoded]))          # attribute syntax = item access
    oo = [d["c"]["oo"] for d in decoded]
    for name in ("dtype", "shape", "val", "a"):
        out.append((["attr", ["item", TOP["c"], ["val", Sx("oo")]], name], [getattr(x, name) for x in oo]))
    return out


def stable(a, b):
    try:
        ra, rb = repr(a), repr(b)
    except Exception:
        return False
    return type(a) is type(b) and ra == rb and " at 0x" not in ra and len(ra) < 2000


_POOL_CACHE = {}


def pool(values, refused=()):
    key = repr([(type(v).__name__, repr(v)) for v in values])
    if key not in _POOL_CACHE:
        import warnings
        with warnings.catch_warnings():
            warnings.simplefilter("ignore")
            with np.errstate(all="ignore"):
                _POOL_CACHE[key] = _pool(values, refused)
    return _POOL_CACHE[key]


def _pool(values, refused=()):
    """attribute names usable on ALL the given values: ('attr', name) for a
    non-callable attribute, ('call', name) for a method that takes no argument,
    does not change the value it is called on, and gives a reproducible result"""
    names = None
    for v in values:
        here = {}
        for name in dir(v):
            if name.startswith("_") or name in refused:
                continue
            try:
                v1, v2 = copy.deepcopy(v), copy.deepcopy(v)
                a1, a2 = getattr(v1, name), getattr(v2, name)
                if callable(a1):
                    r1, r2 = a1(), a2()
                    if not stable(v1, v):
                        continue                       # the method changes its object (sort, pop, clear ...)
                    if stable(r1, r2):
                        here[name] = "call"
                elif stable(a1, a2):
                    here[name] = "attr"
            except Exception:
                continue
        names = here if names is None else {n: k for n, k in names.items() if here.get(n) == k}
    return sorted((k, n) for n, k in (names or {}).items())


def apply(kind, name, v):
    a = getattr(v, name)
    return a() if kind == "call" else a


def node(kind, name, e):
    return ["call", ["attr", e, name], [], []] if kind == "call" else ["attr", e, name]


def numeric(v):
    return isinstance(v, (int, float, complex, np.generic, np.ndarray)) and not isinstance(v, (str, bytes))


def gen_case(rng, refused=()):
    states = [gen_state(rng), gen_state(rng)]
    lv = leaves(states)
    stats = {}

    def operand():
        """a location, or an expression over locations, with its values"""
        p, vs = rng.choice(lv)
        k = rng.random()
        if k < 0.55 or not all(numeric(v) for v in vs):
            return p, vs, "ref"
        try:
            if k < 0.7:
                return ["un", "UNeg", p], [-v for v in vs], "expr"
            if k < 0.85:
                c = rng.choice([2, 3])
                return ["bin", "OMul", p, val(c)], [v * c for v in vs], "expr"
            q, ws = rng.choice([x for x in lv if all(numeric(v) for v in x[1])])
            return ["bin", "OAdd", p, q], [v + w for v, w in zip(vs, ws)], "expr"
        except Exception:
            return p, vs, "ref"

    for _ in range(20):
        e, vs, kind = operand()
        depth = 0
        ok = False
        while depth < 3:
            pl = pool(vs, refused)
            if not pl:
                break
            k, name = rng.choice(pl)
            try:
                nvs = [apply(k, name, copy.deepcopy(v)) for v in vs]
            except Exception:
                break
            e, vs = node(k, name, e), nvs
            stats[f"{kind}.{'method' if k == 'call' else 'attribute'}"] = stats.get(f"{kind}.{'method' if k == 'call' else 'attribute'}", 0) + 1
            stats.setdefault("names", set()).add(name)
            ok = True
            depth += 1
            if rng.random() < 0.6:
                break
        if ok:
            break
    else:
        return None
    # where the attribute node stands: alone, inside arithmetic, as a positional / keyword argument
    k = rng.random()
    f2 = ["item", TOP["c"], ["val", Sx("f")]]
    if k < 0.35:
        p = e
    elif k < 0.55 and all(numeric(v) for v in vs):
        p = ["bin", rng.choice(["OAdd", "OMul", "OSub"]), e, val(rng.choice([1, 2]))] if rng.random() < 0.5 else \
            ["bin", rng.choice(["OAdd", "OMul"]), val(2), e]
    elif k < 0.8:
        kwname = rng.choice(["dtype", "shape", "k", "axis"])
        p = ["call", f2, [rng.choice(lv)[0]], [[kwname, e]]]
    else:
        p = ["call", f2, [e, rng.choice(lv)[0]], []]
    return {"pexp": p, "states": states, "objattr": OBJATTR, "stats": stats}
