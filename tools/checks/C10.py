"""C10 — see properties.jsonl.  Proof part: coq/props/C10.v (model coq/model/Opt.v,
proofs coq/proofs/Opt*.v).  Tie: trace validation (tools/impl/opt_runner.py
records every oracle interaction of real Optimize runs; coq/run/RunOpt.v
replays them with PrimFloat, bit-exact) + the property oracle evaluated on the
real implementation for every generated case (tools/optlib.py)."""
import optlib


def run(ctx):
    optlib.run_property(ctx, "C10", 1500, 20000)


def replay(ctx, data):
    return optlib.replay_property(ctx, "C10", data)
