"""C05 — reported dependencies contain every location an expression reads.

Proof part : coq/props/C05.v — table obligation C05_fields_ok against the
             regenerated tables (every node class: all slots descended, self added
             exactly for item/attribute refs, a set on every path), C05_exact
             (deps = occurrences, arbitrary depth), C05_sound (non-interference).
Tie        : gen_refs.py + correspondence: model `deps` vs _get_dependencies() on
             random directly-constructed expressions of EVERY node class found by
             introspection, every slot filled with a reference directly and nested.
Oracle     : (1) the reported set is exactly the item/attribute references found
             by an independent walk of the operand slots, and it is a set;
             (2) perturbation: the expression is assigned to a target, every
             integer location of the containers is changed through its reference
             (set_value); the target must follow its expression, and a location
             whose change moves the value must be reported.
"""
import json
import vlib
from checks import refs_shared as rs
from checks import refs_nested as rn
from checks.refs_shared import gen_pexp, gen_state, cterm, Unrep

RUNNER = "refs_runner.py"
NO_REF_SLOTS = {"Ref._owner", "Ref._key", "ObjectAttrRef._owner", "ObjectAttrRef._key", "LiteralExpr._arg"}


def concrete(info):
    return sorted(n for n in info["subclasses"] if n not in rs.ABSTRACT)


class TermGen:
    def __init__(self, rng, classes, info):
        self.rng = rng
        self.classes = classes
        subs = info["subclasses"]
        self.bin = [classes[n] for n in concrete(info) if "BinOpExpr" in subs[n] and n in classes]
        self.un = [classes[n] for n in concrete(info) if "UnaryOpExpr" in subs[n] and n in classes]

    def lit(self):
        r = self.rng
        return r.choice([rs.I(r.choice([0, 1, 2, -3, 7])), rs.Sx(r.choice("abcxy")), ["b", True], ["none"],
                         ["t", [rs.I(1), rs.Sx("a")]]])

    def const(self):
        return ["const", self.lit()]

    def top(self):
        return self.rng.choice([["top", "c", False], ["top", "c", False], ["top", "o", False], ["top", "g", True]])

    def anyop(self, d):
        return self.ref(d) if self.rng.random() < 0.7 else self.const()

    def ref(self, d, wf=True):
        r = self.rng
        if d <= 0:
            k = r.random()
            if k < 0.15:
                return self.top()
            if k < 0.25:
                return ["literal", self.lit()]
            return [r.choice(["item", "attr"]), self.top(), ["const", rs.Sx(r.choice("abcxy"))]]
        kind = r.choice(["item", "item", "attr", "bin", "bin", "bin", "un", "builtin", "builtin", "call", "call", "literal", "top"])
        bad = (not wf) and r.random() < 0.3
        if kind == "top":
            return self.top()
        if kind == "literal":
            return ["literal", self.lit()]
        if kind in ("item", "attr"):
            owner = self.const() if bad else self.ref(d - 1, wf)
            return [kind, owner, self.anyop(d - 1)]
        if kind == "bin":
            return ["bin", r.choice(self.bin), self.anyop(d - 1), self.anyop(d - 1)]
        if kind == "un":
            return ["un", r.choice(self.un), self.const() if bad else self.ref(d - 1, wf)]
        if kind == "builtin":
            return ["builtin", r.randrange(6), self.const() if bad else self.ref(d - 1, wf),
                    [self.anyop(d - 1) for _ in range(r.choice([0, 0, 1, 1, 2]))]]
        return ["call", self.anyop(d - 1), [self.anyop(d - 1) for _ in range(r.choice([0, 1, 2, 3]))],
                [[n, self.anyop(d - 1)] for n in r.sample(["k", "m", "w"], r.choice([0, 1, 2]))]]


def wellformed(t):
    k = t[0]
    if k in ("const", "top", "literal"):
        return True
    if k in ("item", "attr"):
        return t[1][0] != "const" and wellformed(t[1]) and wellformed(t[2])
    if k == "bin":
        return wellformed(t[2]) and wellformed(t[3])
    if k == "un":
        return t[2][0] != "const" and wellformed(t[2])
    if k == "builtin":
        return t[2][0] != "const" and wellformed(t[2]) and all(wellformed(x) for x in t[3])
    if k == "call":
        return wellformed(t[1]) and all(wellformed(x) for x in t[2]) and all(wellformed(x) for _, x in t[3])
    return False


def subterms(t):
    k = t[0]
    if k in ("item", "attr"):
        return [t[1], t[2]]
    if k == "bin":
        return [t[2], t[3]]
    if k == "un":
        return [t[2]]
    if k == "builtin":
        return [t[2]] + list(t[3])
    if k == "call":
        return [t[1]] + list(t[2]) + [x for _, x in t[3]]
    return []


def case_fails(case, ids, build):
    classes, fns = ids
    r = vlib.run_impl(RUNNER, {"mode": "c05", "classes": classes, "fns": fns, "cases": [case]}, build=build)["results"][0]
    return r.get("oracle") is not None, r


def shrink(case, ids, build):
    cur = case
    progress = True
    while progress and "term" in cur:
        progress = False
        for s in subterms(cur["term"]):
            if s[0] in ("const", "top", "literal"):
                continue
            cand = dict(cur, term=s)
            try:
                bad, _ = case_fails(cand, ids, build)
            except vlib.InfraError:
                bad = False
            if bad:
                cur = cand; progress = True
                break
    return cur


def gen_cases(ctx, tg, n, nperturb):
    cases = []
    for _ in range(n):
        wf = ctx.rng.random() < 0.9
        t = tg.ref(ctx.rng.choice([0, 1, 1, 2, 2, 3, 4]), wf)
        cases.append({"term": t, "state": gen_state(ctx.rng), "objattr": rs.OBJATTR, "wellformed": wellformed(t)})
    for _ in range(nperturb):
        p = gen_pexp(ctx.rng, ctx.rng.choice([1, 2, 3, 4]), safe=True, const_keys=True)
        if p[0] == "val":
            continue
        cases.append({"pexp": p, "state": gen_state(ctx.rng), "objattr": rs.OBJATTR, "perturb": True, "out": ["c", "out"]})
    return cases


# ---- different locations whose printed forms coincide -----------------------------------
O = ["top", "o", False]
OY = ["top", "o.y", False]            # a second container LABELLED 'o.y': prints like the attribute o.y


def _at(owner, name):
    return ["attr", owner, ["const", rs.Sx(name)]]


def _it(owner, k):
    return ["item", owner, ["const", k]]


# (location A, location B, both evaluable in the standard state)
TWINS = [
    (_at(_at(O, "p"), "x"), _at(O, "p.x"), True),                     # o.p.x          vs getattr(o, 'p.x')
    (_at(_at(O, "p"), "q"), _at(O, "p.q"), True),                     # o.p.q          vs getattr(o, 'p.q')
    (_it(_at(_at(O, "p"), "q"), rs.I(0)), _at(O, "p.q[0]"), True),    # o.p.q[0]       vs getattr(o, 'p.q[0]')
    (_it(_at(O, "y"), rs.Sx("k")), _it(OY, rs.Sx("k")), False),       # (o.y)['k']     vs <container 'o.y'>['k']
    (_at(_at(O, "y"), "z"), _at(OY, "z"), False),                     # (o.y).z        vs <container 'o.y'>.z
    (_at(_at(_at(O, "p"), "x"), "r"), _at(_at(O, "p.x"), "r"), False),  # the collision one level up the owner chain
]


def twin_term(rng, tg, a, b):
    """an expression that reads both locations, directly or nested below other nodes"""
    if rng.random() < 0.5:
        a, b = b, a
    wrap = lambda t: rng.choice([t, t, ["un", rng.choice(tg.un), t], ["builtin", rng.randrange(6), t, []],
                                 ["bin", rng.choice(tg.bin), t, tg.const()], ["bin", rng.choice(tg.bin), tg.anyop(1), t]])
    k = rng.random()
    if k < 0.45:
        t = ["bin", rng.choice(tg.bin), wrap(a), wrap(b)]
    elif k < 0.6:
        t = ["call", tg.anyop(0), [wrap(a)], [["k", wrap(b)]]]
    elif k < 0.75:
        t = ["builtin", rng.randrange(6), wrap(a), [wrap(b)]]
    elif k < 0.9:
        t = ["item", wrap(a), wrap(b)]                                   # one as owner, the other inside a computed key
    else:
        t = ["bin", rng.choice(tg.bin), ["bin", rng.choice(tg.bin), a, tg.anyop(1)], ["call", b, [a], []]]
    return t if rng.random() < 0.6 else ["bin", rng.choice(tg.bin), tg.anyop(2), t]


def twin_state(rng):
    st = gen_state(rng)
    st.append(["o.y", ["d", [[rs.Sx("k"), rs.I(rng.choice([1, 4, 7]))]]]])
    return st


def term_to_pexp(t):
    k = t[0]
    if k == "top":
        return t
    if k == "attr":
        return ["attr", term_to_pexp(t[1]), t[2][1][1]]
    if k == "item":
        return ["item", term_to_pexp(t[1]), ["val", t[2][1]]]
    raise ValueError(t)


def gen_twin_cases(ctx, tg, n):
    cases = []
    for j in range(n):
        a, b, evaluable = TWINS[j % len(TWINS)]
        if evaluable and ctx.rng.random() < 0.4:
            # operator-built, evaluable: also the perturbation oracle (changing either location moves the value)
            pa, pb = term_to_pexp(a), term_to_pexp(b)
            if ctx.rng.random() < 0.5:
                pa, pb = pb, pa
            p = ctx.rng.choice([["bin", "OAdd", pa, pb], ["bin", "OSub", ["builtin", "FAbs", pa, []], ["un", "UNeg", pb]],
                                ["bin", "OMul", ["bin", "OAdd", pa, rs.val(1)], ["bin", "OAdd", rs.val(2), pb]]])
            if j % len(TWINS) == 1:      # o.p.q is a list: only its length-free use
                p = ["bin", "OAdd", ["item", pa if pa[1][0] == "attr" else pb, rs.val(0)], pb if pa[1][0] == "attr" else pa]
            cases.append({"pexp": p, "state": twin_state(ctx.rng), "objattr": rs.OBJATTR, "perturb": True, "out": ["c", "out"], "twin": j % len(TWINS)})
        else:
            t = twin_term(ctx.rng, tg, a, b)
            cases.append({"term": t, "state": twin_state(ctx.rng), "objattr": rs.OBJATTR, "wellformed": wellformed(t), "twin": j % len(TWINS)})
    return cases


# ---- locations hanging off EXPRESSION owners that differ only by hash-equal operands ---------
def _f(x):
    return ["f", float(x).hex()]


M61 = 2 ** 61 - 1
HASH_EQ = [(rs.I(-1), rs.I(-2)), (rs.I(1), ["b", True]), (rs.I(0), ["b", False]), (rs.I(0), rs.I(M61)), (rs.I(3), rs.I(3 + M61)),
           (rs.I(-1), rs.I(-2 - M61)), (rs.I(1), _f(1.0)), (["b", True], _f(1.0)), (rs.I(0), _f(-0.0)), (_f(0.0), _f(-0.0)), (rs.I(2), _f(2.0))]


def _pyval(l):
    t = l[0]
    return int(l[1]) if t == "i" else bool(l[1]) if t == "b" else float.fromhex(l[1])


HASH_EQ = [(a, b) for a, b in HASH_EQ if hash(_pyval(a)) == hash(_pyval(b))]      # as this Python hashes them
C = ["top", "c", False]


def owner_expr(rng, tg, x, shape):
    """an expression node in which the literal x occurs once (as an operand or as a key below it)"""
    cx = ["const", x]
    la = _it(C, rs.Sx("a"))
    if shape == 0:
        return ["bin", tg.bin[0], _it(_it(C, rs.Sx("l")), x), ["const", rs.I(0)]]           # (c['l'][x] + 0)
    if shape == 1:
        return ["bin", rng.choice(tg.bin), la, cx]                                          # (c['a'] op x)
    if shape == 2:
        return ["bin", rng.choice(tg.bin), cx, la]                                          # (x op c['a'])
    if shape == 3:
        return ["un", rng.choice(tg.un), _it(_it(C, rs.Sx("l")), x)]                        # -(c['l'][x])
    if shape == 4:
        return ["builtin", 1, la, [cx]]                                                     # round(c['a'], x)
    if shape == 5:
        return ["call", _it(C, rs.Sx("f")), [cx], []]                                       # c['f'](x)
    if shape == 6:
        return ["call", _it(C, rs.Sx("f")), [la], [["k", cx]]]                              # c['f'](c['a'], k=x)
    return ["bin", rng.choice(tg.bin), ["un", rng.choice(tg.un), ["bin", rng.choice(tg.bin), la, cx]], _it(C, rs.Sx("b"))]   # deeper


def gen_hashpair_cases(ctx, tg, n):
    rng = ctx.rng
    cases = []
    for j in range(n):
        x, y = HASH_EQ[j % len(HASH_EQ)]
        shape = (j // len(HASH_EQ)) % 8
        st = rng.getstate()
        e1 = owner_expr(rng, tg, x, shape)
        rng.setstate(st)                       # the same random choices: the two owners differ in the literal only
        e2 = owner_expr(rng, tg, y, shape)
        k = rng.random()
        if k < 0.4:
            l1, l2 = _at(e1, "v"), _at(e2, "v")                           # attribute of an expression
        elif k < 0.7:
            key = rng.choice([rs.I(0), rs.Sx("v"), rs.I(-1)])
            l1, l2 = _it(e1, key), _it(e2, key)                           # item of an expression
        elif k < 0.85:
            l1, l2 = _at(_at(e1, "v"), "w"), _at(_at(e2, "v"), "w")       # one level further down
        else:
            base = _it(C, rs.Sx("l"))
            l1, l2 = ["item", base, _at(e1, "v")], ["item", base, _at(e2, "v")]      # inside a computed key
        t = twin_term(rng, tg, l1, l2)
        cases.append({"term": t, "state": gen_state(rng), "objattr": rs.OBJATTR, "wellformed": wellformed(t),
                      "hashpair": f"{x[0]}{x[1]}~{y[0]}{y[1]}/shape{shape}",
                      # float literals are outside the literal syntax of the Coq terms: judged by the slot-walk oracle only
                      "oracle_only": x[0] == "f" or y[0] == "f"})
    return cases


# ---- references inside plain Python containers placed in operand slots ---------------------------
def gen_packed_cases(ctx, n):
    """r['M'][r['i'], r['j']] (tuple key holding references), slice keys, tuples / lists / dicts of
    references as call arguments, builtin parameters and operands.  The library does not evaluate
    (nor report) such nested references; whatever it DOES evaluate must be reported: judged by the
    perturbation oracle (a location whose change moves the value is a reported dependency)."""
    rng = ctx.rng
    c = rs.TOP["c"]
    it = lambda k: ["item", c, ["val", rs.Sx(k)]]
    cases = []
    for j in range(n):
        st = gen_state(rng, safe=True)
        cd = st[0][1][1]
        cd.append([rs.Sx("j"), rs.I(rng.choice([0, 1, 2]))])
        cd.append([rs.Sx("M"), ["arr", "int64", [3, 3], [rs.I(rng.randint(-9, 9)) for _ in range(9)]]])
        cd.append([rs.Sx("D"), ["d", [[["t", [rs.I(a), rs.I(b)]], rs.I(rng.randint(-9, 9))] for a in range(3) for b in range(3)]]])
        cd.append([rs.Sx("f2"), ["fn", 2]])
        ij = lambda: rng.choice([it("i"), it("j"), ["bin", "OMod", ["bin", "OAdd", it("i"), it("j")], rs.val(3)]])
        pack = lambda kind, xs: ["pack", kind, xs]
        k = j % 8
        if k == 0:
            e = ["item", it("M"), pack("tuple", [ij(), ij()])]                      # multi-dimensional index
        elif k == 1:
            e = ["item", it("D"), pack("tuple", [ij(), rs.val(rng.choice([0, 1, 2]))])]   # dict with tuple keys
        elif k == 2:
            e = ["item", it("l"), pack("slice", [rs.val(0), ij()])]                 # slice with a reference bound
        elif k == 3:
            e = ["item", it("M"), pack("tuple", [pack("slice", [rs.val(0), ij()]), ij()])]    # nested: (0:i, j)
        elif k == 4:
            e = ["call", it("f2"), [pack("tuple", [it("a"), it("b")])], []]         # a tuple of references as argument
        elif k == 5:
            e = ["call", it("f2"), [it("a")], [["k", pack("tuple", [it("b"), pack("tuple", [ij()])])]]]        # (lists / dicts are unhashable: refused at build time)
        elif k == 6:
            e = ["call", it("h"), [it("a")], [["y", ["item", it("D"), pack("tuple", [ij(), ij()])]]]]
        else:
            e = ["builtin", "FDivmod", it("a"), [pack("tuple", [it("b")])]]
        if rng.random() < 0.5 and k not in (4, 5, 7):
            e = ["bin", rng.choice(["OAdd", "OMul", "OSub"]), e, rng.choice([it("a"), rs.val(2)])]
        cases.append({"pexp": e, "state": st, "objattr": rs.OBJATTR, "perturb": True, "out": ["c", "out"], "oracle_only": True, "packed": k})
    return cases


def run_cases(cases, ids):
    classes, fns = ids
    parts = list(vlib.chunks(cases, max(1, (len(cases) + 15) // 16)))
    both = rs.run_both([{"mode": "c05", "classes": classes, "fns": fns, "cases": p} for p in parts])
    res = {b: [r for part in both[b] for r in part["results"]] for b in both}
    unknown = sorted({u for b in both for part in both[b] for u in part["unknown"]})
    return res, unknown


def run(ctx):
    ctx.rule = ("random expressions constructed directly from every node class found by introspection (BaseRef subclasses of the "
                "running xdeps.refs), depth 0..4, each operand slot (owner, computed key, lhs, rhs, arg, builtin parameters, callee, "
                "positional and keyword arguments) filled with a reference or a constant, 10% deliberately ill-formed (constant in an "
                "unguarded slot: both sides must raise); plus operator-built expressions with constant keys for the perturbation oracle; "
                "compared: _get_dependencies() as a set of terms / None / exception vs model deps over the regenerated tables, and vs the "
                "syntactic occurrence list; plus expressions that read TWO DIFFERENT locations whose printed forms coincide (o.p.x vs getattr(o,'p.x'), "
                "o.p.q[0] vs getattr(o,'p.q[0]'), attribute o.y vs a container labelled 'o.y', the same one level up the owner chain), side by side and "
                "nested below other nodes, judged structurally (owner chain, key, step kind); plus pairs of locations hanging off EXPRESSION owners "
                "(attribute / item of a binary, unary, builtin or call node, one level further down, inside a computed key) whose owners differ only in "
                "one literal with an equal Python hash (-1/-2, 1/True/1.0, 0/False/-0.0/0.0, k/k+2**61-1); plus references placed INSIDE plain "
                "containers in operand slots (tuple / slice / nested keys such as M[i, j], tuples of references as call arguments and "
                "builtin parameters), judged by the perturbation oracle whenever the expression evaluates; non-trivial = a (class, slot) pair holding a reference, and every perturbation case; "
                "distinct by (class, slot) and by expression")
    proof_ok = vlib.standard_proof_part(ctx, "props/C05.v", allowed_axioms=(), extra_targets=["run/RunRefs.vo"], translators=["refs"])
    classes, fns, iderr = rs.ids()
    ids = (classes, fns)
    if iderr:
        ctx.notes.append("translator could not read refs.py: " + iderr)
    info = {b: vlib.run_impl(RUNNER, {"mode": "info"}, build=b) for b in ("compiled", "pure")}
    conc = concrete(info["compiled"])
    unknown_cls = [n for n in conc if n not in classes] + [n for n in concrete(info["pure"]) if n not in conc]
    tg = TermGen(ctx.rng, classes, info["compiled"])
    cases = gen_cases(ctx, tg, ctx.pick(700, 40000), ctx.pick(150, 8000)) + gen_twin_cases(ctx, tg, ctx.pick(180, 6000)) \
        + gen_hashpair_cases(ctx, tg, ctx.pick(264, 8000)) + gen_packed_cases(ctx, ctx.pick(160, 4000))
    res, unknown = run_cases(cases, ids)
    cerrs = rs.case_errors(res)
    unknown = sorted(set(unknown) | set(unknown_cls))

    oracle_fail, build_diff = [], []
    seen_cls, seen_slots = set(), set()
    for i, c in enumerate(cases):
        if rs.has_error(res, i):
            continue
        for b in ("compiled", "pure"):
            r = res[b][i]
            if r.get("oracle"):
                oracle_fail.append((i, b))
        if "hashpair" in c:
            ctx.nontrivial.add("hashpair:" + c["hashpair"])
        if "packed" in c:
            ctx.nontrivial.add(f"packed:{c['packed']}:{res['compiled'][i].get('evaluates')}")
        if "twin" in c:
            ctx.nontrivial.add(f"twin:{c['twin']}:{'perturb' if c.get('perturb') else c['term'][0]}")
        a, p = res["compiled"][i], res["pure"][i]
        if a["term"] != p["term"] or a["deps"][0] != p["deps"][0] or (a["deps"][0] == "set" and sorted(map(json.dumps, a["deps"][1])) != sorted(map(json.dumps, p["deps"][1]))):
            build_diff.append(i)
        seen_cls.update(a["classes"]); seen_slots.update(a["slots"])
    # coverage demanded by the property: every class, every slot
    required_slots = sorted(f"{n}.{s}" for n in conc for s in info["compiled"]["slots"].get(n, []) if f"{n}.{s}" not in NO_REF_SLOTS)
    missing_cls = [n for n in conc if n not in seen_cls]
    missing_slots = [s for s in required_slots if s not in seen_slots]

    items, idx, unrep = [], [], []
    for i, c in enumerate(cases):
        r = res["compiled"][i]
        if rs.has_error(res, i):
            continue
        try:
            d = r["deps"]
            if d[0] == "set":
                obs = "(DSet " + vlib.clist([cterm(x) for x in d[1]]) + ")"
            elif d[0] == "none":
                obs = "DNone"
            elif d[0] == "raise":
                obs = "DRaise"
            else:
                raise Unrep("not a set")
            items.append(f"({cterm(r['term'])}, {obs})")
            idx.append(i)
        except Unrep:
            if not c.get("oracle_only"):
                unrep.append(i)
    mism = []
    coq_ok = iderr is None
    if coq_ok:
        try:
            mm, _ = rs.eval_chunks(ctx, items, "c05case", "c05_mismatches", "d", per=150)
            mism = [idx[k] for k in mm] + unrep
        except vlib.InfraError as e:
            if proof_ok:
                raise
            coq_ok = False
            ctx.notes.append("case files not evaluated (development does not build): " + str(e)[:300])
    # nested layouts: the properties derived from the registered dependencies (ref._tasks =
    # manager.tartasks[ref], ref._find_dependant_targets()) on locations whose owners / members /
    # siblings have definitions, vs the model (tasks_of, dependants over occ)
    ncases = [rn.gen_case(ctx.rng, with_stmts=False) for _ in range(ctx.pick(80, 2000))]
    nres, _, ndiff, nitems, nidx, _, nprobes, _ = rn.run_stream(ctx, ids, ncases, "n")
    nmism = []
    if coq_ok:
        try:
            mm, _ = rs.eval_chunks(ctx, nitems, "c04ncase", "c05n_mismatches", "n", per=12)
            nmism = [nidx[k] for k in mm]
        except vlib.InfraError as e:
            if proof_ok:
                raise
            coq_ok = False
    ctx.evaluations += 2 * nprobes
    ctx.traces += 2 * len(ncases)
    ctx.evaluations += 2 * len(cases)
    ctx.traces += 2 * len(cases)
    for s in seen_slots:
        ctx.nontrivial.add("slot:" + s)
    for i, c in enumerate(cases):
        if c.get("perturb"):
            ctx.nontrivial.add(json.dumps(c["pexp"]))
    cerrs += rs.case_errors(nres)
    okrecs = [r for r in res["compiled"] if "case_error" not in r]
    shapes = {}
    for r in okrecs:
        shapes[r["deps"][0]] = shapes.get(r["deps"][0], 0) + 1
    ctx.cov["input_distribution"] = {"cases": len(cases), "perturbation_cases": sum(1 for c in cases if c.get("perturb")),
                                     "ill_formed": sum(1 for c in cases if c.get("wellformed") is False),
                                     "classes_discovered": conc, "classes_covered": len(seen_cls & set(conc)),
                                     "slots_required": len(required_slots), "slots_covered": len(set(required_slots) & seen_slots),
                                     "result_shapes": shapes, "nested_layout_cases": len(ncases), "nested_probes_compared": nprobes,
                                     "deps_size_hist": {str(k): sum(1 for r in okrecs if r["deps"][0] == "set" and len(r["deps"][1]) == k) for k in range(0, 12)},
                                     "twin_location_cases": sum(1 for c in cases if "twin" in c),
                                     "hash_equal_owner_pairs": sum(1 for c in cases if "hashpair" in c), "hash_equal_literal_pairs": len(HASH_EQ),
                                     "references_inside_plain_containers_cases": sum(1 for c in cases if "packed" in c),
                                     "of_which_evaluable": sum(1 for i, c in enumerate(cases) if "packed" in c and res["compiled"][i].get("evaluates")),
                                     "hash_equal_pairs_oracle_only_float_literals": sum(1 for c in cases if c.get("oracle_only"))}
    ctx.samples = [{"term": res["compiled"][0].get("term"), "deps": res["compiled"][0].get("deps")},
                   {"twin case": cases[-1].get("pexp") or cases[-1].get("term"), "deps": res["compiled"][-1].get("deps")}]
    ctx.obligations.append(("correspondence: _get_dependencies() = model deps over GenRefs.v = syntactic occurrences, both builds",
                            coq_ok and not mism and not build_diff, f"{len(mism)} mismatching, {len(build_diff)} differing between builds, of {len(cases)}"))
    ctx.obligations.append(("correspondence (nested layouts): ref._tasks and ref._find_dependant_targets() = model (tasks_of / dependants over the occurrence sets), both builds agree",
                            coq_ok and not nmism and not ndiff, f"{len(nmism)} mismatching cases of {len(nitems)}, {len(ndiff)} differing between builds"))
    ctx.obligations.append(("oracle: reported set = locations found by an independent slot walk; perturbation through set_value", not oracle_fail, f"{len(oracle_fail)} failing"))
    ctx.obligations.append(("coverage: every BaseRef subclass found by introspection is known to the translator and was exercised, every operand slot held a reference",
                            not unknown and not missing_cls and not missing_slots, f"unknown={unknown} classes not exercised={missing_cls} slots not exercised={missing_slots}"))
    ctx.obligations.append(("no case ended by an exception of the library outside the steps whose exceptions are outcomes (construction, printing, hashing ...)", not cerrs,
                            "" if not cerrs else f"{len(cerrs)} cases, first: {cerrs[0][2]}"))

    if oracle_fail:
        i, b = oracle_fail[0]
        small = shrink(cases[i], ids, b)
        bad, r = case_fails(small, ids, b)
        vlib.violation(ctx, {"kind": "oracle", "what": "reported dependencies differ from the locations the expression reads", "build": b,
                             "case": small, "observed": r, "problems": r.get("oracle"), "how_to_replay": "./check C05 --replay <this file>"})
    elif mism or nmism or ndiff or build_diff or unknown or missing_cls or missing_slots or cerrs or not proof_ok or not coq_ok:
        what = list(getattr(ctx, "broken", []))
        rs.describe_errors(cerrs, what)
        if nmism:
            i = nmism[0]
            what.append(f"nested-layout correspondence (_tasks / _find_dependant_targets) broke on {len(nmism)} cases, first: defs={json.dumps(ncases[i]['defs'])} observed={json.dumps(nres['compiled'][i].get('probes'))[:1200]}")
        if ndiff:
            what.append(f"compiled and pure builds differ on {len(ndiff)} nested cases")
        if mism:
            i = mism[0]
            what.append(f"correspondence broke on {len(mism)} cases, first: term={json.dumps(res['compiled'][i]['term'])} deps={json.dumps(res['compiled'][i]['deps'])}")
        if build_diff:
            what.append(f"compiled and pure builds differ on {len(build_diff)} cases, first: {json.dumps(res['compiled'][build_diff[0]]['term'])}")
        if unknown:
            what.append("node classes / functions the translator does not know (tie broken): " + ", ".join(unknown))
        if missing_cls or missing_slots:
            what.append(f"not exercised: classes {missing_cls} slots {missing_slots}")
        extra = gen_cases(ctx, tg, 8000, 1500) + gen_twin_cases(ctx, tg, 1200) + gen_hashpair_cases(ctx, tg, 1500) + gen_packed_cases(ctx, 800)
        res2, _ = run_cases(extra, ids)
        found = None
        for b in ("compiled", "pure"):
            for i, r in enumerate(res2[b]):
                if r.get("oracle") and found is None:
                    found = (extra[i], b)
        if found:
            small = shrink(found[0], ids, found[1])
            bad, r = case_fails(small, ids, found[1])
            vlib.violation(ctx, {"kind": "oracle", "build": found[1], "case": small, "observed": r, "problems": r.get("oracle"), "also_broken": what})
        else:
            vlib.violation(ctx, {"kind": "proof-or-correspondence", "no_longer_checks": what,
                                 "searched": f"{len(extra)} extra expressions on both builds with the slot-walk and perturbation oracles: no failing input"}, no_input=True)


def replay(ctx, data):
    classes, fns, _ = rs.ids()
    case = data.get("case")
    if not case:
        print("replay file names a broken theorem/correspondence, no concrete input:", json.dumps(data.get("no_longer_checks"), indent=1))
        return 1
    rc = 0
    for b in ("compiled", "pure"):
        bad, r = case_fails(case, (classes, fns), b)
        print(b, json.dumps(r))
        if bad:
            print(f"VIOLATION property=C05 replay=(given) build={b}: " + "; ".join(r["oracle"]))
            rc = 1
    if rc == 0:
        print("replay: reported dependencies are exactly the locations read on this case")
    return rc
