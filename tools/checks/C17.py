"""C17 — a frozen manager's expression graph cannot change, yet values propagate.

Proof : coq/props/C17.v — every graph-changing call on a frozen manager returns
        the frozen error with the WHOLE state (definitions, indices, data)
        unchanged; a plain assignment to a location without a definition behaves
        exactly as on the unfrozen manager; unfreeze restores the manager;
        verify/cleanup are read-only.
Tie   : model vs implementation on histories with frozen windows; oracles on the
        implementation: rejected calls raise ValueError and leave the snapshot
        unchanged, every graph-changing call in a window is rejected, dependants
        of plain assignments stay consistent, and a twin run without the window's
        rejected calls (and without freezing) ends in the same state.
"""
import json
import vlib, mgr_common as mc

GRAPH_OPS = ("regfun", "regknob", "refresh")


def would_change(op, prev_tasks):
    k = op[0]
    flat = mc.flat
    if k == "set":
        return op[2][0] == "expr" or flat(op[1]) in prev_tasks
    if k == "inplace":
        return flat(op[1]) in prev_tasks
    if k == "unregister":
        return True
    if k == "load":
        return any(flat(p) not in prev_tasks for p, _ in op[1]) or op[2]
    return k in GRAPH_OPS


def snap_key(o):
    return json.dumps([o["store"], sorted(json.dumps([t[0], t[1], sorted(map(json.dumps, t[2])), sorted(map(json.dumps, t[3]))]) for t in o["tasks"]),
                       # the order inside an index entry follows set iteration (the hash of an expression node can be its address):
                       # entries are compared as multisets
                       {k: sorted(json.dumps([e[0], sorted(map(json.dumps, e[1]))]) for e in v) for k, v in o["indices"].items()}], sort_keys=True)


def oracle(cases, obs):
    fails = []
    for i, (c, ol) in enumerate(zip(cases, obs)):
        frozen = False
        prev = None
        taint = mc.tainted_prefix(ol)
        for k, (op, o) in enumerate(zip(c["ops"], ol)):
            prev_tasks = [t[0] for t in prev["tasks"]] if prev else []
            if frozen and would_change(op, prev_tasks):
                if o["err"] != "ValueError":
                    fails.append((i, k, f"graph-changing call on a frozen manager was not rejected (err={o['err']})")); break
                if prev is not None and snap_key(o) != snap_key(prev):
                    fails.append((i, k, "a rejected call on a frozen manager changed definitions, indices or data")); break
            elif frozen and op[0] == "set" and op[2][0] == "plain":
                if o["err"] is not None:
                    fails.append((i, k, f"plain assignment on a frozen manager failed: {o['err']}")); break
            if frozen and o["err"] is None and op[0] in ("verify", "cleanup") and prev is not None:
                if snap_key(o) != snap_key(prev):
                    fails.append((i, k, "verify/cleanup changed a query answer")); break
            if o["oracle"]["canon"]:
                fails.append((i, k, f"indices corrupted: {o['oracle']['canon']}")); break
            qr = [q for q in (o.get("queries") or []) if isinstance(q, str)]
            if qr:
                fails.append((i, k, f"a read-only query (ref._tasks / _find_dependant_targets / find_deps) on a frozen manager raised: {qr[0]}")); break
            if frozen and prev is not None and prev.get("queries") and o.get("queries") and op[0] not in ("freeze", "unfreeze") \
                    and o["err"] == "ValueError" and o["queries"] != prev["queries"]:
                fails.append((i, k, "query answers changed across a rejected call on a frozen manager")); break
            cl = o.get("clone")
            if cl and cl.get("problems") and not cl.get("cycle") and taint is None:
                fails.append((i, k, f"a clone taken earlier (possibly while frozen) and the original are not independent: {cl['problems'][:2]}")); break
            if op[0] == "freeze":
                frozen = True
            elif op[0] == "unfreeze":
                frozen = False
            prev = o
    return fails


def twin(case, ol):
    """the same history without freeze/unfreeze and without the rejected calls"""
    ops = []
    frozen = False
    for op, o in zip(case["ops"], ol):
        if op[0] == "freeze":
            frozen = True; continue
        if op[0] == "unfreeze":
            frozen = False; continue
        if frozen and o["err"] == "ValueError":
            continue
        ops.append(op)
    return dict(case, ops=ops)


def container_valued_case(rng):
    """definitions whose VALUE is a container (numpy arrays, lists): members of such values are locations without an
    expression of their own - assigning them a plain value must propagate also while frozen.  Outside the integer
    domain of the model: judged by the oracles (rejected / accepted calls, unfrozen twin)."""
    R = lambda *ks: ["c"] + [["i", k] for k in ks]
    arr = lambda: "\x02arr:" + json.dumps([rng.randint(-5, 5) for _ in range(3)])
    store = [["c", {"kind": "dict", "root": rng.choice(["ref", "refattr", "env"]),
                    "items": [["u", arr()], ["v", arr()], ["w", "\x02list:[1, 2]"], ["x", "\x02list:[3]"], ["q", arr()], ["r", 0], ["s", 0], ["t", "\x02list:[1, 2, 3]"]]}]]
    defs = [["set", R("q"), ["expr", ["bin", "+", ["ref", R("u")], ["ref", R("v")]]]],            # array-valued
            ["set", R("t"), ["expr", ["bin", "+", ["ref", R("w")], ["ref", R("x")]]]],            # list-valued (concatenation)
            ["set", R("r"), ["expr", ["bin", "*", ["ref", R("q", 0)], ["const", 2]]]],            # reads a member of a defined value
            ["set", R("s"), ["expr", ["bin", "+", ["ref", R("t", 0)], ["ref", R("u", 1)]]]]]
    rng.shuffle(defs)
    ops = defs[: rng.randint(2, 4)]
    frozen = False
    for _ in range(rng.randint(4, 10)):
        k = rng.random()
        if k < 0.25:
            frozen = not frozen if rng.random() < 0.8 else frozen
            ops.append(["freeze"] if frozen else ["unfreeze"])
        elif k < 0.65:      # a member of a container value (defined or plain)
            ops.append(["set", R(rng.choice("uvq"), rng.choice([0, 1, 2])), ["plain", rng.randint(-9, 9)]])
        elif k < 0.75:
            ops.append(["set", R(rng.choice("wt"), 0), ["plain", rng.randint(-9, 9)]])
        elif k < 0.87:
            ops.append(["set", R(rng.choice("uv")), ["plain", arr()]])
        else:
            ops.append(rng.choice(defs))
    for op in ops:
        if op[0] == "set" and len(op) == 3:
            op.append(rng.choice(mc.ROUTES))
    return {"store": store, "ops": ops}


def bulk_case(n, frozen, rng):
    """n definitions arriving at once (load or copy_expr_from) at a manager without tasks, frozen or not: a frozen manager
    rejects the call whatever its size and keeps no trace of it"""
    R = lambda k: ["c", ["i", k]]
    store = [["c", {"kind": "dict", "items": [["v%d" % i, i % 7] for i in range(n + 1)]}]]
    defs = [[R("v%d" % (i + 1)), ["bin", "+", ["ref", R("v%d" % (i // 2))], ["const", 1]]] for i in range(n)]
    via = ["copy"] if rng.random() < 0.7 else []
    ops = ([["freeze"]] if frozen else []) + [["load", defs, True] + via] + ([["unfreeze"], ["refresh"]] if frozen else []) + \
        [["set", R("v0"), ["plain", 3], "sv"]]
    return {"store": store, "ops": ops}


def run(ctx):
    ctx.rule = ("random manager histories with frozen windows at random positions containing every kind of API call (assign value/expression, "
                "in-place, register, unregister, load, refresh, verify, cleanup), several windows per history, unbalanced freeze/unfreeze calls "
                "(freeze when frozen, unfreeze when not), repeated assignments to the same locations across windows; non-trivial = a window with >= 1 rejected call and >= 1 "
                "propagating plain assignment; distinct by op list")
    ctx.scale_if_changed()
    proof_ok = vlib.standard_proof_part(ctx, "props/C17.v", extra_targets=["run/RunManager.vo", "proofs/TasksSrc.vo", "proofs/TasksSrcData.vo", "proofs/TasksSrcRefresh.vo", "proofs/TasksSrcSorting.vo"], translators=["tasks"])
    cases = [mc.gen_history(ctx.rng, ["frozen", "frozen", "windows"][i % 3], nops=ctx.rng.randint(6, 18)) for i in range(ctx.pick(260, 4000))]
    cases += [container_valued_case(ctx.rng) for _ in range(ctx.pick(80, 1500))]
    obs = mc.run_impl_cases(cases)
    mism = mc.model_compare(ctx, cases, obs, "c17")
    fails = oracle(cases, obs)
    # bulk arrivals of definitions (sizes around the thresholds a fast path would use), frozen and not: oracle only
    bulk = [bulk_case(n, fz, ctx.rng) for n in (3, 70, 300, 1100, 4200) for fz in (True, False)]
    bobs = mc.run_impl_cases(bulk)
    fails += [(len(cases) + i, k, w) for i, k, w in oracle(bulk, bobs)]
    for i, (c, ol) in enumerate(zip(bulk, bobs)):
        ntasks = len(ol[-1]["tasks"])
        want = 0 if c["ops"][0][0] == "freeze" else len(c["ops"][0][1])
        if ntasks != want:
            fails.append((len(cases) + i, len(c["ops"]) - 1, f"{ntasks} definitions after a bulk arrival of {len([o for o in c['ops'] if o[0] == 'load'][0][1])} "
                          f"({'rejected: the manager was frozen' if want == 0 else 'accepted'}), expected {want}"))
    # unfreeze is transparent: twin run
    twins = [twin(c, ol) for c, ol in zip(cases, obs)]
    tobs = mc.run_impl_cases(twins)
    for i, (c, ol, t, tl) in enumerate(zip(cases, obs, twins, tobs)):
        if not ol or not tl:
            continue
        if mc.tainted_prefix(ol) is not None or mc.tainted_prefix(tl) is not None:
            continue
        if any(o["err"] == "Fault" for o in ol):
            continue
        a, b = dict(ol[-1]), dict(tl[-1])
        if snap_key(a) != snap_key(b):
            fails.append((i, len(c["ops"]) - 1, "after unfreezing, the final state differs from the run that never froze (rejected calls removed): "
                          + json.dumps([x for x, y in zip(a["store"], b["store"]) if x != y][:3])))
    for c, ol in zip(cases, obs):
        frozen = rej = prop = False
        for op, o in zip(c["ops"], ol):
            if op[0] == "freeze": frozen = True
            elif op[0] == "unfreeze": frozen = False
            elif frozen and o["err"] == "ValueError": rej = True
            elif frozen and op[0] == "set" and o["err"] is None and o["trace"]: prop = True
        if rej and prop:
            ctx.nontrivial.add(json.dumps(c["ops"]))
    ctx.evaluations = sum(len(c["ops"]) for c in cases) + sum(len(c["ops"]) for c in twins)
    ctx.traces = len(cases)
    ctx.samples = [{"ops": cases[0]["ops"], "errors": [o["err"] for o in obs[0]]}]
    ctx.cov["input_distribution"] = {"ops": mc.op_distribution(cases),
                                     "rejected_calls": sum(1 for ol in obs for o in ol if o["err"] == "ValueError"),
                                     "tainted_by_order_cycle": sum(1 for ol in obs if mc.tainted_prefix(ol) is not None)}
    mc.decide(ctx, proof_ok, cases + bulk, obs + bobs, mism, fails)


def replay(ctx, data):
    case = data.get("case")
    if not case:
        print("no concrete input in this replay file:", data.get("no_longer_checks")); return 1
    obs = mc.run_impl_cases([case])
    f = oracle([case], obs)
    print(json.dumps([o["err"] for o in obs[0]]))
    if f:
        print("VIOLATION property=C17 replay=(given):", f[0][2]); return 1
    print("replay: the implementation satisfies the C17 oracle on this case"); return 0
