"""C14 — every Table the API produces is rectangular and leaves its source untouched.

Proof part : coq/props/C14.v (Rect invariant preserved by the checked
             constructor, row/column selection, +, *, concatenate, _copy, _t,
             column assignment, and by every finite chain of them).
Tie        : hand-written shape-level model coq/model/TableRect.v; correspondence
             on random derivation chains: column lists with per-column lengths,
             scalar keys, index and exception classes after every step.
Oracle     : tools/impl/tablerect_runner.py checks the property itself on the
             real Table after every step (rectangular result, index listed,
             scalars carried, source snapshot unchanged, element-wise
             expressions).
"""
import json
import vlib
from vlib import cz, cn, clist, copt, cnat

RUNNER = "tablerect_runner.py"
ERRMAP = {"KeyError": "EKey", "IndexError": "EIndex", "TypeError": "EType", "ValueError": "EValue", "NameError": "EName"}
POOL = ["a", "b", "c", "d", "e"]
KINDS = ["float", "int", "str", "obj", "vec2", "vec3", "mat"]    # vec/mat: one vector / 2x2 matrix per row
WIDTH = {"vec2": 2, "vec3": 3, "mat": 4}
DERIVE = ("rows", "cols", "addself", "addrows", "mul", "copy", "t", "concat")
EXPRS = ["{x}+{y}", "{x}+2*{y}", "{x}-{y}", "{x}*{y}", "2*{x}", "-{x}", "({x}+{y})*{x}", "{x}-3*{y}+1"]


def rand_vals(rng, kind, n):
    if kind in WIDTH:
        return [[float(rng.randint(-9, 9)) for _ in range(WIDTH[kind])] for _ in range(n)]
    if kind == "float":
        return [float(rng.choice([rng.uniform(-10, 10), rng.randint(-3, 3), 0.1 * rng.randint(-20, 20)])).hex() for _ in range(n)]
    if kind == "int":
        return [rng.randint(-9, 9) for _ in range(n)]
    if kind == "str":
        return [rng.choice(["p", "q", "rr", "s1", "ip"]) for _ in range(n)]
    return [rng.randint(0, 5) for _ in range(n)]


def rand_scalar(rng):
    return rng.choice([rng.randint(-5, 5), round(rng.uniform(-3, 3), 3), "txt", 0])


class Track:
    """what the generator believes the current table looks like (only used to
    produce mostly valid operations; the verdicts never depend on it)"""
    def __init__(self, cols, n, index, scalars, numscal=()):
        self.cols, self.n, self.index, self.scalars = list(cols), n, index, set(scalars)
        self.numscal = set(numscal)      # scalar entries known to be numbers (usable in expressions)

    def names(self):
        return [c for c, _ in self.cols]

    def numeric(self):
        return [c for c, k in self.cols if k in ("float", "int") and c.isidentifier()]


def gen_sel(rng, n):
    k = rng.random()
    if k < 0.45:
        m = rng.randint(0, n + 2)
        l = [rng.randint(-n, n - 1) if n and rng.random() < 0.97 else n + rng.randint(0, 1) for _ in range(m)]
        ok = all(-n <= i < n for i in l)
        return ["poslist", l], (len(l) if ok else None)
    if k < 0.8:
        lo = rng.choice([None, rng.randint(-n - 1, n + 1)])
        hi = rng.choice([None, rng.randint(-n - 1, n + 1)])
        return ["slice", lo, hi], len(range(n)[slice(lo, hi)])
    m = n if rng.random() < 0.93 else max(0, n + rng.choice([-1, 1]))
    mask = [rng.random() < 0.6 for _ in range(m)]
    pos = [i for i, b in enumerate(mask) if b]
    return ["mask", mask], (len(pos) if all(i < n for i in pos) else None)


def gen_expr(rng, tr):
    num = tr.numeric()
    if not num:
        return None
    x, y = rng.choice(num), rng.choice(num)
    ns = sorted(k for k in tr.numscal & tr.scalars if k.isidentifier())
    if ns and rng.random() < 0.3:
        y = rng.choice(ns)          # a numeric scalar entry of the table inside the expression
    text = rng.choice(EXPRS).format(x=x, y=y)
    kinds = dict(tr.cols)
    return text, ("float" if "float" in (kinds[x], kinds.get(y, "float")) else "int")


PREFERRED = ["sign", "power", "mod", "exp", "log", "sqrt", "abs", "absolute", "square", "np", "sin", "cos", "add",
             "maximum", "angle", "floor", "conj", "real", "divide", "negative", "positive", "fabs", "hypot"]


def gen_mut(rng, trk, names0):
    """an in-place mutation of an existing numeric column of the table pictured by trk:
    whole column (item / attribute style), broadcast scalar, or one cell by position / by name"""
    num = [(c, k) for c, k in trk.cols if k in ("float", "int") and c.isidentifier()]
    if not num:
        return None
    c, kind = rng.choice(num)
    z = rng.random()
    if z < 0.3:
        return ["set", c, ["arr", kind, rand_vals(rng, kind, trk.n)]]
    if z < 0.45:
        return ["setattr", c, ["arr", kind, rand_vals(rng, kind, trk.n)]]
    if z < 0.55:
        return ["set", c, ["scalar", rng.randint(-4, 4)]]
    v = rng.randint(-9, 9) if kind == "int" else rng.choice([2.5, -1.5, 7.0, 0.25])
    if z < 0.85 or not names0:
        return ["setcell", c, rng.randint(-trk.n, trk.n - 1) if trk.n else 0, v]
    return ["setcell", c, rng.choice(names0), v]


def gen_case(rng, maxops=6, mathnames=()):
    # a quarter of the cases name their columns and scalars like entries of the
    # table's math namespace (numpy ufuncs and `np`; list read from xdeps.table at
    # run time) and evaluate many expressions over them
    collide = bool(mathnames) and rng.random() < 0.25
    if collide:
        pref = [m for m in PREFERRED if m in mathnames] or list(mathnames)
        cand = list(dict.fromkeys(rng.sample(pref, min(5, len(pref))) + rng.sample(list(mathnames), min(4, len(mathnames)))))
        rng.shuffle(cand)
        cand = (cand + POOL)[:7]
        pool, snames = cand[:5], cand[5:7]
    else:
        pool, snames = POOL, ["s1", "s2"]
    n = rng.randint(0, 8)
    ncols = rng.randint(2, 4) if collide else rng.randint(0, 4)
    cols = [("name", "str")] + [(pool[i], rng.choice(["float", "int", "float", "int", "str", "vec2"] if collide else KINDS)) for i in range(ncols)]
    data = [[c, k, rand_vals(rng, k, n)] for c, k in cols]
    if n:
        data[0][2] = [rng.choice(["ip", "mq", "mb", "d"]) + str(rng.randint(1, 3)) for _ in range(n)]
    scal = []
    # a fifth of the cases concentrate on one source table: selections, assignments
    # (mostly to its scalar entries: scalar -> column promotion and back) and deletions
    focus = rng.random() < 0.2
    numscal = set()
    for s in snames:
        if focus or collide or rng.random() < 0.5:
            scal.append(s)
            data.append([s, "scalar", rand_scalar(rng)])
            if not isinstance(data[-1][2], str):
                numscal.add(s)
    if rng.random() < 0.15:
        data.append(["w", rng.choice(["float", "int"]), rand_vals(rng, "int", n + 2)])   # array that is not a column
        data[-1][2] = [float(v).hex() for v in data[-1][2]] if data[-1][1] == "float" else data[-1][2]
        scal.append("w")
    col_names = [c for c, _ in cols]
    rng.shuffle(data)
    index = "name"
    bad = rng.random()
    valid = True
    if bad < 0.03 and ncols and n:
        for row in data:
            if row[0] == pool[0]:
                row[2] = row[2][:-1] if rng.random() < 0.5 else row[2] + row[2][:1]
        valid = False
    elif bad < 0.05:
        index = "zz"; valid = False
    elif bad < 0.07 and scal:
        col_names = col_names + [scal[0]] if scal[0] != "w" else col_names; valid = scal[0] == "w"
    elif bad < 0.09:
        col_names = col_names + ["q"]; valid = False
    elif bad < 0.14 and not scal:
        col_names = None
    elif bad < 0.17 and scal:
        # the index names a scalar (header) entry of data that is not a listed column: must be refused
        index = scal[0]; valid = False
    elif bad < 0.20:
        # the entry under the index name is itself a header scalar and not listed
        for row in data:
            if row[0] == "name":
                row[1], row[2] = "scalar", rng.choice(["ring", 7, 0.5])
        col_names = [c for c in col_names if c != "name"]; valid = False
    elif bad < 0.22 and any(r[0] == "w" for r in data):
        index = "w"; valid = False            # an array of data that is not listed
    elif bad < 0.25 and ncols:
        index = rng.choice(col_names[1:])     # another listed column as the index: fine
    elif bad < 0.28 and ncols >= 2:
        # explicit col_names listing only some of the arrays: the others are non-column entries
        drop = rng.choice(col_names[1:])
        col_names = [c for c in col_names if c != drop]
        cols = [(c, k) for c, k in cols if c != drop]
        if n:       # (with 0 rows a non-column array of length 0 is indistinguishable from a column for assignment)
            scal.append(drop)
    case = {"data": data, "col_names": col_names, "index": index, "ops": []}
    if rng.random() < 0.2:
        # the other constructor arguments: separators of the row selectors, string casting
        case["ctor_kw"] = {k: v for k, v in (("sep_count", rng.choice(["::", "##"])), ("sep_previous", rng.choice(["<<", "<-"])),
                                             ("sep_next", rng.choice([">>", "->"])), ("cast_strings", rng.random() < 0.5)) if rng.random() < 0.7}
    if not valid:
        return case
    tr = Track(cols, n, index, scal, numscal)
    # how often a derivation is made from the current table while that table
    # stays current (selections and assignments interleaved on one source)
    # a fifth of the cases alternate between a table and a table derived from it that shares its
    # column arrays (cols[...], _copy, row slices): expressions asked of both, existing columns and
    # cells assigned in place through either, the expressions asked again (the runner re-asks them)
    share = not focus and rng.random() < 0.25 and any(k in ("float", "int") for _, k in cols[1:])
    names0 = [x for r in data if r[0] == "name" and r[1] == "str" for x in r[2]]
    dtr, force_next = None, None
    stay_p = 1.0 if focus or share else rng.choice([0.0, 0.4, 0.7, 1.0])
    for _ in range(rng.randint(3 if focus else 4 if share else 1, maxops if stay_p == 0.0 else maxops + 2)):
        k = rng.random()
        if focus and rng.random() < 0.85:
            k = rng.choice([rng.uniform(0, 0.38), rng.uniform(0.81, 0.95)])
        op = None
        if force_next is not None:
            k, force_next, forced = force_next, None, True
        else:
            forced = False
        if share and not forced:
            z = rng.random()
            if z < 0.25:
                k = 0.97                                        # an expression asked of the current table
            elif z < 0.5 and dtr is not None:
                m = gen_mut(rng, dtr, names0)
                if m:
                    case["ops"].append(["ond", m])
                continue
            elif z < 0.6 and dtr is not None:
                e = gen_expr(rng, dtr)
                if e and e[0] not in dtr.names():
                    case["ops"].append(["ond", ["expr", e[0], rng.choice(["item", "cols"])]])
                continue
            elif z < 0.72:
                m = gen_mut(rng, tr, names0)
                if m:
                    case["ops"].append(m)
                continue
            elif z < 0.95:
                k = rng.choice([rng.uniform(0.2, 0.38), 0.65, 0.1, 0.1])   # cols / _copy / rows
        saved = Track(tr.cols, tr.n, tr.index, tr.scalars, tr.numscal)
        if collide and rng.random() < 0.45:
            k = 0.97      # an expression
        if k < 0.2:
            s, m = gen_sel(rng, tr.n)
            if share and rng.random() < 0.7:        # a row slice is a view of the source columns
                lo, hi = sorted([rng.randint(0, tr.n), rng.randint(0, tr.n)])
                s, m = ["slice", lo, hi], hi - lo
            op = ["rows", s]
            if m is not None:
                tr.n = m
        elif k < 0.38:
            names = tr.names()
            pick = [c for c in names if rng.random() < 0.5] or [rng.choice(names)]
            rng.shuffle(pick)
            newcols = [(c, dict(tr.cols)[c]) for c in pick]
            e = gen_expr(rng, tr) if rng.random() < 0.5 else None
            if e and e[0] not in names:
                pick.insert(rng.randint(0, len(pick)), e[0])
                newcols = [(c, dict(tr.cols + [e])[c]) for c in pick]
            if rng.random() < 0.2:
                # a name requested twice (string form 'a b a' and list form): listed once in the result,
                # so that a following * / + extends every column once
                for _ in range(rng.randint(1, 2)):
                    pick.insert(rng.randint(0, len(pick)), rng.choice(pick))
                force_next = rng.choice([0.42, 0.58, 0.58, None])      # then + or * on that table
            if rng.random() < 0.04:
                pick.append("zz")
                op = ["cols", pick, rng.choice(["str", "list"])]
            else:
                op = ["cols", pick, rng.choice(["str", "list"])]
                if tr.index not in pick:
                    newcols = [(tr.index, dict(tr.cols).get(tr.index, "str"))] + newcols
                tr.cols = newcols
        elif k < 0.46 and tr.n <= 40:
            op = ["addself"]; tr.n *= 2
        elif k < 0.54 and tr.n <= 40:
            s, m = gen_sel(rng, tr.n)
            op = ["addrows", s]
            if m is not None:
                tr.n += m
        elif k < 0.62 and tr.n <= 40:
            num = rng.choice([0, 1, 2, 2, 3])
            op = ["mul", num]
            if num > 0:
                tr.n *= num
        elif k < 0.68:
            op = ["copy"]
        elif k < 0.75 and tr.n <= 12 and len(tr.cols) <= 12:
            op = ["t"]
            newn = len(tr.cols)
            tr.cols = [("columns", "str")] + [(f"row{i}", "str") for i in range(tr.n)]
            tr.n, tr.index, tr.scalars = newn, "columns", set()
        elif k < 0.81:
            sels, tot, ok = [], 0, True
            for _ in range(rng.randint(1, 3)):
                s, m = gen_sel(rng, tr.n)
                sels.append(s)
                ok = ok and m is not None
                tot += m or 0
            op = ["concat", sels]
            if ok and "name" in tr.names() and tot <= 60:
                tr.n, tr.scalars, tr.index = tot, set(), "name"     # cls(data): default index "name"
            elif tot > 60:
                op = None
        elif k < 0.90:
            # assignment: the key is drawn from one pool whatever it currently is
            # (a column, a scalar entry, a non-column array, or absent)
            names = tr.names()
            key = rng.choice(names + sorted(tr.scalars) * (4 if focus else 2) + pool + snames)
            kinds = dict(tr.cols)
            kind = kinds.get(key, rng.choice(KINDS))
            y = rng.random()
            if key in names:
                if y < 0.7:
                    op = ["set", key, ["arr", kind, rand_vals(rng, kind, tr.n)]]
                elif y < 0.82:
                    op = ["set", key, ["arr", kind, rand_vals(rng, kind, tr.n + rng.choice([1, 2]))]]
                elif y < 0.9:
                    op = ["set", key, ["arr", kind, rand_vals(rng, kind, 1)]]
                elif kind in ("float", "int"):
                    op = ["set", key, ["scalar", rng.randint(-4, 4)]]
            else:
                if y < 0.6:      # new column, or a scalar entry promoted to a column
                    op = ["set", key, ["arr", kind, rand_vals(rng, kind, tr.n)]]
                    tr.cols.append((key, kind)); tr.scalars.discard(key)
                elif y < 0.7:    # an array of another length: stays / becomes a non-column entry
                    op = ["set", key, ["arr", kind, rand_vals(rng, kind, tr.n + 1)]]
                    tr.scalars.add(key); tr.numscal.discard(key)
                else:
                    op = ["set", key, ["scalar", rng.choice([rng.randint(-5, 5), round(rng.uniform(-3, 3), 3)])]]
                    tr.scalars.add(key); tr.numscal.add(key)
        elif k < 0.95:
            cand = [c for c in tr.names() if c != tr.index] + sorted(tr.scalars) + (["zz"] if rng.random() < 0.1 else [])
            if cand:
                key = rng.choice(cand)
                op = ["del", key]
                tr.cols = [(c, kd) for c, kd in tr.cols if c != key]
                tr.scalars.discard(key)
        else:
            e = gen_expr(rng, tr)
            if e and e[0] not in tr.names():
                form = rng.choice(["item", "cols", "cell"])
                op = ["expr", e[0], form] + ([rng.randint(-tr.n, tr.n - 1)] if form == "cell" and tr.n else [])
                if form == "cell" and not tr.n:
                    op = ["expr", e[0], "item"]
        if op and op[0] in DERIVE and rng.random() < stay_p and force_next is None:
            op = ["stay", op]
            dtr, tr = tr, saved
        if op:
            case["ops"].append(op)
    return case


# ---- Coq emission --------------------------------------------------------------------

class NameTok:
    """'columns' = 0, 'row<i>' = 2i+1, 'name' = 2, others even > 2"""
    def __init__(self):
        self.d = {}

    def __call__(self, s):
        if s == "columns":
            return 0
        if s == "name":
            return 2
        if s.startswith("row") and s[3:].isdigit():
            return 2 * int(s[3:]) + 1
        if s not in self.d:
            self.d[s] = 4 + 2 * len(self.d)
        return self.d[s]


def zeros(n):
    return f"(repeat 0%Z {int(n)})"


def emit_idx(s):
    if s[0] == "poslist":
        return f"(IArr {clist([cz(x) for x in s[1]])})"
    if s[0] == "slice":
        return f"(ISlice {copt(s[1], cz)} {copt(s[2], cz)})"
    return f"(IArr {clist([cz(i) for i, b in enumerate(s[1]) if b])})"


def emit_ops(case, ctor_obs, obs, N):
    """ops and expected results; 'expr' observations have no model counterpart.
    Column requests are names of the current table or expressions: told apart
    with the implementation-independent rule 'is an identifier'."""
    ops, exps = [], []
    for op, o in zip(case["ops"], obs):
        stay = op[0] == "stay"
        if stay:
            op = op[1]
        k = op[0]
        if k in ("expr", "ond", "setcell"):
            continue        # values / another live table: no counterpart in the shape model
        if k == "setattr":
            k, op = "set", ["set"] + list(op[1:])
        if k == "rows":
            t = f"ORows {emit_idx(op[1])}"
        elif k == "cols":
            t = "OCols " + clist([(f"CName {cn(N(c))}" if c.isidentifier() else f"CExpr {cn(N(c))}") for c in op[1]])
        elif k == "addself":
            t = "OAddSelf"
        elif k == "addrows":
            t = f"OAddRows {emit_idx(op[1])}"
        elif k == "mul":
            t = f"OMul {cz(op[1])}"
        elif k == "copy":
            t = "OCopy"
        elif k == "t":
            t = "OT"
        elif k == "concat":
            t = f"OConcat {clist([emit_idx(s) for s in op[1]])}"
        elif k == "set":
            v = op[2]
            t = f"OSet {cn(N(op[1]))} " + ("(VScalar 0%Z)" if v[0] == "scalar" else f"(VArr {zeros(len(v[2]))})")
        elif k == "del":
            t = f"ODel {cn(N(op[1]))}"
        else:
            raise ValueError(op)
        e = emit_shape(o, N)
        if e is None:
            return None
        ops.append(f"OStay ({t})" if stay else t); exps.append(e)
    return ops, exps


def emit_shape(o, N):
    if o[0] == "err":
        e = ERRMAP.get(o[1])
        return None if e is None else f"(Err {e})"
    sh = o[1]
    if any(l < 0 for _, l in sh["cols"]):
        return None
    return ("(Ok (" + clist([f"({cn(N(c))}, {cnat(l)})" for c, l in sh["cols"]]) + ", " +
            clist([cn(N(s)) for s in sh["scalars"]]) + f", {cn(N(sh['index']))}))")


def emit_case(case, ctor_obs, obs):
    N = NameTok()
    data = clist([f"({cn(N(k))}, " + ("(EVal 0%Z)" if kind == "scalar" else f"(EArr {zeros(len(v))})") + ")" for k, kind, v in case["data"]])
    cols = "None" if case["col_names"] is None else f"(Some {clist([cn(N(c)) for c in case['col_names']])})"
    e0 = emit_shape(ctor_obs, N)
    r = emit_ops(case, ctor_obs, obs, N)
    if e0 is None or r is None:
        return None
    ops, exps = r
    return f"({data}, {cols}, {cn(N(case['index']))}, {clist(ops)}, {e0}, {clist(exps)})"


def impl_many(payloads, configs, timeout):
    """vlib.run_impl_many, robust against a concurrent check pruning the shared
    build cache (vlib keeps the three most recent builds): keep ours recent and
    retry after a rebuild when a module file vanished mid-run"""
    import os, time
    for attempt in range(4):
        try:
            impl = vlib.build_impl()
            for d in impl.values():
                os.utime(os.path.dirname(d))
            return vlib.run_impl_many(RUNNER, payloads, configs, timeout=timeout)
        except vlib.InfraError as e:
            if attempt == 3 or not any(k in str(e) for k in ("No module named", "No such file", "ImportError", "cannot import")):
                raise
            time.sleep(3)


def run_impl_cases(cases):
    size = max(1, (len(cases) + vlib.NPROC - 1) // vlib.NPROC)
    parts = list(vlib.chunks(cases, size))
    res = impl_many([{"cases": p} for p in parts], [("compiled", 0)], 1800)
    C, O, F = [], [], []
    for i in range(len(parts)):
        r = res[(i, "compiled", 0)]
        C += r["ctor"]; O += r["obs"]; F += r["fail"]
    return C, O, F


def model_mismatches(ctx, cases, C, O, tag):
    groups = list(vlib.chunks(list(range(len(cases))), max(1, min(200, (len(cases) + vlib.NPROC - 1) // vlib.NPROC))))
    texts, maps, mism = [], [], []
    for g in groups:
        items, ids = [], []
        for i in g:
            e = emit_case(cases[i], C[i], O[i])
            if e is None:
                mism.append(i)
            else:
                items.append(e); ids.append(i)
        texts.append("From Coq Require Import List ZArith NArith.\nFrom XD Require Import model.Table model.TableSel model.TableRect run.RunTableRect.\n"
                     "Import ListNotations.\nDefinition cases : list rcase :=\n " + ";\n ".join(items).join(["[", "]"]) +
                     ".\nEval vm_compute in (mismatches cases).\n")
        maps.append(ids)
    for (rc, so, se), ids in zip(vlib.coq_eval_files(ctx, texts, tag), maps):
        lst = vlib.parse_nat_list(so) if rc == 0 else None
        if lst is None:
            raise vlib.InfraError(f"case file evaluation failed: rc={rc} {se[-800:]} {so[-300:]}")
        mism += [ids[k] for k in lst]
    return sorted(set(mism))


def first_failure(cases, F):
    best = None
    for ci, fl in enumerate(F):
        for step, f in enumerate(fl):
            if f:
                key = (len(cases[ci]["ops"]), ci)
                if best is None or key < best[0]:
                    best = (key, ci, step, f)
                break
    return best


def fails(case):
    r = vlib.run_impl(RUNNER, {"cases": [case]})
    return any(r["fail"][0])


def shrink(case):
    """drop operations (keeping order) while the oracle still fails"""
    ops = list(case["ops"])
    i = 0
    while i < len(ops):
        cand = dict(case, ops=ops[:i] + ops[i + 1:])
        if fails(cand):
            ops = cand["ops"]
        else:
            i += 1
    return dict(case, ops=ops)


def run(ctx):
    n = ctx.pick(4000, 150000)
    ctx.rule = (f"{n} random tables (0..8 rows; index + 0..4 float/int/string/object columns and columns holding one vector or 2x2 matrix per row "
                "(shapes (n,2), (n,3), (n,2,2); length = first axis); 0-2 scalars; sometimes a non-column array; "
                "~15% malformed constructor arguments: unequal lengths, index absent / naming a header scalar or an unlisted array, the index-name entry itself a scalar, "
                "a scalar or a missing key listed; also explicit col_names subsets, another column as index, col_names=None, sep_* / cast_strings arguments) x random chains of <=6 (<=8 with stays) operations among rows[positions|slice|mask], cols[names and "
                "arithmetic expressions, also with a name requested twice in the string and list forms, often followed by + or *], +, *, Table.concatenate, _copy, _t, assignment of arrays/scalars to keys drawn from one pool "
                "(existing column, scalar entry -> column promotion, new column, new scalar, wrong-length array), del, t['expr'] / t.cols['expr']; "
                "in 3/4 of the chains derivations are, with probability 0.4/0.7/1, made from a table that stays current, so that "
                "selections and assignments interleave on one source table; "
                "a quarter of the tables name columns and scalars like entries of the math namespace of xdeps.table (numpy ufuncs, np; "
                "list read at run time) and evaluate t[expr], t[expr,row], t.cols[expr] over them (scalars included): the table's entry "
                "must win; a fifth of the chains alternate between a table and a table derived from it that shares its column arrays (cols[..], "
                "_copy, row slices): expressions asked of both, existing columns and cells assigned in place through either (item, attribute, "
                "cell by position / name), and every expression asked before is asked again after every mutation; non-trivial = at least two successful derivations of different kinds in one chain; distinct by (table, chain)")
    proof_ok = vlib.standard_proof_part(ctx, "props/C14.v", allowed_axioms=(), extra_targets=["run/RunTableRect.vo"])
    # the names of the table's math namespace, by introspection of xdeps.table in the build under test
    mathnames = tuple(vlib.run_impl(RUNNER, {"meta": "gblmath"})["gblmath"])
    cases = [gen_case(ctx.rng, mathnames=mathnames) for _ in range(n)]
    C, O, F = run_impl_cases(cases)
    mism = model_mismatches(ctx, cases, C, O, "c")
    dist, errs, lens = {}, {}, {}
    for c, c0, ob in zip(cases, C, O):
        kinds = set()
        promoted, seen_sel, after_prom = False, False, False
        scal_now = {k for k, kd, _ in c["data"] if k not in (c["col_names"] or [])}
        for op, o in zip(c["ops"], ob):
            stay = op[0] == "stay"
            if stay:
                op = op[1]
                dist["stay"] = dist.get("stay", 0) + 1
            if op[0] == "ond":
                dist["ond:" + op[1][0]] = dist.get("ond:" + op[1][0], 0) + 1
                if o[0] == "err":
                    errs[o[1]] = errs.get(o[1], 0) + 1
                continue
            dist[op[0]] = dist.get(op[0], 0) + 1
            if o[0] == "err":
                errs[o[1]] = errs.get(o[1], 0) + 1
                continue
            if op[0] not in ("set", "setattr", "setcell", "expr", "del"):
                kinds.add(op[0])
            # scalar -> column promotion between two selections on the same table
            if op[0] in ("rows", "cols") and stay:
                if promoted:
                    after_prom = True
                seen_sel = True
            elif op[0] == "set" and seen_sel and op[1] in scal_now and op[1] in [x for x, _ in o[1]["cols"]]:
                promoted = True
            elif op[0] in DERIVE and not stay:
                promoted = seen_sel = False
            if o[0] == "ok" and op[0] in ("set", "del") or not stay:
                scal_now = set(o[1]["scalars"])
        if after_prom:
            dist["select/promote-scalar/select on one table"] = dist.get("select/promote-scalar/select on one table", 0) + 1
        if c0[0] == "err":
            errs["ctor:" + c0[1]] = errs.get("ctor:" + c0[1], 0) + 1
        lens[len(c["ops"])] = lens.get(len(c["ops"]), 0) + 1
        if len(kinds) >= 2:
            ctx.nontrivial.add(json.dumps(c, sort_keys=True))
        ctx.evaluations += 1 + len(c["ops"])
    ctx.traces = len(cases)
    ctx.cov["input_distribution"] = {"cases": len(cases), "ops": dist, "errors_observed": errs, "chain_length_hist": lens}
    ctx.samples = [{"case": cases[1], "ctor": C[1], "impl": O[1]}, {"case": cases[len(cases) // 2], "impl": O[len(cases) // 2]}]
    bad = first_failure(cases, F)
    ctx.obligations.append(("correspondence: model shapes/errors = implementation after every step; model states rectangular", not mism, f"{len(mism)} mismatching cases"))
    ctx.obligations.append(("oracle: every derived table rectangular, index listed, scalars carried, source untouched, expressions element-wise",
                            bad is None, "" if bad is None else str(bad[3])[:300]))
    if bad is not None:
        _, ci, step, f = bad
        small = shrink(cases[ci])
        r = vlib.run_impl(RUNNER, {"cases": [small]})
        vlib.violation(ctx, {"kind": "oracle", "what": "a table produced by the API is not rectangular / a source changed / scalars lost / expression not element-wise",
                             "case": small, "impl": r["obs"][0], "failures": r["fail"][0], "how_to_replay": "./check C14 --replay <this file>"})
    elif mism or not proof_ok:
        what = list(getattr(ctx, "broken", []))
        if mism:
            i = mism[0]
            what.append(f"correspondence model/TableRect.v vs xdeps.table.Table broke on {len(mism)} cases, first: {json.dumps(cases[i])} ctor={json.dumps(C[i])} impl={json.dumps(O[i])}")
        extra = [gen_case(ctx.rng, maxops=8, mathnames=mathnames) for _ in range(6000)]
        C2, O2, F2 = run_impl_cases(extra)
        b2 = first_failure(extra, F2)
        if b2 is not None:
            small = shrink(extra[b2[1]])
            r = vlib.run_impl(RUNNER, {"cases": [small]})
            vlib.violation(ctx, {"kind": "oracle", "case": small, "impl": r["obs"][0], "failures": r["fail"][0], "also_broken": what})
        else:
            vlib.violation(ctx, {"kind": "proof-or-correspondence", "no_longer_checks": what,
                                 "searched": f"{len(cases)} + {len(extra)} random chains with the rectangularity/source/scalar/expression oracle: no failing input"},
                           no_input=True)


def replay(ctx, data):
    case = data.get("case")
    if not case:
        print("replay file names a broken theorem/correspondence, no concrete input:", data.get("no_longer_checks"))
        return 1
    r = vlib.run_impl(RUNNER, {"cases": [case]})
    print(json.dumps({"ctor": r["ctor"][0], "impl": r["obs"][0], "failures": r["fail"][0]}, indent=1))
    if any(r["fail"][0]):
        print("VIOLATION property=C14 replay=(given) :", [f for f in r["fail"][0] if f][0])
        return 1
    print("replay: every derived table is rectangular and every source untouched on this case")
    return 0
