"""C07 — table rows addressed by name resolve against the current index column.

Proof part : coq/props/C07.v (cache refines scan, coherence over every API
             operation, resolution on every reachable state, label round trip).
Tie        : hand-written model coq/model/Table.v, correspondence on generated
             operation sequences (model evaluated by vm_compute inside coqc)
             + the linear-scan oracle run on the real Table for every case.
"""
import json, itertools, re
import vlib
from vlib import cz, cn, clist, copt

NAMES = ["a", "b", "c", "d", "e"]
COLS = ["x", "y"]


def split_sel(text):
    m = re.match(r"^(.*?)(?:::([+-]?\d+))?(?:(<<|>>)([+-]?\d+))?$", text)
    name, cnt, d, k = m.groups()
    off = -int(k) if d == "<<" else int(k) if d == ">>" else 0
    return name, (None if cnt is None else int(cnt)), off


def blanked(rng, alpha):
    """one case in six uses row names with leading / trailing blanks next to their
    bare forms (' a', 'a', 'b ', ' c '): a name is the exact string"""
    if rng.random() > 1 / 6:
        return alpha
    out = []
    for a in alpha:
        out += rng.sample([a, " " + a, a + " ", " " + a + " ", "  " + a], rng.choice([1, 2, 2]))
    return out[:6]


def gen_rowsel(rng, n, alpha):
    k = rng.random()
    name = rng.choice(alpha + ["zz"] if rng.random() < 0.1 else alpha)
    cnt = rng.choice([None, 0, 0, 1, 1, 2, 3, -1, -1, -2, -3, 5, -6])
    off = rng.choice([0, 0, 0, 1, -1, 2, -2, 7])
    if k < 0.08:
        return ["int", rng.randint(-n - 1, n)]
    if k < 0.6:
        s = name
        if cnt is not None:
            s += f"::{cnt}"
        if off > 0:
            s += f">>{off}"
        elif off < 0:
            s += f"<<{-off}"
        return ["str", s]
    if k < 0.82:
        return ["tup2", name, 0 if cnt is None else cnt]
    return ["tup3", name, 0 if cnt is None else cnt, off]


def gen_case(rng, maxrows=12, maxops=12):
    alpha = blanked(rng, NAMES[:rng.choice([2, 3, 3, 4, 5])])
    n = rng.choice([0, 1, 2, 3, 4, 5, 6, 8, 10, maxrows])
    idx = [rng.choice(alpha) for _ in range(n)]
    ncols = rng.choice([0, 1, 2])
    cols = [[COLS[i], [rng.randint(-50, 50) for _ in range(n)]] for i in range(ncols)]
    present = [c for c, _ in cols]
    ops = []
    for _ in range(rng.randint(1, maxops)):
        k = rng.random()
        if k < 0.22:
            ops.append([rng.choice(["getindex", "floordiv"]), gen_rowsel(rng, n, alpha)])
        elif k < 0.45:
            ops.append(["getcell", rng.choice(["name"] + present), gen_rowsel(rng, n, alpha)])
        elif k < 0.62:
            ops.append(["setcell", "name", gen_rowsel(rng, n, alpha), rng.choice(alpha + ["f"])])
        elif k < 0.70 and present:
            ops.append(["setcell", rng.choice(present), gen_rowsel(rng, n, alpha), rng.randint(-50, 50)])
        elif k < 0.80:
            m = n if rng.random() < 0.9 else n + 1
            ops.append(["setidxcol", [rng.choice(alpha) for _ in range(m)], rng.choice(["item", "attr"])])
        elif k < 0.83:
            ops.append(["setidxscalar", rng.choice(alpha)])
        elif k < 0.90:
            c = rng.choice(COLS)
            if n == 0 and c not in present:
                continue  # a zero-length new entry is indistinguishable from a scalar: outside the model
            ops.append(["setcol", c, [rng.randint(-50, 50) for _ in range(n)], rng.choice(["item", "attr"])])
            if c not in present:
                present.append(c)
        elif k < 0.94 and present:
            c = rng.choice(present)
            present.remove(c)
            ops.append(["delcol", c])
        else:
            ops.append(["unique"])
    return {"idx": idx, "cols": cols, "ops": ops}


LONG_ALPHAS = [[" a", "a ", "ab"], ["ip", "mq"], ["ip", "mq", "mb"], ["aa", "bb", "cc", "dd"], ["\u00e91", "\u00df2", "ip"], ["mq", "Mq", "MQ"]]


def gen_long_case(rng):
    """long index columns (17..200 rows) over a small alphabet, so that every
    name is repeated many times: every occurrence number (also negative, out of
    range) in string / tuple form with offsets, get_index_unique labels, and the
    same again after renaming a row; object and fixed-width unicode columns"""
    alpha = rng.choice(LONG_ALPHAS)
    n = rng.choice([17, 18, 19, 20, 24, 32, 33, 48, 64, 65, 100, 128, 150, 200, rng.randint(17, 200), rng.randint(17, 60)])
    w = [rng.choice([1, 2, 5]) for _ in alpha]
    idx = rng.choices(alpha, weights=w, k=n)
    case = {"idx": idx, "cols": [["x", [rng.randint(-50, 50) for _ in range(n)]]],
            "idx_dtype": rng.choice(["object", "unicode"]), "ops": []}
    cur = list(idx)

    def lookups(k):
        out = []
        for _ in range(k):
            name = rng.choice(alpha)
            m = cur.count(name)
            cnt = rng.choice([rng.randint(-m - 1, m), rng.randint(0, max(m - 1, 0)), -rng.randint(1, max(m, 1)), m - 1, -m, 0, -1])
            off = rng.choice([0, 0, 0, 1, -1, 2, -3])
            z = rng.random()
            if z < 0.45:
                r = ["str", name + f"::{cnt}" + (f">>{off}" if off > 0 else f"<<{-off}" if off < 0 else "")]
            elif z < 0.75:
                r = ["tup2", name, cnt]
            else:
                r = ["tup3", name, cnt, off]
            y = rng.random()
            out.append([rng.choice(["getindex", "floordiv"]), r] if y < 0.6 else ["getcell", rng.choice(["name", "x"]), r])
        return out

    case["ops"] += lookups(30) + [["unique"]]
    for _ in range(rng.randint(0, 2)):
        if rng.random() < 0.7:
            i = rng.randrange(n)
            v = rng.choice(alpha)
            case["ops"].append(["setcell", "name", ["int", i], v])
            cur[i] = v
        else:
            cur = rng.choices(alpha, k=n)
            case["ops"].append(["setidxcol", list(cur), rng.choice(["item", "attr"])])
        case["ops"] += lookups(15) + ([["unique"]] if rng.random() < 0.5 else [])
    return case


def gen_derive_case(rng):
    """lookup / derive / lookup chains: name lookups on the current table (they
    build its row-name cache), then either a derivation of the Table API that
    makes a new table object the current one (t + t, t + t.rows[..], t * k,
    _copy, rows[..], cols[..], Table.concatenate, _t) or an in-place change of
    WHICH column is the index (t._index = another string column, back and
    forth; the index column deleted by del / pop and assigned again), then
    lookups on the result over the whole range of occurrence numbers of its own
    index column (names only in the appended part, negative counts, counts
    beyond the source's occurrences, writes by name::-1, get_index_unique),
    repeated 1-3 times.  In the operations "name" stands for the current index column."""
    alpha = blanked(rng, NAMES[:rng.choice([2, 3, 3])])
    n = rng.randint(1, 8)
    idx = [rng.choice(alpha) for _ in range(n)]
    cols = [[COLS[i], [rng.randint(-50, 50) for _ in range(n)]] for i in range(rng.choice([0, 1, 2]))]
    scols = [[c, [rng.choice(alpha) for _ in range(n)]] for c in ["alt", "alt2"][:rng.choice([0, 1, 1, 2])]]
    case = {"idx": idx, "cols": cols, "scols": scols, "ops": [], "derive": True}
    S = {"name": list(idx)}                 # the string columns (best effort picture; verdicts never use it)
    S.update({c: list(v) for c, v in scols})
    st = {"idx": "name", "present": [c for c, _ in cols], "transposed": False, "concatenated": False}
    st["order"] = ["name"] + st["present"] + [c for c, _ in scols]          # _col_names of the current table

    def cur():
        return S[st["idx"]]

    def remap(f):
        for k in list(S):
            S[k] = f(S[k])

    def sel():
        m = len(cur())
        if rng.random() < 0.6:
            l = [rng.randint(-m, m - 1) if rng.random() < 0.97 else m for _ in range(rng.randint(0, min(m + 1, 5)))]
            return ["poslist", l], (l if all(-m <= i < m for i in l) else None)
        lo, hi = rng.choice([None, rng.randint(-m - 1, m + 1)]), rng.choice([None, rng.randint(-m - 1, m + 1)])
        return ["slice", lo, hi], list(range(m))[slice(lo, hi)]

    def lookups(k, writes=True):
        out = []
        c0 = cur()
        names = sorted(set(c0)) + (["zz"] if rng.random() < 0.2 else [])
        for _ in range(k):
            name = rng.choice(names)
            m = c0.count(name)
            cnt = rng.choice([rng.randint(-m - 1, m), m - 1, -m, -1, 0, rng.randint(0, max(m - 1, 0)), None])
            off = rng.choice([0, 0, 0, 1, -1])
            z = rng.random()
            if z < 0.45 or cnt is None:
                r = ["str", name + ("" if cnt is None else f"::{cnt}") + (f">>{off}" if off > 0 else f"<<{-off}" if off < 0 else "")]
            elif z < 0.75:
                r = ["tup2", name, cnt]
            else:
                r = ["tup3", name, cnt, off]
            y = rng.random()
            if y < 0.5:
                out.append([rng.choice(["getindex", "floordiv"]), r])
            elif y < 0.8 or not writes:
                out.append(["getcell", rng.choice(["name"] + ([] if st["transposed"] else st["present"])), r])
            else:
                v = rng.choice(sorted(set(c0)))
                out.append(["setcell", "name", r, v])
                ps = [i for i, x in enumerate(c0) if x == name]
                c = 0 if cnt is None else cnt
                if c < 0:
                    c += len(ps)
                if 0 <= c < len(ps) and -len(c0) <= ps[c] + off < len(c0):
                    c0[ps[c] + off] = v
        if rng.random() < 0.4:
            out.append(["unique"])
        return out

    for _ in range(rng.randint(1, 3)):
        case["ops"] += lookups(rng.randint(1, 4), writes=rng.random() < 0.3)      # on the source: builds its cache
        alts = [c for c in S if c != st["idx"]]
        kinds = ["d_addself", "d_addself", "d_addrows", "d_addrows", "d_mul", "d_mul", "d_copy", "d_rows"]
        if not st["transposed"] and len(st["order"]) >= 2 and cur():
            kinds += ["d_reindex", "d_reindex", "d_reindex"]
        if not st["transposed"] and alts:
            kinds += ["d_repoint"] * 5
        if not st["transposed"]:
            # Table.concatenate orders the columns by iterating a set (no _t, whose index column is the
            # column list, after it) and makes "name" the index again (not while another column is the index)
            kinds += ["d_cols"] + (["d_concat", "d_concat"] if st["idx"] == "name" else []) + ([] if st["concatenated"] else ["d_t"])
        kd = rng.choice(kinds)
        if len(cur()) > 40 and kd in ("d_addself", "d_addrows", "d_mul", "d_concat"):
            kd = "d_rows"
        if kd == "d_addself":
            case["ops"].append([kd]); remap(lambda l: l + l)
        elif kd == "d_addrows":
            sj, ps = sel()
            case["ops"].append([kd, sj])
            if ps is not None:
                remap(lambda l: l + [l[i] for i in ps])
        elif kd == "d_mul":
            k = rng.choice([0, 1, 2, 2, 3])
            case["ops"].append([kd, k])
            if k > 0:
                remap(lambda l: l * k)
        elif kd == "d_copy":
            case["ops"].append([kd])
        elif kd == "d_rows":
            sj, ps = sel()
            case["ops"].append([kd, sj])
            if ps is not None:
                remap(lambda l: [l[i] for i in ps])
        elif kd == "d_cols":
            keep = [c for c in st["present"] if rng.random() < 0.6]
            rng.shuffle(keep)
            case["ops"].append([kd, keep]); st["present"] = keep; st["order"] = [st["idx"]] + keep
            for c in alts:                      # the other string columns are not selected
                del S[c]
        elif kd == "d_concat":
            ss, ok, add = [], True, []
            for _ in range(rng.randint(0, 2)):
                sj, ps = sel()
                ss.append(sj); ok = ok and ps is not None; add += ps or []
            case["ops"].append([kd, ss])
            if ok:
                remap(lambda l: l + [l[i] for i in add])
            st["concatenated"] = True
        elif kd == "d_repoint":
            # t._index = '<another string column>': that column is the index now, the former one an ordinary column
            c = rng.choice(alts)
            case["ops"].append([kd, c, st["idx"]])
            st["idx"] = c
        elif kd == "d_reindex":
            # delete / pop the index column, assign a column with the index name again (other content)
            S[st["idx"]] = [rng.choice(alpha) for _ in range(len(cur()))]
            case["ops"].append([kd, list(cur()), rng.choice(["del", "pop"]), rng.choice(["item", "attr"])])
            st["order"] = [x for x in st["order"] if x != st["idx"]] + [st["idx"]]
            if rng.random() < 0.5 and st["present"]:          # an ordinary column removed and created again as well
                c = rng.choice(st["present"])
                case["ops"].append(["delcol", c, rng.choice(["del", "pop"])])
                case["ops"].append(["setcol", c, [rng.randint(-50, 50) for _ in range(len(cur()))], rng.choice(["item", "attr"])])
                st["order"] = [x for x in st["order"] if x != c] + [c]
                st["present"] = [x for x in st["order"] if x in st["present"]]
        else:
            labels = list(st["order"])
            case["ops"].append([kd, list(labels)])      # the labels: column names of the source, in its order
            S.clear(); S["columns"] = labels
            st["idx"], st["transposed"], st["present"], st["order"] = "columns", True, [], ["columns"]
        if not cur():
            break
        case["ops"] += lookups(rng.randint(3, 8))                                    # on the derived table
    return case


# ---- several tables with their own separators alive in one process ---------------------

SEP_COUNT, SEP_PREV, SEP_NEXT = ["::", "##", "@"], ["<<", "<-", "<|"], [">>", "->", "|>"]


def doc_split(text, seps):
    """Table._split_name_count_offset as documented, for a table with the given
    separators; ValueError when a count / offset part is not an integer"""
    sc, sp, sn = seps
    name, count, offset = text, None, 0
    if sp in name:
        name, o = name.split(sp, 1)
        offset -= int(o)
    elif sn in name:
        name, o = name.split(sn, 1)
        offset += int(o)
    if sc in name:
        name, c = name.split(sc, 1)
        count = int(c)
    return name, count, offset


def splits_ok(text, seps):
    try:
        doc_split(text, seps)
        return True
    except ValueError:
        return False


def gen_multi_case(rng):
    """2-3 tables alive in one process whose separators differ (constructor
    arguments; sometimes changed later by t._sep_count = ...), row names that
    contain ANOTHER table's separators as ordinary characters, and the same
    selector texts sent to each of them in random interleaving through every
    route (get_index, //, table[col,row], table[index,row] = v, get_index_unique),
    lookups that raise KeyError included"""
    nt = rng.choice([2, 2, 3])
    while True:
        seps = [[rng.choice(SEP_COUNT), rng.choice(SEP_PREV), rng.choice(SEP_NEXT)] for _ in range(nt)]
        if len({tuple(x) for x in seps}) == nt:
            break
    base = ["x", "y", "z"]

    def sel_text(tr, name=None):
        nm = name or rng.choice(base)
        cnt = rng.choice([None, 0, 1, 1, 2, -1, -2])
        off = rng.choice([0, 0, 0, 1, -1, 2])
        t = nm + ("" if cnt is None else f"{tr[0]}{cnt}")
        return t + (f"{tr[2]}{off}" if off > 0 else f"{tr[1]}{-off}" if off < 0 else "")

    def free_of(text, tr):
        return not any(sp in text for sp in tr)

    # half of the scenarios have tables of one length, so that a whole column of one table
    # can be assigned to another (data flowing between live tables)
    same_len, n_common = rng.random() < 0.5, rng.randint(2, 8)
    tables, alphas = [], []
    for k in range(nt):
        # names that look like count/offset selectors of the other tables
        odd = [t for j in range(nt) if j != k for t in (sel_text(seps[j]) for _ in range(4))]
        alpha = base + [t for t in odd if t not in base and all(free_of(t, seps[j]) for j in [k])][:rng.choice([0, 1, 2])]
        n = n_common if same_len else rng.randint(2, 8)
        idx = [rng.choice(alpha) for _ in range(n)]
        tables.append({"idx": idx, "cols": [["x", [rng.randint(-50, 50) for _ in range(n)]]], "seps": list(seps[k])})
        alphas.append(alpha)
    cur_seps = [list(x) for x in seps]
    steps = []
    for _ in range(rng.randint(3, 8)):
        k0 = rng.randrange(nt)
        text = sel_text(cur_seps[k0], rng.choice(alphas[k0])) if rng.random() < 0.8 else rng.choice(alphas[k0])
        order = list(range(nt))
        rng.shuffle(order)
        for k in order + ([rng.randrange(nt)] if rng.random() < 0.3 else []):
            if not splits_ok(text, cur_seps[k]):
                continue        # int('1<-2'): ValueError, not a selector of that table
            z = rng.random()
            if z < 0.45:
                steps.append([k, [rng.choice(["getindex", "floordiv"]), ["str", text]]])
            elif z < 0.7:
                steps.append([k, ["getcell", rng.choice(["name", "x"]), ["str", text]]])
            elif z < 0.85:
                steps.append([k, ["setcell", "name", ["str", text], rng.choice(alphas[k])]])
            else:
                steps.append([k, ["unique"]])
        if same_len and rng.random() < 0.35:
            # t[index] = u[index]: the other table's array itself, a copy, or a list; afterwards cells of
            # BOTH tables are renamed and names looked up on both (each must follow its own column only)
            k, j = rng.sample(range(nt), 2)
            if all(free_of(a, cur_seps[k]) for a in alphas[j]):
                steps.append([k, ["setidxfrom", j, rng.choice(["array", "array", "copy", "list"]), rng.choice(["item", "attr"])]])
                alphas[k] = list(dict.fromkeys(alphas[k] + alphas[j]))
                for who in (k, j, k, j):
                    nm = rng.choice(alphas[who])
                    z = rng.random()
                    if z < 0.4:
                        steps.append([who, ["getindex", ["tup2", nm, rng.choice([0, 1, -1])]]])
                    elif z < 0.75:
                        steps.append([who, ["setcell", "name", ["int", rng.randint(-n_common, n_common - 1)], rng.choice(alphas[who])]])
                    else:
                        steps.append([who, ["setcell", "name", ["tup2", nm, rng.choice([0, -1])], rng.choice(alphas[who])]])
                for who in (k, j):
                    nm = rng.choice(alphas[who])
                    steps.append([who, [rng.choice(["getindex", "floordiv"]), ["tup2", nm, rng.choice([0, 1, -1])]]])
                    steps.append([who, ["unique"]])
        if rng.random() < 0.25:
            # t._sep_* = ... : only to a value that no name of that table contains
            k = rng.randrange(nt)
            i = rng.randrange(3)
            v = rng.choice([SEP_COUNT, SEP_PREV, SEP_NEXT][i])
            new = list(cur_seps[k]); new[i] = v
            if all(free_of(a, new) for a in alphas[k]):
                steps.append([k, ["setsep", ["count", "previous", "next"][i], v]])
                cur_seps[k] = new
    return {"idx": [], "cols": [], "ops": [], "multi": {"tables": tables, "steps": steps}}


def emit_multi_cases(cases, results):
    """one case file of multi-table scenarios; the split oracle as an explicit table"""
    N = vlib.Interner()
    SP = vlib.Interner()          # separator triples
    split_entries, items, ids, unrep = {}, [], [], []

    def use(seps, text):
        nm, cnt, off = doc_split(text, seps)
        if (nm, cnt, off) != (text, None, 0):
            split_entries[(SP(tuple(seps)), N(text))] = f"(({cn(SP(tuple(seps)))}, {cn(N(text))}), ({cn(N(nm))}, {copt(cnt, cz)}, {cz(off)}))"
        return cn(N(text))

    for i, (c, res) in enumerate(zip(cases, results)):
        m = c["multi"]
        seps = [list(t["seps"]) for t in m["tables"]]
        tabs = [f"(mkStab {cn(SP(tuple(t['seps'])))} (mkTable {clist([cn(N(x)) for x in t['idx']])} " +
                clist([f"({cn(N('col:' + k))}, {clist([cz(v) for v in vals])})" for k, vals in t["cols"]]) + " None))" for t in m["tables"]]
        steps, ok = [], True
        rs = [emit_result(r, N) for r in res]
        if any(r is None for r in rs):
            unrep.append(i)
            continue
        for k, op in m["steps"]:
            kind = op[0]
            if kind == "setidxfrom":
                steps.append(f"({k}%nat, MSetIdxFrom {op[1]}%nat)")
            elif kind == "setsep":
                j = ["count", "previous", "next"].index(op[1])
                seps[k][j] = op[2]
                steps.append(f"({k}%nat, MSetSeps {cn(SP(tuple(seps[k])))} {'true' if op[1] == 'count' else 'false'})")
            elif kind in ("getindex", "floordiv") and op[1][0] == "str":
                steps.append(f"({k}%nat, MGetIndex {use(seps[k], op[1][1])})")
            elif kind == "getcell" and op[2][0] == "str":
                cr = "CIdx" if op[1] == "name" else f"(CCol {cn(N('col:' + op[1]))})"
                steps.append(f"({k}%nat, MGetCell {cr} {use(seps[k], op[2][1])})")
            elif kind == "setcell" and op[1] == "name" and op[2][0] == "str":
                steps.append(f"({k}%nat, MSetCellN {use(seps[k], op[2][1])} {cn(N(op[3]))})")
            else:
                steps.append(f"({k}%nat, MOp ({emit_op(op, N)}))")
        items.append(f"({clist(tabs)},\n  {clist(steps)},\n  {clist(rs)})")
        ids.append(i)
    text = ("From Coq Require Import List ZArith NArith.\nFrom XD Require Import model.Table model.TableMulti run.RunTable run.RunTableMulti.\n"
            "Import ListNotations.\nDefinition sp : splittab := " + clist(list(split_entries.values())) + ".\n"
            "Definition cases : list mtcase :=\n " + ";\n ".join(items).join(["[", "]"]) + ".\nEval vm_compute in (mtmismatches sp cases).\n")
    return text, ids, unrep


def small_scope_cases(maxlen):
    """every index column over a 3-name alphabet up to maxlen x every
    name/count/offset selector form (exhaustive for C07's lookup clause)."""
    cases = []
    sels = []
    for nm in ["a", "b", "c"]:
        for cnt in [None, 0, 1, 2, 3, -1, -2, -3, -4]:
            for off in [0, 1, -1]:
                s = nm + ("" if cnt is None else f"::{cnt}") + (f">>{off}" if off > 0 else f"<<{-off}" if off < 0 else "")
                sels.append(["str", s])
            sels.append(["tup2", nm, 0 if cnt is None else cnt])
    for L in range(maxlen + 1):
        for idx in itertools.product(["a", "b", "c"], repeat=L):
            ops = [["getindex", s] for s in sels] + [["unique"]]
            if L:
                ops += [["setcell", "name", ["int", 0], "c"]] + [["getcell", "name", s] for s in sels[::3]]
            cases.append({"idx": list(idx), "cols": [], "ops": ops})
    return cases


# ---- Coq emission -------------------------------------------------------------

def emit_rowsel(r, N):
    k = r[0]
    if k == "int":
        return f"(RInt {cz(r[1])})"
    if k == "str":
        name, cnt, off = split_sel(r[1])
        return f"(RStr {cn(N(r[1]))} {cn(N(name))} {copt(cnt, cz)} {cz(off)})"
    if k == "tup2":
        return f"(RTup2 {cn(N(r[1]))} {cz(r[2])})"
    return f"(RTup3 {cn(N(r[1]))} {cz(r[2])} {cz(r[3])})"


def emit_op(op, N):
    k = op[0]
    if k in ("getindex", "floordiv"):
        return f"OGetIndex {emit_rowsel(op[1], N)}"
    if k == "getcell":
        c = "CIdx" if op[1] == "name" else f"(CCol {cn(N('col:' + op[1]))})"
        return f"OGetCell {c} {emit_rowsel(op[2], N)}"
    if k == "setcell":
        if op[1] == "name":
            return f"OSetCellN {emit_rowsel(op[2], N)} {cn(N(op[3]))}"
        return f"OSetCellZ {cn(N('col:' + op[1]))} {emit_rowsel(op[2], N)} {cz(op[3])}"
    if k == "setidxcol":
        return f"OSetIdxCol {clist([cn(N(x)) for x in op[1]])}"
    if k == "setidxscalar":
        return f"OSetIdxScalar {cn(N(op[1]))}"
    if k == "setcol":
        return f"OSetCol {cn(N('col:' + op[1]))} {clist([cz(x) for x in op[2]])}"
    if k == "delcol":
        return f"ODelCol {cn(N('col:' + op[1]))}"
    if k == "unique":
        return "OUnique"
    raise ValueError(op)


def emit_result(r, N):
    k = r[0]
    if k == "pos":
        return f"RPos {cz(r[1])}"
    if k == "valz":
        return f"RValZ {cz(r[1])}"
    if k == "valn":
        return f"RValN {cn(N(r[1]))}"
    if k == "unit":
        return "RUnit"
    if k == "err" and r[1] in ("KeyError", "IndexError", "ValueError"):
        return f"RErr {r[1]}"
    if k == "labels":
        return "RLabels " + clist([f"({cn(N(a))}, {copt(b, cz)})" for a, b in r[1]])
    return None  # not representable: counted as a mismatch by the caller


def emit_case(case, results, N):
    rs = [emit_result(r, N) for r in results]
    if any(r is None for r in rs):
        return None
    t = f"(mkTable {clist([cn(N(x)) for x in case['idx']])} " + \
        clist([f"({cn(N('col:' + c))}, {clist([cz(v) for v in vals])})" for c, vals in case["cols"]]) + " None)"
    return f"({t}, {clist([emit_op(o, N) for o in case['ops']])}, {clist(rs)})"


def emit_idx(s):
    if s[0] == "poslist":
        return f"(IArr {clist([cz(x) for x in s[1]])})"
    return f"(ISlice {copt(s[1], cz)} {copt(s[2], cz)})"


def emit_dop(op, N):
    k = op[0]
    if k == "d_addself":
        return "DAddSelf"
    if k == "d_addrows":
        return f"DAddRows {emit_idx(op[1])}"
    if k == "d_mul":
        return f"DMul {cz(op[1])}"
    if k == "d_copy":
        return "DCopy"
    if k == "d_rows":
        return f"DRows {emit_idx(op[1])}"
    if k == "d_cols":
        return f"DCols {clist([cn(N('col:' + c)) for c in op[1]])}"
    if k == "d_concat":
        return f"DConcat {clist([emit_idx(x) for x in op[1]])}"
    if k == "d_t":
        return f"DT {clist([cn(N(c)) for c in op[1]])}"
    if k == "d_reindex":
        return f"DReindex {clist([cn(N(x)) for x in op[1]])}"
    if k == "d_repoint":
        return f"DRepoint {cn(N('col:' + op[1]))} {cn(N('col:' + op[2]))}"
    return f"DOp ({emit_op(op, N)})"


def emit_dcase(case, results, N):
    rs = [emit_result(r, N) for r in results]
    if any(r is None for r in rs):
        return None
    t = f"(mkTable {clist([cn(N(x)) for x in case['idx']])} " + \
        clist([f"({cn(N('col:' + c))}, {clist([cz(v) for v in vals])})" for c, vals in case["cols"]] +
              # the other string columns: names as integers (model/TableDerive.v)
              [f"({cn(N('col:' + c))}, {clist([cz(N(v)) for v in vals])})" for c, vals in case.get("scols", [])]) + " None)"
    return f"({t}, {clist([emit_dop(o, N) for o in case['ops']])}, {clist(rs)})"


def nontrivial(case):
    """a mutation of the index column followed by a name-based lookup, on a
    column with a repeated name"""
    seen_mut = False
    rep = len(set(case["idx"])) < len(case["idx"])
    for op in case["ops"]:
        if op[0] in ("setcell", "setidxcol", "setidxscalar") and (op[0] != "setcell" or op[1] == "name"):
            seen_mut = True
        elif seen_mut and op[0] in ("getindex", "floordiv", "getcell") and op[-1][0] != "int":
            return rep or True
    return False


def correspondence(ctx, cases, tag):
    """returns (oracle_failures, model_mismatches) as lists of case indices"""
    out = []
    parts = list(vlib.chunks(cases, max(1, (len(cases) + vlib.NPROC - 1) // vlib.NPROC)))
    impl = vlib.build_impl()
    from concurrent.futures import ThreadPoolExecutor
    with ThreadPoolExecutor(max_workers=vlib.NPROC) as ex:
        rs = list(ex.map(lambda p: vlib.run_impl("table_runner.py", {"cases": p}, impl=impl), parts))
    results, oracle = [], []
    for r in rs:
        results += r["results"]; oracle += r["oracle"]
    orc_fail = []
    for i, (res, orc) in enumerate(zip(results, oracle)):
        for j, (a, b) in enumerate(zip(res, orc)):
            if b is not None and a != b:
                orc_fail.append((i, j, a, b))
                break
    # model side
    texts, index_of = [], []
    unrepresentable = []
    # at most 250 cases per file, and few long tables per file (weight = rows x operations)
    groups = []
    multi_ids = [i for i, c in enumerate(cases) if "multi" in c]
    for derive in (False, True):       # lookup/derive/lookup chains use the evaluator of model/TableDerive.v
        curg, wsum = [], 0
        for i, c in enumerate(cases):
            if bool(c.get("derive")) != derive or "multi" in c:
                continue
            wgt = (len(c["idx"]) + 5) * (len(c["ops"]) + 1) * (4 if derive else 1)
            if curg and (len(curg) >= 250 or wsum + wgt > 60000):
                groups.append(curg); curg, wsum = [], 0
            curg.append(i); wsum += wgt
        if curg:
            groups.append(curg)
    for chunk_id, chunk in enumerate(groups):
        N = vlib.Interner()
        items, ids = [], []
        derive = bool(cases[chunk[0]].get("derive"))
        for i in chunk:
            e = (emit_dcase if derive else emit_case)(cases[i], results[i], N)
            if e is None:
                unrepresentable.append(i)
            else:
                items.append(e); ids.append(i)
        if derive:
            texts.append("From Coq Require Import List ZArith NArith.\nFrom XD Require Import model.Table model.TableSel model.TableDerive run.RunTableDerive.\n"
                         "Import ListNotations.\nDefinition cases : list dcase :=\n " + clist(items).replace("); (mkTable", ");\n (mkTable") +
                         ".\nEval vm_compute in (dmismatches cases).\n")
        else:
            texts.append("From Coq Require Import List ZArith NArith.\nFrom XD Require Import model.Table run.RunTable.\n"
                         "Import ListNotations.\nDefinition cases : list tcase :=\n " + clist(items).replace("); (mkTable", ");\n (mkTable") +
                         ".\nEval vm_compute in (mismatches cases).\n")
        index_of.append(ids)
    for g in vlib.chunks(multi_ids, 120):       # several tables with their own separators: model/TableMulti.v
        text, ids, unrep = emit_multi_cases([cases[i] for i in g], [results[i] for i in g])
        texts.append(text); index_of.append([g[k] for k in ids]); unrepresentable += [g[k] for k in unrep]
    mism = list(unrepresentable)
    for (rc, so, se), ids in zip(vlib.coq_eval_files(ctx, texts, tag), index_of):
        lst = vlib.parse_nat_list(so) if rc == 0 else None
        if lst is None:
            raise vlib.InfraError(f"case file evaluation failed: rc={rc} {se[-800:]} {so[-300:]}")
        mism += [ids[k] for k in lst]
    ctx.evaluations += sum(len(c["ops"]) + len(c.get("multi", {}).get("steps", [])) for c in cases)
    ctx.traces += len(cases)
    for c in cases:
        if nontrivial(c):
            ctx.nontrivial.add(json.dumps(c, sort_keys=True))
    return results, oracle, orc_fail, sorted(set(mism))


def shrink(case, fails):
    """delta-debug the op list while `fails(case)` stays true"""
    ops = list(case["ops"])
    i = 0
    while i < len(ops):
        cand = dict(case, ops=ops[:i] + ops[i + 1:])
        if cand["ops"] and fails(cand):
            ops = cand["ops"]
        else:
            i += 1
    return dict(case, ops=ops)


def shrink_multi(case):
    """drop steps of a multi-table scenario while the oracle still fails"""
    steps = list(case["multi"]["steps"])
    if not oracle_fails(case):
        return case
    i = 0
    while i < len(steps):
        cand = dict(case, multi=dict(case["multi"], steps=steps[:i] + steps[i + 1:]))
        if cand["multi"]["steps"] and oracle_fails(cand):
            steps = cand["multi"]["steps"]
        else:
            i += 1
    return dict(case, multi=dict(case["multi"], steps=steps))


def oracle_fails(case):
    r = vlib.run_impl("table_runner.py", {"cases": [case]})
    return any(b is not None and a != b for a, b in zip(r["results"][0], r["oracle"][0]))


def run(ctx):
    ctx.rule = ("random Table histories (0..12 rows, 2-5 names (one case in six: names with leading / trailing blanks next to their bare forms), 0-2 integer columns, <=12 ops mixing lookups in string/tuple/int form "
                "with cell/column/attribute assignments, new columns, deletions, get_index_unique) plus every index column over "
                "{a,b,c} up to length 3 (quick) / 5 (thorough) x every name/count/offset selector, plus 48 (quick) / 600 (thorough) long "
                "tables (17..200 rows over 2-4 names so that every name repeats many times; object and fixed-width unicode index columns; "
                "non-ASCII and case-variant names): 30+ lookups name::k / (name,k) / (name,k,off) over the whole range of k incl. negative "
                "and out of range, get_index_unique, then the same after renaming a row / replacing the column; plus 500 (quick) / 8000 (thorough) "
                "lookup / derive / lookup chains: name lookups on the current table, then t+t, t+t.rows[..], t*k, _copy, rows[..], cols[..], "
                "Table.concatenate or _t makes a new table object current, or the index is re-pointed to another string column (t._index = ..., back and forth), or the index column is deleted (del / pop) and assigned again under its name (item / attribute style; ordinary columns too), then lookups, writes by name::count and get_index_unique on the result "
                "over the whole range of occurrence numbers of ITS index column, 1-3 times; plus 300 (quick) / 5000 (thorough) scenarios with 2-3 tables "
                "alive in one process that differ in sep_count / sep_previous / sep_next (constructor arguments, sometimes t._sep_* = ... later), "
                "row names containing another table's separators, the same selector texts sent to each in random interleaving through "
                "get_index, //, table[col,row], table[index,row] = v and get_index_unique (KeyError included), and whole index columns assigned from "
                "one live table to another (the array object itself / a copy / a list) followed by cell renames and lookups on both; non-trivial = an index-column "
                "mutation followed by a name-based lookup; distinct by (table, ops)")
    proof_ok = vlib.standard_proof_part(ctx, "props/C07.v", allowed_axioms=(), extra_targets=["run/RunTable.vo", "run/RunTableDerive.vo", "run/RunTableMulti.vo"])
    n = ctx.pick(600, 12000)
    cases = small_scope_cases(ctx.pick(3, 5)) + [gen_case(ctx.rng) for _ in range(n)]
    # long tables last and few per case file (the literals are long)
    cases += [gen_long_case(ctx.rng) for _ in range(ctx.pick(48, 600))]
    cases += [gen_derive_case(ctx.rng) for _ in range(ctx.pick(500, 8000))]
    cases += [gen_multi_case(ctx.rng) for _ in range(ctx.pick(300, 5000))]
    results, oracle, orc_fail, mism = correspondence(ctx, cases, "c")
    ctx.samples = [{"case": cases[-1], "impl_results": results[-1]}, {"case": cases[len(cases) // 2], "impl_results": results[len(cases) // 2]}]
    dist = {}
    for c in cases:
        for op in c["ops"]:
            dist[op[0]] = dist.get(op[0], 0) + 1
    errs = {}
    for r in results:
        for x in r:
            if x[0] == "err":
                errs[x[1]] = errs.get(x[1], 0) + 1
    ctx.cov["input_distribution"] = {"ops": dist, "errors_observed": errs, "cases": len(cases),
                                     "rows_hist": {str(k): sum(1 for c in cases if len(c["idx"]) == k) for k in range(0, 13)},
                                     "long_tables_17_to_200_rows": sum(1 for c in cases if len(c["idx"]) >= 17),
                                     "unicode_index_columns": sum(1 for c in cases if c.get("idx_dtype") == "unicode"),
                                     "lookup_derive_lookup_chains": sum(1 for c in cases if c.get("derive")),
                                     "multi_table_separator_scenarios": sum(1 for c in cases if "multi" in c)}
    ctx.obligations.append(("correspondence: model = implementation on every generated history", not mism, f"{len(mism)} mismatching cases"))
    ctx.obligations.append(("oracle: linear scan of the current index column agrees with the implementation", not orc_fail, f"{len(orc_fail)} failing cases"))
    if orc_fail:
        # state shared between tables may outlive a case (a chunk of cases runs in one process):
        # prefer a case that fails when run alone in a fresh process
        i = orc_fail[0][0]
        for cand in sorted(orc_fail, key=lambda x: len(cases[x[0]]["ops"]) + len(cases[x[0]].get("multi", {}).get("steps", [])))[:40]:
            if oracle_fails(cases[cand[0]]):
                i = cand[0]
                break
        small = shrink_multi(cases[i]) if "multi" in cases[i] else shrink(cases[i], oracle_fails)
        r = vlib.run_impl("table_runner.py", {"cases": [small]})
        vlib.violation(ctx, {"kind": "oracle", "what": "table row resolution differs from a scan of the current index column",
                             "case": small, "impl_results": r["results"][0], "scan_oracle": r["oracle"][0],
                             "how_to_replay": "./check C07 --replay <this file>"})
    elif mism or not proof_ok:
        what = list(getattr(ctx, "broken", []))
        if mism:
            what.append(f"correspondence model/Table.v vs xdeps.table.Table broke on {len(mism)} cases, first: {json.dumps(cases[mism[0]])} impl={json.dumps(results[mism[0]])}")
        # bounded search for a concrete failing input with the oracle at thorough size
        extra = [gen_case(ctx.rng) for _ in range(3000)] + [gen_derive_case(ctx.rng) for _ in range(1500)]
        parts = list(vlib.chunks(extra, 250))
        found = None
        for p in parts:
            r = vlib.run_impl("table_runner.py", {"cases": p})
            for c, res, orc in zip(p, r["results"], r["oracle"]):
                if any(b is not None and a != b for a, b in zip(res, orc)):
                    found = c
                    break
            if found:
                break
        if found:
            small = shrink(found, oracle_fails)
            r = vlib.run_impl("table_runner.py", {"cases": [small]})
            vlib.violation(ctx, {"kind": "oracle", "case": small, "impl_results": r["results"][0], "scan_oracle": r["oracle"][0], "also_broken": what})
        else:
            vlib.violation(ctx, {"kind": "proof-or-correspondence", "no_longer_checks": what,
                                 "searched": f"{len(extra)} extra random histories + {len(cases)} cases with the linear-scan oracle: no failing input"}, no_input=True)


def replay(ctx, data):
    case = data.get("case")
    if not case:
        print("replay file names a broken theorem/correspondence, no concrete input:", data.get("no_longer_checks"))
        return 1
    r = vlib.run_impl("table_runner.py", {"cases": [case]})
    bad = [(a, b) for a, b in zip(r["results"][0], r["oracle"][0]) if b is not None and a != b]
    print(json.dumps({"impl": r["results"][0], "oracle": r["oracle"][0]}, indent=1))
    if bad:
        print(f"VIOLATION property=C07 replay=(given) : implementation {bad[0][0]} vs scan {bad[0][1]}")
        return 1
    print("replay: implementation agrees with the scan oracle on this case")
    return 0
