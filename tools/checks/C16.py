"""C16 - Newton step is the least-squares solution; scalings and Jacobians consistent.

Proof part : coq/props/C16.v (MathComp, exact arithmetic over any real field):
             normal equations / minimiser / minimum norm of the extracted lstsq
             formula with its masking and slicing rules, one Newton step lands on
             consistent full-column-rank affine problems, weights and rescale_x
             inverses, view Jacobians = finite differences for affine functions.
Tie        : tools/py2v/gen_opt.py -> coq/gen/GenOpt.v (ASTs; obligations by
             reflexivity / computation), and the extracted ASTs interpreted with
             numpy must reproduce the implementation's results.
Numerics   : tools/impl/lstsq_runner.py - VALIDATED, NOT PROVED: numpy's SVD is a
             decomposition, SVD.lstsq vs an independent min-norm reference and
             numpy.linalg.pinv, first step / solve() with and without Broyden on
             linear problems, round trips, view Jacobians vs central differences.
"""
import json, os, subprocess, math
import vlib

EPS = 2.220446049250313e-16


def hx(x):
    if isinstance(x, (list, tuple)):
        return [hx(v) for v in x]
    return float(x).hex()


def matmul(a, b):
    return [[sum(a[i][k] * b[k][j] for k in range(len(b))) for j in range(len(b[0]))] for i in range(len(a))]


def rand_orth(rng, n):
    """n x n orthogonal matrix by Gram-Schmidt on Gaussian columns"""
    while True:
        cols = []
        ok = True
        for _ in range(n):
            v = [rng.gauss(0, 1) for _ in range(n)]
            for c in cols:
                d = sum(x * y for x, y in zip(v, c))
                v = [x - d * y for x, y in zip(v, c)]
            nv = math.sqrt(sum(x * x for x in v))
            if nv < 1e-3:
                ok = False
                break
            cols.append([x / nv for x in v])
        if ok:
            return [[cols[j][i] for j in range(n)] for i in range(n)]


def with_singular_values(rng, m, n, s):
    """m x n matrix with (approximately) the given singular values"""
    k = min(m, n)
    P, Q = rand_orth(rng, m), rand_orth(rng, n)
    D = [[(s[i] if i == j and i < k else 0.0) for j in range(n)] for i in range(m)]
    return matmul(matmul(P, D), Q)


RCONDS = [None, None, 1e-14, 1e-8, 1e-3, 0.05, 0.3, 0.75, 0.0]


def gen_lstsq(rng, m=None, n=None):
    m = m or rng.randint(1, 6)
    n = n or rng.randint(1, 6)
    k = min(m, n)
    kind = rng.choice(["gauss", "gauss", "spectrum", "spectrum", "rankdef", "scaled", "tie", "int"])
    exact_s = None
    if kind == "gauss":
        A = [[rng.gauss(0, 1) for _ in range(n)] for _ in range(m)]
    elif kind == "int":
        A = [[float(rng.randint(-3, 3)) for _ in range(n)] for _ in range(m)]
    elif kind == "spectrum":
        s = sorted([10 ** rng.uniform(-6, 2) for _ in range(k)], reverse=True)
        A = with_singular_values(rng, m, n, s)
    elif kind == "rankdef":
        r = rng.randint(0, max(0, k - 1))
        B = [[rng.gauss(0, 1) for _ in range(r)] for _ in range(m)]
        C = [[rng.gauss(0, 1) for _ in range(n)] for _ in range(r)]
        A = matmul(B, C) if r else [[0.0] * n for _ in range(m)]
    elif kind == "scaled":
        rs = [10 ** rng.uniform(-4, 4) for _ in range(m)]
        cs = [10 ** rng.uniform(-4, 4) for _ in range(n)]
        A = [[rng.gauss(0, 1) * rs[i] * cs[j] for j in range(n)] for i in range(m)]
    else:  # tie: rectangular diagonal with powers of two: the decomposition is exact
        d = sorted([2.0 ** rng.randint(-6, 4) for _ in range(k)], reverse=True)
        A = [[(d[i] if i == j else 0.0) for j in range(n)] for i in range(m)]
        exact_s = [float(v).hex() for v in d]
        if rng.random() < 0.5:                        # permuted / sign-flipped diagonal: same singular values (judged only if numpy returns them exactly)
            rows = list(range(m))
            rng.shuffle(rows)
            A = [[A[r][j] * sg for j in range(n)] for r, sg in ((r, rng.choice([1.0, -1.0])) for r in rows)]
    b = [rng.gauss(0, 1) * rng.choice([1, 1, 1e3, 1e-3]) for _ in range(m)]
    if rng.random() < 0.15:       # a block of right-hand sides (m, p), the numpy.linalg.lstsq convention
        p = rng.choice([1, 2, 3, k])
        b = [[rng.gauss(0, 1) for _ in range(p)] for _ in range(m)]
    rcond = rng.choice(RCONDS)
    if kind == "tie" and rng.random() < 0.8:
        j = rng.randrange(k)
        rcond = d[j] / d[0]                     # rcond * s[0] == s[j] exactly (j = 0: rcond == 1.0)
        u = rng.random()
        if u < 0.2:
            rcond = math.nextafter(rcond, 0.0)        # one ulp below the ratio: s[j] is kept
        elif u < 0.4:
            rcond = math.nextafter(rcond, 2.0)        # one ulp above: s[j] is dropped
    ctor_rcond = rng.choice(["default", "default", None, 1e-6, 0.2])
    cutoff = rng.choice([None, None, None] + list(range(1, k + 1)) + [k + 2])
    ctor_cutoff = rng.choice([None, None, None] + list(range(1, k + 1)))
    # earlier calls on the same SVD object with other settings: the judged call must not depend on them
    pre = []
    if rng.random() < 0.35:
        for _ in range(rng.choice([1, 1, 2])):
            pr = rng.choice(RCONDS + [0.3, 0.05])
            pre.append([None if pr is None else float(pr).hex(), rng.choice([None, None] + list(range(1, k + 1)))])
    return {"kind": "lstsq", "mk": kind, "A": hx(A), "b": hx(b), "rcond": None if rcond is None else float(rcond).hex(),
            "ctor_rcond": ctor_rcond if ctor_rcond in ("default", None) else float(ctor_rcond).hex(),
            "cutoff": cutoff, "ctor_cutoff": ctor_cutoff, "exact_s": exact_s, "shape": [m, n], "pre_calls": pre}


def gen_problem(rng, kind, n=None, m=None):
    n = n or rng.randint(1, 4)
    m = m or rng.randint(n, 6)
    if kind == "view" and rng.random() < 0.4:
        m = rng.randint(1, 5)
    k = min(m, n)
    s = sorted([10 ** rng.uniform(0, math.log10(25)) for _ in range(k)], reverse=True)
    A = with_singular_values(rng, m, n, s)
    xstar = [rng.uniform(-2, 2) for _ in range(n)]
    x0 = [rng.uniform(-2, 2) for _ in range(n)]
    t = [sum(A[i][j] * xstar[j] for j in range(n)) for i in range(m)]
    if kind in ("newton", "view"):
        w = [rng.uniform(0.7, 1.4) for _ in range(n)]
        tw = [rng.uniform(0.7, 1.4) for _ in range(m)]
    else:
        w = [10 ** rng.uniform(-3, 3) for _ in range(n)]
        tw = [1.0] * m
    if kind == "newton":
        limits = [[-1e3, 1e3] for _ in range(n)]
    else:
        limits = []
        for j in range(n):
            c = x0[j] + rng.uniform(-1, 1)
            hw = abs(c) / 4 + rng.uniform(1.5, 6)
            limits.append([c - hw, c + hw])
    rng_s = rng.choice([(0.0, 1.0), (-1.0, 1.0), (2.0, 5.0), (0.0, 10.0), (-3.0, -1.0)])
    c = {"kind": kind, "A": hx(A), "t": hx(t), "xstar": hx(xstar), "x0": hx(x0), "weights": hx(w), "target_weights": hx(tw),
         "limits": hx(limits), "steps": hx([1e-6] * n), "tol": float(1e-8).hex(), "scaled_range": hx(list(rng_s)), "shape": [m, n]}
    if kind == "roundtrip":
        c["knobs"] = hx([rng.gauss(0, 1) * 10 ** rng.uniform(-3, 3) for _ in range(n)])
        c["xs"] = hx([rng.uniform(rng_s[0], rng_s[1]) for _ in range(n)])
        c["xn"] = hx([rng.uniform(limits[j][0], limits[j][1]) / w[j] for j in range(n)])
    if kind == "view":
        c["fun"] = rng.choice(["linear", "linear", "sin"])
        c["fd_step"] = float(1e-5).hex()
        c["jac_tol"] = float(1e-6 if c["fun"] == "linear" else 2e-4).hex()
    return c


SEQ_RCONDS = [None, None, None, 1e-3, 0.05, 0.3, 0.75]


def gen_sequence(rng):
    """one optimizer, several calls with per-call rcond / sing_val_cutoff / broyden"""
    n = rng.randint(2, 4)
    c = gen_problem(rng, "newton", n=n)
    c["kind"] = "sequence"
    c["tol"] = float(1e-6).hex()
    k = n

    def args(trunc=None):
        if trunc is True:
            if rng.random() < 0.6:
                return None, rng.randint(1, k - 1)
            return rng.choice([0.3, 0.75, 0.75]), rng.choice([None, None, k])
        if trunc is False:
            return None, None
        return rng.choice(SEQ_RCONDS), rng.choice([None, None, None] + list(range(1, k + 1)) + [k + 2])

    def call(api=None, trunc=None):
        api = api or rng.choice(["step", "step", "step", "solve", "solve", "solver.step"])
        rc, cut = args(trunc)
        nst = rng.choice([1, 1, 2]) if api != "solve" else rng.choice([2, 3, 4])
        return {"api": api, "n": nst, "rcond": None if rc is None else float(rc).hex(), "cutoff": cut, "broyden": rng.random() < 0.3}

    calls = []
    pat = rng.random() < 0.65
    if pat:   # an earlier truncating call (possibly a failing solve), maybe back to the start, then a plain call
        calls.append(call(rng.choice(["step", "step", "solve", "solver.step"]), trunc=True))
        if rng.random() < 0.5:
            calls.append({"api": "reload0", "n": 0, "rcond": None, "cutoff": None, "broyden": False})
        calls.append(call(rng.choice(["step", "solve", "solve", "solver.step"]), trunc=False))
    for _ in range(rng.randint(0 if pat else 2, 3)):
        calls.append({"api": "reload0", "n": 0, "rcond": None, "cutoff": None, "broyden": False} if rng.random() < 0.12 else call())
    c["calls"] = calls
    c["plain_after_truncating"] = pat
    return c


def grid_cases(rng):
    """every shape 1..6 x 1..6 at least twice for lstsq"""
    return [gen_lstsq(rng, m, n) for m in range(1, 7) for n in range(1, 7) for _ in range(2)]


def run_cases(cases, code):
    impl = vlib.build_impl()
    from concurrent.futures import ThreadPoolExecutor
    parts = list(vlib.chunks(cases, max(1, (len(cases) + vlib.NPROC - 1) // vlib.NPROC)))
    with ThreadPoolExecutor(max_workers=vlib.NPROC) as ex:
        rs = list(ex.map(lambda p: vlib.run_impl("lstsq_runner.py", {"cases": p, "code": code}, impl=impl, timeout=1500), parts))
    out = []
    for r in rs:
        out += r["results"]
    return out


def extracted_code():
    r = subprocess.run([vlib.PY, os.path.join(vlib.VERIF, "tools", "py2v", "gen_opt.py"), "--json"], capture_output=True, text=True,
                       env=dict(os.environ, VERIF_REPO=vlib.REPO), timeout=120)
    return json.loads(r.stdout) if r.returncode == 0 else None


def size(c):
    return (c["shape"][0] * c["shape"][1], len(json.dumps(c)))


def gen_all(rng, n_lstsq, n_other):
    cases = grid_cases(rng) + [gen_lstsq(rng) for _ in range(n_lstsq)]
    for kind in ("newton", "roundtrip", "view"):
        cases += [gen_problem(rng, kind) for _ in range(n_other)]
    cases += [gen_sequence(rng) for _ in range(5 * n_other)]
    return cases


def run(ctx):
    ctx.rule = ("lstsq: every shape 1..6 x 1..6 twice + random shapes; Gaussian, integer, prescribed spectrum (1e-6..1e2), rank-deficient, "
                "row/column scaled (1e-4..1e4) and exact power-of-two diagonal matrices (rcond*s[0] == s[j] exactly); rcond in {None, 0, 1e-14, "
                "1e-8, 1e-3, .05, .3, .75} at the call and {default, None, 1e-6, .2} at construction, sing_val_cutoff None/1..k/k+2 at both; "
                "newton/solve: consistent linear problems n<=4, m<=6, condition <= 100 (incl. knob and target weights), wide limits, steps 1e-6, "
                "with and without Broyden; round trips: weights 1e-3..1e3, finite limits, 5 scaled ranges; views: linear and A x + 0.1 sin(A x), "
                "all four (return_scalar, rescale_x) combinations vs central differences; sequences: ONE optimizer (linear, n 2..4, tol 1e-6), 2-6 calls "
                "of Optimize.step / solve / JacobianSolver.step / reload(0) with per-call rcond in {None, 1e-3, .05, .3, .75}, sing_val_cutoff "
                "None/1..k/k+2, broyden, n_steps 1..4; 65% start with a truncating call (also a failing, restoring solve) followed by a plain one; "
                "after every call the knobs (and success/failure of solve) are judged against least-squares steps computed from that call's "
                "arguments only. non-trivial = lstsq case where the retained set is a proper non-empty subset of the singular values, or a "
                "sequence with a judged plain call after a truncating one; distinct by (matrix, settings)")
    proof_ok = vlib.standard_proof_part(ctx, "props/C16.v", allowed_axioms=(), translators=["opt"])
    code = extracted_code()
    n1, n2 = ctx.pick(700, 60000), ctx.pick(120, 6000)
    cases = gen_all(ctx.rng, n1, n2)
    results = run_cases(cases, code)
    fails = [i for i, r in enumerate(results) if r["fails"]]
    trans = [i for i in fails if all(f[0] == "translator" for f in results[i]["fails"])]
    orc = [i for i in fails if i not in trans]
    ctx.evaluations += len(cases)
    ctx.traces += sum(1 for r in results if r["obs"].get("translator_agrees"))
    kinds, mk, amb, trunc = {}, {}, 0, 0
    for c, r in zip(cases, results):
        kinds[c["kind"]] = kinds.get(c["kind"], 0) + 1
        if c["kind"] == "lstsq":
            mk[c["mk"]] = mk.get(c["mk"], 0) + 1
            o = r["obs"]
            amb += bool(o.get("ambiguous_threshold"))
            ksz = len(o.get("s", []))
            if "keep" in o and 0 < len(o["keep"]) < ksz and not o.get("ambiguous_threshold"):
                trunc += 1
                ctx.nontrivial.add(json.dumps([c["A"], c["rcond"], c["cutoff"], c["ctor_rcond"], c["ctor_cutoff"]]))
    seq = {"cases": 0, "judged_calls": 0, "not_predicted_stops": 0, "plain_after_truncating_judged": 0, "expected_failing_solves": 0, "worst_err": 0.0}
    for c, r in zip(cases, results):
        if c["kind"] != "sequence":
            continue
        o = r["obs"]
        seq["cases"] += 1
        seq["judged_calls"] += o.get("judged_calls", 0)
        seq["not_predicted_stops"] += "stopped_at" in o
        for cl in o.get("calls", []):
            seq["expected_failing_solves"] += bool(cl.get("expected_failure"))
            seq["worst_err"] = max(seq["worst_err"], cl.get("err", 0.0))
        if c.get("plain_after_truncating") and "stopped_at" not in o and o.get("judged_calls", 0) >= 2:
            seq["plain_after_truncating_judged"] += 1
            ctx.nontrivial.add(json.dumps([c["A"], c["calls"]]))
    worst = {}
    for c, r in zip(cases, results):
        for k, v in r["obs"].items():
            if isinstance(v, float) and (k.startswith("err") or k.startswith("svd_") or k.startswith("scalar=") or k in ("normal_eq",)):
                worst[k] = max(worst.get(k, 0.0), v)
            if k.endswith("_ulps"):
                worst[k] = max(worst.get(k, 0.0), max(v))
    ctx.cov["input_distribution"] = {"cases": len(cases), "kinds": kinds, "lstsq_matrix_kinds": mk,
                                     "lstsq_shapes_covered": len({tuple(c["shape"]) for c in cases if c["kind"] == "lstsq"}),
                                     "lstsq_truncating_cases": trunc, "lstsq_threshold_ambiguous_skipped": amb,
                                     "exact_tie_cases_evaluated": sum(1 for c, r in zip(cases, results) if c["kind"] == "lstsq" and c["exact_s"]
                                                                      and not r["obs"].get("ambiguous_threshold")),
                                     "sequences": seq, "worst_observed": worst}
    ctx.samples = [{"case": {k: cases[i][k] for k in ("kind", "shape")}, "obs": {k: v for k, v in results[i]["obs"].items() if k not in ("x", "s")}}
                   for i in (0, len(cases) // 3, len(cases) - 1)]
    ctx.assumptions.append("floating point (numpy.linalg.svd, BLAS products, finite-difference rounding) is validated on the generated cases, not proved; "
                           "the Coq theorems are exact-arithmetic statements over an arbitrary real field")
    ctx.obligations.append(("oracle (numerical, validated): svd factors, lstsq = min-norm solution on the retained singular values (independent "
                            "reference and numpy pinv), first step lands / solve() with and without Broyden, round trips, view Jacobians, "
                            "call sequences on one optimizer judged per call from that call's rcond / sing_val_cutoff / broyden only",
                            not orc, f"{len(orc)} failing of {len(cases)}"))
    ctx.obligations.append(("correspondence: the extracted ASTs (GenOpt), interpreted with numpy, reproduce SVD.lstsq and the scaling formulas",
                            code is not None and not trans and not any(not r["obs"].get("translator_agrees", True) for r in results),
                            "translator failed" if code is None else f"{len(trans)} differing"))

    def shrink_sequence(case, res):
        """keep the calls up to the failing one, then drop earlier calls that are not needed"""
        ci = res["fails"][-1][-1] if res["fails"] and isinstance(res["fails"][-1][-1], int) else len(case["calls"]) - 1
        best, best_r = dict(case, calls=case["calls"][:ci + 1]), res
        r = run_cases([best], None)[0]
        if not r["fails"]:
            return case, res
        best_r = r
        j = 0
        while j < len(best["calls"]) - 1 and len(best["calls"]) > 2:
            cand = dict(best, calls=best["calls"][:j] + best["calls"][j + 1:])
            r = run_cases([cand], None)[0]
            if r["fails"] and all(f[0] == "sequence" for f in r["fails"]):
                best, best_r = cand, r
            else:
                j += 1
        return best, best_r

    def report(i, cs, rs, extra=None):
        if cs[i]["kind"] == "sequence":
            sc, sr = shrink_sequence(cs[i], rs[i])
            cs, rs, i = [sc], [sr], 0
        payload = {"kind": "oracle", "case": cs[i], "observed": rs[i]["obs"], "failed_checks": rs[i]["fails"],
                   "how_to_replay": "./check C16 --replay <this file>"}
        if extra:
            payload.update(extra)
        vlib.violation(ctx, payload)

    if orc:
        i = sorted(orc, key=lambda j: size(cases[j]))[0]
        report(i, cases, results, {"also_broken": list(getattr(ctx, "broken", [])), "failing_cases": len(orc)})
    elif not proof_ok or trans or code is None:
        what = list(getattr(ctx, "broken", []))
        if trans:
            what.append(f"extracted ASTs interpreted with numpy differ from the implementation on {len(trans)} cases, first: "
                        f"{json.dumps(results[trans[0]]['fails'][0])[:400]}")
        extra = gen_all(ctx.rng, ctx.pick(3000, 12000), ctx.pick(300, 1500))
        r2 = run_cases(extra, None)
        bad = [i for i, r in enumerate(r2) if r["fails"]]
        if bad:
            i = sorted(bad, key=lambda j: size(extra[j]))[0]
            report(i, extra, r2, {"also_broken": what, "failing_cases": len(bad)})
        else:
            vlib.violation(ctx, {"kind": "proof-or-correspondence", "no_longer_checks": what,
                                 "searched": f"{len(extra)} extra cases + {len(cases)} cases with the numerical oracle: no failing input"}, no_input=True)


def replay(ctx, data):
    case = data.get("case")
    if not case:
        print("replay file names a broken theorem/table/correspondence, no concrete input:")
        print(json.dumps(data.get("no_longer_checks"), indent=1))
        return 1
    r = run_cases([case], extracted_code())[0]
    print(json.dumps(r, indent=1)[:6000])
    bad = [f for f in r["fails"] if f[0] != "translator"]
    if bad:
        print(f"VIOLATION property=C16 replay=(given) : {bad[0][0]}: {bad[0][1]}")
        return 1
    print("replay: the implementation passes the numerical oracle on this case")
    return 0
