"""C20 — results do not depend on the build (compiled or pure Python) or the hash seed.

Proof : coq/props/C20.v (hash-seed half) — definitions and the dumped text are
        independent of every set iteration order over any history of assignments,
        the triggered set is a permutation under any start order, index counts
        depend on the surviving definitions only; plus C02/C03/C08 quantified over
        the order oracles.  Build half: validated, not proved.
Tie   : the same programs (manager histories incl. in-place operators, load,
        register/unregister, freeze, generated functions) run on the compiled and
        on the pure build made from the working tree, under several PYTHONHASHSEEDs;
        transcripts (container contents, definitions, dump() text, exception
        classes) must be identical; programs carrying an ordering cycle are
        compared for termination and exception classes only (known finding C01).
        The model correspondence runs on both builds too.
"""
import json
import vlib, mgr_common as mc


ATTR_NAMES = ["mro", "__name__", "__qualname__", "__bases__", "__mro__", "__module__", "__doc__", "__dict__", "__class__", "__hash__",
              "__slots__", "__weakref__", "__subclasses__", "__call__", "__basicsize__", "__flags__", "__itemsize__", "__text_signature__",
              "__abstractmethods__", "__annotations__", "__init_subclass__", "__prepare__", "__instancecheck__", "__dictoffset__",
              "_key", "_owner", "_manager", "_value", "_expr", "_hash", "_get_value", "_tasks", "real", "imag", "x_new", "q", "T", "shape"]


def transcript(ol, full=True):
    out = []
    for o in ol:
        if full:
            out.append([o["err"], o["store"], sorted(json.dumps([t[0], t[1]]) for t in o.get("tasks", [])), o.get("dump"), o.get("frozen"), o.get("queries")])
        else:
            out.append([o["err"]])
    return out


def has_cycle(ol):
    return mc.tainted_prefix(ol) is not None or any((o.get("genfun") or {}).get("cycle") for o in ol)


def known_finding_status():
    out = []
    for e in vlib.known_findings("C20"):
        if e["kind"] != "known" or not isinstance(e.get("witness"), dict):
            continue
        case = {"store": e["witness"]["store"], "ops": e["witness"]["ops"]}
        ca, cb = mc.run_impl_cases([case], build="compiled")[0], mc.run_impl_cases([case], build="pure")[0]
        if e["signature"].startswith("cython-signed-zero"):
            out.append((e, [x["store"] for x in ca], [x["store"] for x in cb]))
        else:
            out.append((e, [x["err"] for x in ca], [x["err"] for x in cb]))
    return out


import re
_ZERO = [(re.compile(r"-0\.0(?![0-9])"), "0.0"), (re.compile(r"-0\.(?![0-9])"), "0."), (re.compile(r"-0j"), "0j"), (re.compile(r"-0x0\.0p\+0"), "0x0.0p+0")]


def zero_norm(x):
    """the text of a transcript with the sign of every zero dropped"""
    s = json.dumps(x, sort_keys=True)
    for rx, to in _ZERO:
        s = rx.sub(to, s)
    return s


def run(ctx):
    ctx.rule = ("random manager programs (assign value/expression/in-place, unregister, load, register function/knob tasks, refresh/verify/cleanup, "
                "frozen windows, generated setter functions) run under build in {compiled, pure} x PYTHONHASHSEED; transcripts compared with "
                "compiled/seed 0; non-trivial = a program with >= 2 definitions and >= 1 triggered update; distinct by op list")
    ctx.scale_if_changed()
    proof_ok = vlib.standard_proof_part(ctx, "props/C20.v", extra_targets=["run/RunManager.vo", "proofs/TasksSrc.vo", "proofs/TasksSrcData.vo", "proofs/TasksSrcRefresh.vo", "proofs/TasksSrcSorting.vo"], translators=["tasks"])
    import C13
    # expression tasks only: two independent tasks writing one location (a function task and a definition
    # on the same target) race by construction and are outside the property
    cases = [mc.gen_history(ctx.rng, ["assign", "mixed", "dag", "frozen", "assign_flat"][i % 5], nofun=True) for i in range(ctx.pick(200, 3000))]
    # key TYPES (numpy integers, IntEnum members, tuples, floats, None, bool, big / negative ints) and keys needing escapes
    cases += [mc.gen_history(ctx.rng, "assign", nofun=True, keys=["exotic", "exotic", "strings"][i % 3]) for i in range(ctx.pick(60, 900))]
    cases += [mc.gen_history(ctx.rng, ["assign", "mixed"][i % 2], nofun=True, values="mixed") for i in range(ctx.pick(40, 600))]
    cases += C13.gen_cases(ctx, ctx.pick(40, 600))
    configs = [("compiled", s) for s in range(ctx.pick(3, 12))] + [("pure", s) for s in range(ctx.pick(2, 6))]
    # attribute assignment through a reference with names that mean something to Python's object model (members of `type`,
    # dunder names, members of the reference classes).  Names that are members of the reference object itself are the
    # known finding ref-member-attribute (the runner reports `in_dir`); every other name must behave identically.
    acases = []
    for i in range(ctx.pick(60, 800)):
        c = mc.gen_history(ctx.rng, "assign", nops=ctx.rng.randint(2, 6), nofun=True, attrdict=False)
        for _ in range(ctx.rng.randint(1, 3)):
            owner = ctx.rng.choice([["g"], ["g"], ["c", ["i", "n"]], ["c"]])
            name = ctx.rng.choice(ATTR_NAMES)
            val = ctx.rng.choice([ctx.rng.randint(-9, 9), ["bin", "+", ["ref", ["g", ["a", "q"]]], ["const", 1]]])
            c["ops"].insert(ctx.rng.randint(0, len(c["ops"])), ["setattr_raw", owner, name, val])
        c["ops"].append(["set", ["g", ["a", "q"]], ["plain", ctx.rng.randint(-9, 9)], "item"])
        acases.append(c)
    aruns = {cfg: mc.run_impl_cases(acases, build=cfg[0], hashseed=cfg[1], opts={"stop_in_dir": True}) for cfg in (configs[0], configs[-1], ("pure", 0))}
    afail = []
    for i, c in enumerate(acases):
        cut = min(next((j for j, o in enumerate(ol[i]) if o.get("in_dir")), len(c["ops"])) for ol in aruns.values())
        # an operation that raised may leave a definition whose evaluation fails (e.g. on a location that does not exist):
        # later updates then stop half-way at a point that follows the order among independent tasks (C18's subject);
        # compared up to the first raising operation, that one by its exception class
        ecut = min(next((j for j, o in enumerate(ol[i]) if o["err"] is not None), len(c["ops"])) for ol in aruns.values())
        # an update whose triggered tasks carry an ordering cycle (known finding ordering-cycle) ends in a state that follows the
        # hash seed: compared up to the operation before, as in the main stream
        for ol in aruns.values():
            tp = mc.tainted_prefix(ol[i])
            if tp is not None:
                cut = min(cut, tp)
        if ecut < cut:
            ts = {cfg: transcript(ol[i][:ecut]) + transcript(ol[i][ecut:ecut + 1], full=False) for cfg, ol in aruns.items()}
        else:
            ts = {cfg: transcript(ol[i][:cut]) for cfg, ol in aruns.items()}
        t0 = ts[configs[0]]
        for cfg, t in ts.items():
            if t != t0 and not afail:
                k = next(j for j, (x, y) in enumerate(zip(t0, t)) if x != y)
                afail.append((i, k, f"attribute assignment through a reference behaves differently on {configs[0]} and {cfg}: "
                                    f"{json.dumps(t0[k])[:300]} vs {json.dumps(t[k])[:300]}"))
    ctx.obligations.append(("identical transcripts for attribute assignments with object-model names (members of the reference object excepted: known finding)",
                            not afail, f"{len(afail)} differing programs of {len(acases)}"))
    ctx.cov["attribute_name_programs"] = {"programs": len(acases), "names": len(ATTR_NAMES),
                                          "cut_by_known_finding": sum(1 for i in range(len(acases)) if any(o.get("in_dir") for o in aruns[configs[0]][i]))}
    if afail:
        i, k, what = afail[0]
        vlib.violation(ctx, {"kind": "oracle", "what": what, "case": dict(acases[i], ops=acases[i]["ops"][:k + 1])})
    # every configuration is reduced, batch by batch, to per-operation digests (the full observations of 18 configurations
    # do not fit in memory in the thorough tier); only the reference configuration and a slice of ('pure', 0) are kept whole
    import hashlib
    dg = lambda x: hashlib.md5(x.encode()).hexdigest()

    def compact(ol):
        full = transcript(ol, full=True)
        return {"err": [o["err"] for o in ol], "d": [dg(json.dumps(t, sort_keys=True)) for t in full], "z": [dg(zero_norm(t)) for t in full],
                "cyc": has_cycle(ol), "taint": mc.tainted_prefix(ol),
                "first_err": next((j for j, o in enumerate(ol) if o["err"] is not None), len(ol))}
    comp, ref, pure0 = {}, None, None
    npure = ctx.pick(60, 600)
    for cfg in configs:
        comp[cfg] = []
        for chunk in vlib.chunks(list(range(len(cases))), 400):
            part = mc.run_impl_cases([cases[i] for i in chunk], build=cfg[0], hashseed=cfg[1])
            comp[cfg] += [compact(ol) for ol in part]
            if cfg == configs[0]:
                ref = (ref or []) + part
            elif cfg == ("pure", 0) and chunk[0] < npure:
                pure0 = (pure0 or []) + part
            del part
    mism = mc.model_compare(ctx, cases, ref, "c20")
    # a long chain of dependants: only the exception classes and the final contents are compared (the per-operation
    # oracles of the runner are quadratic in the number of tasks)
    big = mc.chain_case(min(ctx.pick(300, 2000), 2000))
    bigs = {cfg: mc.run_impl_cases([big], build=cfg[0], hashseed=cfg[1], opts={"snapshots": False})[0] for cfg in configs}
    bsum = {cfg: ([o["err"] for o in ol], ol[-1]["store"]) for cfg, ol in bigs.items()}
    big_bad = [cfg for cfg in configs if bsum[cfg] != bsum[configs[0]]]
    ctx.obligations.append((f"a chain of {len(big['ops']) - 1} dependants ends identically under every configuration", not big_bad, f"differing: {big_bad}"))
    del bigs
    mism_pure = mc.model_compare(ctx, cases[:npure], pure0[:npure], "c20p")
    mism = mism + mism_pure
    del pure0
    fails = []
    if big_bad:
        cases.append(big); ref.append(mc.run_impl_cases([big], opts={"snapshots": False})[0])
        for cf in configs:
            comp[cf].append({"err": [], "d": [], "z": [], "cyc": False, "taint": None, "first_err": 0})
        fails.append((len(cases) - 1, len(big["ops"]) - 1, f"a chain of dependants ends differently under {big_bad[0]} than under {configs[0]}"))
    zero_only = []       # programs whose transcripts differ in the sign of a zero and in nothing else (known finding cython-signed-zero)
    cyc = [any(comp[c][i]["cyc"] for c in configs) for i in range(len(cases))]

    def view(cfg, i, key):
        """the comparable part of program i under cfg as a list of per-operation tokens.  Integer programs: every operation (by
        exception class only when an ordering cycle is involved - known finding C01).  Mixed value types: an update may raise
        half-way (None + 1, shape mismatch) and the order among independent tasks, hence the partial state, legitimately follows
        the hash seed (C18's domain): compared up to the first operation that raised in any configuration (that one by its
        exception class), or up to the first ordering cycle if that comes first."""
        c = comp[cfg][i]
        n = len(c["err"])
        if mc.is_int_case(cases[i]):
            return list(c["err"]) if cyc[i] else list(c[key])
        cut = min(comp[cf][i]["first_err"] for cf in configs)
        taint = min((comp[cf][i]["taint"] for cf in configs if comp[cf][i]["taint"] is not None), default=n)
        if taint <= cut:
            return list(c[key][:taint])
        return list(c[key][:cut]) + list(c["err"][cut:cut + 1])
    for i, c in enumerate(cases):
        t0 = view(configs[0], i, "d")
        for cfg in configs[1:]:
            t1 = view(cfg, i, "d")
            if t0 == t1:
                continue
            if cfg[0] != configs[0][0] and view(configs[0], i, "z") == view(cfg, i, "z"):
                zero_only.append((i, cfg))
                continue
            k = next((j for j, (x, y) in enumerate(zip(t0, t1)) if x != y), min(len(t0), len(t1)))
            # details: run the one program again under the two configurations
            a = mc.run_impl_cases([c], build=configs[0][0], hashseed=configs[0][1])[0]
            b = mc.run_impl_cases([c], build=cfg[0], hashseed=cfg[1])[0]
            what = ["exception class", "container contents", "definitions", "dump() text", "frozen flag"]
            ta, tb = transcript(a[:k + 1]), transcript(b[:k + 1])
            field = next((n for n, (x, y) in enumerate(zip(ta[-1], tb[-1])) if x != y), 0)
            fails.append((i, k, f"{what[field]} differ between {configs[0]} and {cfg}: {json.dumps(ta[-1][field])[:300]} vs {json.dumps(tb[-1][field])[:300]}"))
            break
    # expression terms (every operator, builtins with reference parameters, calls, computed keys) on both builds:
    # the structure the overloads build and every value / exception class must coincide
    import C04, refs_shared as rs
    classes, fns, iderr = rs.ids()
    tcases = [C04.gen_tree_case(ctx.rng) for _ in range(ctx.pick(300, 6000))]
    parts = list(vlib.chunks(tcases, 100))
    both = rs.run_both([{"mode": "c04", "classes": classes, "fns": fns, "cases": pp} for pp in parts])
    term_fail = []
    k = 0
    for pi, pp in enumerate(parts):
        rc, rp = both["compiled"][pi]["results"], both["pure"][pi]["results"]
        for j in range(len(pp)):
            if json.dumps(rc[j], sort_keys=True) != json.dumps(rp[j], sort_keys=True):
                if zero_norm(rc[j]) == zero_norm(rp[j]):
                    zero_only.append((("term", k, rc[j], rp[j]), ("pure", 0)))
                else:
                    term_fail.append((k, rc[j], rp[j]))
            k += 1
    zero_known = False
    for e, a, b in known_finding_status():
        if e["signature"].startswith("cython-signed-zero"):
            zero_known = (a != b)
            if a != b:
                vlib.known(ctx, f"compiled and pure builds differ in the sign of a zero (a float zero times an integer keeps its sign in the code generated by "
                                f"Cython): witness c['w'] = 0.0; c['w'] *= -1 leaves {a[-1][0][1]} (compiled) vs {b[-1][0][1]} (pure); "
                                f"{len(zero_only)} generated programs/terms differ in the sign of a zero only")
            else:
                ctx.notes.append("known finding C20/cython-signed-zero: compiled and pure now agree on the witness")
        elif a != b:
            vlib.known(ctx, f"build-dependent behaviour when assigning an attribute named like a member of the reference class (setattr(ref, '_key', v)): "
                            f"compiled {a} vs pure {b}")
        else:
            ctx.notes.append("known finding C20/ref-member-attribute: compiled and pure now agree on the witness")
    if zero_only and not zero_known:
        # the listed witness no longer reproduces: sign-of-zero differences are violations like any other
        i, cfg = zero_only[0]
        if isinstance(i, tuple):
            term_fail.append(i[1:])
        else:
            fails.append((i, len(cases[i]["ops"]) - 1, f"container contents differ in the sign of a zero between {configs[0]} and {cfg}"))
    ctx.cov["sign_of_zero_only_differences"] = len(zero_only)
    term_evals = 2 * len(tcases)
    ctx.obligations.append(("identical structure / values / exception classes of expression terms on the compiled and pure builds",
                            not term_fail, f"{len(term_fail)} differing terms of {len(tcases)}"))
    if term_fail and not fails:
        i, a, b = term_fail[0]
        vlib.violation(ctx, {"kind": "oracle", "what": "an expression term behaves differently on the compiled and on the pure build",
                             "term_case": tcases[i], "compiled": a, "pure": b, "how_to_replay": "./check C20 --replay <this file>"})
    for c, ol in zip(cases, ref):
        defs = sum(1 for op in c["ops"] if op[0] == "set" and op[2][0] == "expr")
        if defs >= 2 and any(o["trace"] for o in ol):
            ctx.nontrivial.add(json.dumps(c["ops"])[:4000])
    ctx.evaluations = sum(len(c["ops"]) for c in cases) * len(configs) + term_evals
    ctx.traces = len(cases) * len(configs) + term_evals
    ctx.samples = [{"ops": cases[0]["ops"][:5], "dump": ref[0][min(4, len(ref[0]) - 1)].get("dump")}]
    ctx.cov["input_distribution"] = {"ops": mc.op_distribution(cases), "configs": [list(c) for c in configs],
                                     "programs_with_ordering_cycle_in_some_config": sum(cyc)}
    ctx.obligations.append(("identical transcripts for every build x hash seed", not fails, f"{len(fails)} differing programs"))
    # decide() adds the correspondence and oracle obligations
    mc.decide(ctx, proof_ok, cases, ref, mism, fails)


def replay(ctx, data):
    if data.get("term_case"):
        import refs_shared as rs
        classes, fns, _ = rs.ids()
        both = rs.run_both([{"mode": "c04", "classes": classes, "fns": fns, "cases": [data["term_case"]]}])
        a, b = both["compiled"][0]["results"][0], both["pure"][0]["results"][0]
        n = zero_norm
        print(json.dumps({"compiled": a, "pure": b})[:1500])
        if n(a) != n(b):
            print("VIOLATION property=C20 replay=(given): compiled and pure builds differ on this term"); return 1
        print("replay: both builds agree on this term"); return 0
    case = data.get("case")
    if not case:
        print("no concrete input in this replay file:", data.get("no_longer_checks")); return 1
    outs = {}
    for cfg in [("compiled", 0), ("compiled", 1), ("compiled", 2), ("pure", 0), ("pure", 1)]:
        o = mc.run_impl_cases([case], build=cfg[0], hashseed=cfg[1])[0]
        outs[cfg] = zero_norm(transcript(o, full=not has_cycle(o)))      # sign of zero: known finding cython-signed-zero
    ref = outs[("compiled", 0)]
    bad = [cfg for cfg, t in outs.items() if t != ref]
    if bad:
        print(f"VIOLATION property=C20 replay=(given): transcripts differ between ('compiled', 0) and {bad}"); return 1
    print("replay: identical transcripts on this program"); return 0
