"""C06 — references are equal, and hash equally, exactly when they denote the same path.

Proof part : coq/props/C06.v (left-inverse parser of printed paths => printing is
             injective on well-formed paths; == is the extracted str(self) == str(other);
             the hashed tuples, as extracted, contain only the structure; dotted
             attribute names refuted).
Tie        : py2v tables repr_tpl / hash_tpl / eq_impl (gen_refsrepr.py) interpreted by
             coq/model/RefsShow.v; model show vs repr(ref) byte for byte on generated
             paths; model == vs implementation == on sampled pairs.
Oracle     : all pairs (A_i, B_j) of independently built references: equal, same hash,
             same dictionary entry  <=>  same path (tools/impl/refseq_runner.py).
"""
import json
import vlib
from checks import refsrepr_common as rc
from checks.refsrepr_common import cps

KNOWN_SIG = "an attribute step whose name is not an identifier"

# ---- key pools -----------------------------------------------------------------------

STR_KEYS = [
    "a", "b", "a'", 'a"', "a'\"", "a]", "a[", "a']", "a'][", "a.b", "a'].b['c", "a\\", "a\\n", "a\n", "a\\'", "a\t", "a\r",
    "", " ", "a ", " a", "\xe9", "e\u0301", "\x00", "\x1f", "\x7f", "\x80", "\xa0", "\xad", "\u0378", "\ud800", "\u2028", "\uffff",
    "\U0001F600", "\U0010ffff", "c['a']", "c.a", "c", "1", "-1", "1.5", "(1,)", "('a',)", "'a'", '"a"', "\\x00", "\\'", "''", '""',
    "a, b", "[", "]", "'", '"', "\\", "None", "True", "a)", "(a", "c['a'].b", "c[1]", "c[(1, 'a')]",
]
INT_KEYS = [0, 1, -1, -2, 2, 10, -10, 123456789012345678901234567890, -(2 ** 64), 2 ** 61 - 1, 2 ** 61, 7]
FLOAT_KEYS = [1.5, -1.5, 0.1, -0.1, 5e-324, 1e-5, 1.0000000000000002, 2.5, 123456.789, 3.14, 1e15 + 0.5, -2.5e-10, 0.30000000000000004]
ATTR_NAMES = ["a", "b", "x", "ab", "a1", "a_", "B", "\xe9", "\u03c0", "a\xe9", "a_b", "xyz"]
BAD_ATTR_NAMES = ["a.b", "a['x']", "a b", "1a", "a-b", ""]
LABELS = [("c", 0), ("d", 0), ("o", 1), ("ca", 0)]


def lit_of(v):
    if isinstance(v, bool):
        raise ValueError
    if isinstance(v, int):
        return ["i", str(v)]
    if isinstance(v, float):
        assert v == v and abs(v) != float("inf") and not float(v).is_integer()
        return ["f", v.hex()]
    if isinstance(v, str):
        return ["s", cps(v)]
    if isinstance(v, tuple):
        return ["t", [lit_of(x) for x in v]]
    raise ValueError(v)


def tuple_keys():
    return [(), (1,), (-1,), (-2,), ("1",), (1, "a"), (1, "a'"), ("a", 1), (1, 2), (1, 2, 3), ((1,),), ((1, 2), "a"), (1.5,), (1, (2, "a]")),
            ("(1,", ")"), ("a, b",), ("a", "b"), ((), ()), ((),)]


def gen_key(rng):
    k = rng.random()
    if k < 0.5:
        if rng.random() < 0.25:
            n = rng.randint(0, 6)
            alpha = "ab'\"[].\\ \n\x00\x7fé͸\U0001F600c1-,()"
            return "".join(rng.choice(alpha) for _ in range(n))
        return rng.choice(STR_KEYS)
    if k < 0.68:
        return rng.choice(INT_KEYS) if rng.random() < 0.7 else rng.randint(-10 ** 6, 10 ** 6)
    if k < 0.8:
        if rng.random() < 0.6:
            return rng.choice(FLOAT_KEYS)
        x = rng.uniform(-1000, 1000) * 10 ** rng.randint(-20, 20)
        return x if not float(x).is_integer() else 0.5
    if k < 0.95:
        return rng.choice(tuple_keys())
    return (gen_key(rng), gen_key(rng))


def gen_path(rng, depth=None, bad_attr_p=0.0):
    label, kind = rng.choice(LABELS)
    depth = depth or rng.choice([1, 1, 2, 2, 3, 4])
    steps = []
    for i in range(depth):
        if rng.random() < 0.7 or (kind == 1 and i == 0):
            steps.append(["i", lit_of(gen_key(rng))])
        elif rng.random() < bad_attr_p:
            steps.append(["a", cps(rng.choice(BAD_ATTR_NAMES))])
        else:
            steps.append(["a", cps(rng.choice(ATTR_NAMES))])
    return {"l": label, "k": kind, "s": steps}


def family_similar(rng):
    """paths that differ in one place only / print almost alike"""
    fam = []
    keys = STR_KEYS + INT_KEYS + FLOAT_KEYS + tuple_keys()
    for k in keys:
        fam.append({"l": "c", "k": 0, "s": [["i", lit_of(k)]]})
    for k in ["a", "a'", "a.b", 1, -1, -2, (1,), 1.5]:
        fam.append({"l": "c", "k": 0, "s": [["i", lit_of("a")], ["i", lit_of(k)]]})
        fam.append({"l": "c", "k": 0, "s": [["a", cps("a")], ["i", lit_of(k)]]})
        fam.append({"l": "c", "k": 0, "s": [["i", lit_of(k)], ["a", cps("a")]]})
        fam.append({"l": "d", "k": 0, "s": [["i", lit_of(k)]]})
        fam.append({"l": "o", "k": 1, "s": [["i", lit_of(k)]]})
    # text that looks like another path
    fam.append({"l": "c", "k": 0, "s": [["i", lit_of("a")], ["a", cps("b")]]})       # c['a'].b
    fam.append({"l": "c", "k": 0, "s": [["i", lit_of("a'].b['c")]]})
    fam.append({"l": "c", "k": 0, "s": [["a", cps("a")], ["a", cps("b")]]})          # c.a.b
    fam.append({"l": "ca", "k": 0, "s": [["a", cps("b")]]})
    fam.append({"l": "c", "k": 0, "s": [["a", cps("ab")]]})
    fam.append({"l": "c", "k": 0, "s": [["a", cps("a")], ["a", cps("b")], ["i", lit_of(0)], ["i", lit_of((0,))]]})
    return fam


def family_core():
    """always present, whatever the seed: the pairs most likely to be confused"""
    P = lambda l, k, *st: {"l": l, "k": k, "s": [["a", cps(x[1])] if x[0] == "a" else ["i", lit_of(x[1])] for x in st]}
    I = lambda k: ("i", k)
    A = lambda n: ("a", n)
    return [P("c", 0, I("a")), P("c", 0, I("a'")), P("c", 0, I(1)), P("c", 0, I("1")), P("c", 0, I(-1)), P("c", 0, I("-1")),
            P("c", 0, I(-2)), P("c", 0, I(1.5)), P("c", 0, I("1.5")), P("c", 0, I((1,))), P("c", 0, I("(1,)")), P("c", 0, I(("1",))),
            P("c", 0, I("c['a']")), P("c", 0, I("a"), I("b")), P("c", 0, I("a'].b['c")), P("c", 0, I("a"), A("b")),
            P("c", 0, A("a")), P("c", 0, A("a"), A("x")), P("c", 0, A("b"), A("x")), P("c", 0, I("a"), A("x")), P("c", 0, A("x")),
            P("d", 0, A("x")), P("d", 0, I("a")), P("o", 1, I("a")), P("ca", 0, A("x")), P("c", 0, A("ax")),
            P("c", 0, I("a\n")), P("c", 0, I("a\\n")), P("c", 0, I("\xe9")), P("c", 0, I("\ud800")), P("c", 0, I((1, "a"))), P("c", 0, I((1, ("a",))))]


def dedupe(paths):
    seen, out = set(), []
    for p in paths:
        c = json.dumps(p, sort_keys=True)
        if c not in seen:
            seen.add(c); out.append(p)
    return out


def has_bad_attr(p):
    return any(st[0] == "a" and not rc.from_cps(st[1]).isidentifier() for st in p["s"])


def wf_for_model(p):
    return not has_bad_attr(p)


# ---- model side ---------------------------------------------------------------------------

def model_show_mismatches(ctx, paths, reprs, eq_samples, eq_results, tag):
    cid = rc.class_ids()
    texts, index_of = [], []
    for chunk in vlib.chunks(list(range(len(paths))), 400):
        ft = rc.FloatTokens()
        chars = set()
        items = []
        for i in chunk:
            t = rc.path_term(paths[i])
            rc.term_chars(t, chars)
            items.append(f"({rc.emit_term(t, ft, cid)}, {rc.clistN(reprs[i])})")
        texts.append(rc.COQ_HEADER.format(extra="run.RunRefsRepr")
                     + "Definition cases : list (term * pystr) :=\n [" + ";\n  ".join(items) + "].\n"
                     + f"Eval vm_compute in (show_mismatches {rc.clistN(rc.printable_table(chars))} {ft.coq()} cases).\n")
        index_of.append(("show", chunk))
    for chunk in vlib.chunks(list(range(len(eq_samples))), 400):
        ft = rc.FloatTokens()
        chars = set()
        items = []
        for s in chunk:
            i, j = eq_samples[s]
            a, b = rc.path_term(paths[i]), rc.path_term(paths[j])
            rc.term_chars(a, chars); rc.term_chars(b, chars)
            items.append(f"({rc.emit_term(a, ft, cid)}, {rc.emit_term(b, ft, cid)}, {'true' if eq_results[s] else 'false'})")
        texts.append(rc.COQ_HEADER.format(extra="run.RunRefsRepr")
                     + "Definition cases : list (term * term * bool) :=\n [" + ";\n  ".join(items) + "].\n"
                     + f"Eval vm_compute in (eq_mismatches {rc.clistN(rc.printable_table(chars))} {ft.coq()} cases).\n")
        index_of.append(("eq", chunk))
    show_mism, eq_mism = [], []
    for (rcode, so, se), (kind, ids) in zip(vlib.coq_eval_files(ctx, texts, tag), index_of):
        lst = vlib.parse_nat_list(so) if rcode == 0 else None
        if lst is None:
            # the run file itself may be broken by a changed table: that is a broken tie, not an infrastructure error
            return None, None, f"case evaluation failed: rc={rcode} {se[-600:]} {so[-200:]}"
        (show_mism if kind == "show" else eq_mism).extend(ids[k] for k in lst)
    return show_mism, eq_mism, None


def float_oracle_sample_ok(paths):
    """the hypotheses made on Python's float repr, on the sample: characters, mark, injectivity"""
    seen = {}

    def walk(l):
        if l[0] == "f":
            x = float.fromhex(l[1]); r = repr(x)
            if not set(r) <= set("0123456789.e+-") or not ("." in r or "e" in r):
                return False
            if seen.setdefault(r, l[1]) != l[1]:
                return False
        if l[0] == "t":
            return all(walk(x) for x in l[1])
        return True
    return all(walk(st[1]) for p in paths for st in p["s"] if st[0] == "i")


# ---- the check ---------------------------------------------------------------------------------

def run_pairs(paths, mode, sample_eq=(), build="compiled", hashseed=0):
    return vlib.run_impl("refseq_runner.py", {"paths": paths, "mode": mode, "sample_eq": list(sample_eq)},
                         build=build, hashseed=hashseed, timeout=3000)


def classify(paths, f):
    """known finding iff one of the two paths has a non-identifier attribute name"""
    if "i" in f and "j" in f:
        return has_bad_attr(paths[f["i"]]) or has_bad_attr(paths[f["j"]])
    return False


def shrink_pair(p, q, fails):
    """drop steps / simplify while the pair keeps failing"""
    changed = True
    while changed:
        changed = False
        for which in (0, 1):
            cur = (p, q)[which]
            for k in range(len(cur["s"])):
                cand = dict(cur, s=cur["s"][:k] + cur["s"][k + 1:])
                if not cand["s"]:
                    continue
                pp, qq = (cand, q) if which == 0 else (p, cand)
                if json.dumps(pp, sort_keys=True) != json.dumps(qq, sort_keys=True) or True:
                    if fails(pp, qq):
                        p, q = pp, qq
                        changed = True
                        break
            if changed:
                break
    return p, q


def pair_fails(build):
    def f(p, q):
        if has_bad_attr(p) or has_bad_attr(q):
            return False
        r = run_pairs([p, q], "allpairs", build=build)
        return bool(r["failures"])
    return f


def run(ctx):
    ctx.rule = ("access paths of depth 1..4 over labels c/d/ca (Ref) and o (ObjectAttrRef), item keys from strings with quotes, brackets, dots, "
                "backslashes, control characters, non-ASCII, lone surrogates and text that looks like another path, ints (negative, > 64 bit), "
                "non-integral floats, nested tuples; attribute names ASCII and non-ASCII identifiers; every path built twice independently "
                "(operators on one manager, constructors on another); ALL pairs compared; non-trivial = a pair of distinct paths whose printed "
                "forms share a prefix of >= 3 characters, or a same-path pair; distinct by (path, path)")
    proof_ok = vlib.standard_proof_part(ctx, "props/C06.v", allowed_axioms=(), extra_targets=["run/RunRefsRepr.vo"],
                                        translators=["refsrepr"])
    rng = ctx.rng
    fam = family_similar(rng)
    n_rand = ctx.pick(0, 880)
    paths = dedupe(fam + [gen_path(rng, bad_attr_p=0.05) for _ in range(n_rand)])
    if ctx.quick:
        # ~3000 pairs: the fixed core, a seed-dependent sample of the similar-key family, random paths
        rng.shuffle(paths)
        paths = dedupe(family_core() + paths[:12] + [gen_path(rng, bad_attr_p=0.05) for _ in range(11)])
    else:
        paths = dedupe(family_core() + paths)
    ctx.obligations.append(("float repr oracle hypotheses hold on the sample (charset, '.'/'e' mark, injective)",
                            float_oracle_sample_ok(paths), ""))
    # -- oracle on the implementation, both builds
    sample_eq = [(rng.randrange(len(paths)), rng.randrange(len(paths))) for _ in range(ctx.pick(150, 1500))]
    sample_eq += [(i, i) for i in range(0, len(paths), max(1, len(paths) // 60))]
    sample_eq = [(i, j) for (i, j) in sample_eq if wf_for_model(paths[i]) and wf_for_model(paths[j])]
    res = {}
    for build in ("compiled", "pure"):
        res[build] = run_pairs(paths, "allpairs", sample_eq if build == "compiled" else (), build=build)
    # larger repr-only corpus for the model correspondence
    extra = dedupe([gen_path(rng) for _ in range(ctx.pick(600, 6000))])
    rextra = run_pairs(extra, "repr")
    big = None
    if not ctx.quick:
        n = 100000
        famb = [{"l": "c", "k": 0, "s": [["i", lit_of(f"k{i}")]]} for i in range(n // 4)] + \
               [{"l": "c", "k": 0, "s": [["i", lit_of(i - n // 8)]]} for i in range(n // 4)] + \
               [{"l": "c", "k": 0, "s": [["a", cps("e")], ["i", lit_of((i, f"k{i % 7}"))]]} for i in range(n // 4)] + \
               [{"l": "c", "k": 0, "s": [["i", lit_of(f"k{i % 500}")], ["i", lit_of(f"k{i // 500}")]]} for i in range(n // 4)]
        big = {b: run_pairs(famb, "dict", build=b) for b in ("compiled", "pure")}
    # -- bookkeeping
    npairs = res["compiled"]["counts"]["pairs"]
    ctx.evaluations += npairs * 2 + len(extra) + (2 * len(big["compiled"]["reprs"]) if big else 0)
    ctx.traces += len(paths) + len(extra)
    reprs = [rc.from_cps(r) for r in res["compiled"]["reprs"]]
    for i in range(len(paths)):
        ctx.nontrivial.add(("same", i))
    srt = sorted(range(len(paths)), key=lambda i: reprs[i])
    for a, b in zip(srt, srt[1:]):
        if reprs[a][:3] == reprs[b][:3]:
            ctx.nontrivial.add(("near", a, b))
    ctx.samples = [{"path": paths[i], "repr": reprs[i]} for i in (0, len(paths) // 2, len(paths) - 1)]
    kinds = {"str": 0, "int": 0, "float": 0, "tuple": 0, "attr": 0, "bad_attr": 0}
    for p in paths + extra:
        for st in p["s"]:
            if st[0] == "a":
                kinds["bad_attr" if not rc.from_cps(st[1]).isidentifier() else "attr"] += 1
            else:
                kinds[{"s": "str", "i": "int", "f": "float", "t": "tuple"}[st[1][0]]] += 1
    ctx.cov["input_distribution"] = {"paths_all_pairs": len(paths), "pairs_per_build": npairs, "repr_only_paths": len(extra),
                                     "depth_hist": {str(d): sum(1 for p in paths + extra if len(p["s"]) == d) for d in range(1, 5)},
                                     "steps_by_kind": kinds,
                                     "hash_collisions_between_distinct_paths": res["compiled"]["counts"]["hash_collisions_between_distinct"],
                                     "large_family": (big["compiled"]["counts"] if big else "thorough tier only")}
    # -- builds must agree on repr (C20 owns hashing across builds; here only the text)
    ctx.obligations.append(("compiled and pure builds print every path alike", res["compiled"]["reprs"] == res["pure"]["reprs"], ""))
    # -- model correspondence
    wf_idx = [i for i in range(len(paths)) if wf_for_model(paths[i])]
    mpaths = [paths[i] for i in wf_idx] + extra
    mreprs = [res["compiled"]["reprs"][i] for i in wf_idx] + rextra["reprs"]
    remap = {i: k for k, i in enumerate(wf_idx)}
    meq = [(remap[i], remap[j]) for (i, j) in sample_eq]
    show_mism, eq_mism, err = model_show_mismatches(ctx, mpaths, mreprs, meq, res["compiled"]["eq"], "p")
    corr_ok = err is None and not show_mism and not eq_mism
    ctx.obligations.append(("correspondence: model show = repr(ref) byte for byte on every generated path",
                            err is None and not show_mism, err or f"{len(show_mism or [])} mismatching of {len(mpaths)}"))
    ctx.obligations.append(("correspondence: model == (extracted eq_impl) = implementation == on sampled pairs",
                            err is None and not eq_mism, err or f"{len(eq_mism or [])} mismatching of {len(meq)}"))
    # -- verdicts
    viol, known_hit = [], []
    for build in ("compiled", "pure"):
        for f in res[build]["failures"]:
            (known_hit if classify(paths, f) else viol).append((build, f))
    bigfail = []
    if big:
        for b in big:
            bigfail += [(b, f) for f in big[b]["failures"]]
    ctx.obligations.append(("oracle: equal / same hash / same dict entry <=> same path, all pairs, both builds (outside the known finding)",
                            not viol and not bigfail, f"{len(viol) + len(bigfail)} failing pairs"))
    # known finding: re-run its witness
    kf = [e for e in vlib.known_findings("C06") if e.get("kind") == "known"]
    for e in kf:
        w = e["witness"]
        r = run_pairs([w["one_step"], w["two_step"]], "allpairs")
        still = any(f["i"] != f["j"] for f in r["failures"])
        if still:
            vlib.known(ctx, f"{e['signature']}: getattr(c, 'a.b') == c.a.b is True although the paths differ; hashes differ, "
                            f"dict lookup misses ({len(known_hit)} such pairs among the generated ones)")
        else:
            ctx.notes.append("known finding C06 (dotted attribute name): witness no longer fails")
    if known_hit and not kf:
        viol += known_hit
    if viol:
        build, f = viol[0]
        p, q = paths[f["i"]], paths[f["j"]]
        if f["i"] != f["j"]:
            p, q = shrink_pair(p, q, pair_fails(build))
        r = run_pairs([p, q], "allpairs", build=build)
        vlib.violation(ctx, {"kind": "oracle", "what": "two independently built references: ==, hash, dict entry do not match 'same path'",
                             "build": build, "paths": [p, q], "reprs": [rc.from_cps(x) for x in r["reprs"]],
                             "pair_results": r["failures"], "first_failure_as_generated": f,
                             "how_to_replay": "./check C06 --replay <this file>"})
    elif bigfail:
        b, f = bigfail[0]
        vlib.violation(ctx, {"kind": "oracle-large-family", "build": b, "failure": f,
                             "what": "100000-key family: dictionary keyed by one construction, looked up by the other"})
    elif not proof_ok or not corr_ok:
        what = list(getattr(ctx, "broken", []))
        if err:
            what.append(err)
        first = None
        if show_mism:
            i = show_mism[0]
            first = {"path": mpaths[i], "impl_repr": rc.from_cps(mreprs[i])}
            what.append(f"model show != repr(ref) on {len(show_mism)} paths, first: {json.dumps(first)}")
        if eq_mism:
            what.append(f"model == differs from implementation == on {len(eq_mism)} sampled pairs")
        # search harder with the oracle: thorough-size random families
        found = None
        for _ in range(4):
            ps = dedupe(family_similar(rng) + [gen_path(rng) for _ in range(300)])
            for build in ("compiled", "pure"):
                r = run_pairs(ps, "allpairs", build=build)
                bad = [f for f in r["failures"] if not classify(ps, f)]
                if bad:
                    found = (build, ps, bad[0])
                    break
            if found:
                break
        if found:
            build, ps, f = found
            p, q = shrink_pair(ps[f["i"]], ps[f["j"]], pair_fails(build)) if f["i"] != f["j"] else (ps[f["i"]], ps[f["j"]])
            r = run_pairs([p, q], "allpairs", build=build)
            vlib.violation(ctx, {"kind": "oracle", "build": build, "paths": [p, q], "reprs": [rc.from_cps(x) for x in r["reprs"]],
                                 "pair_results": r["failures"], "also_broken": what})
        else:
            vlib.violation(ctx, {"kind": "proof-or-correspondence", "no_longer_checks": what, "first_model_mismatch": first,
                                 "searched": "4 x (similar-key family + 300 random paths), all pairs, both builds: no failing pair"},
                           no_input=True)


def replay(ctx, data):
    if not data.get("paths"):
        print("replay file names a broken theorem/correspondence, no concrete input:", data.get("no_longer_checks") or data.get("failure"))
        return 1
    build = data.get("build", "compiled")
    r = run_pairs(data["paths"], "allpairs", build=build)
    print(json.dumps({"reprs": [rc.from_cps(x) for x in r["reprs"]], "failures": r["failures"], "counts": r["counts"]}, indent=1))
    bad = [f for f in r["failures"] if not classify(data["paths"], f)]
    if bad:
        print(f"VIOLATION property=C06 replay=(given) : {bad[0]}")
        return 1
    print("replay: every pair satisfies 'equal <=> same path' on this input")
    return 0
