"""C13 — generated setter functions are equivalent to assigning through the manager.

Proof : coq/props/C13.v — the source produced by mk_fun lists exactly the tasks
        triggered by the arguments (and their enclosing containers), once each,
        producers first, for every set order; executing it on the plain containers
        leaves every definition consistent and every argument location holding its
        value (under C01's hypotheses), which the manager route also guarantees.
Tie   : model (MGenFun) vs the real gen_fun executed on the real containers;
        oracle: a twin manager with the same definitions over copied containers,
        assigned through set_value, ends with identical container contents.
"""
import json, itertools
import vlib, mgr_common as mc


def gen_cases(ctx, n):
    cases = []
    for i in range(n):
        c = mc.gen_history(ctx.rng, ["assign", "assign", "assign_flat"][i % 3], nops=ctx.rng.randint(3, 14),
                           keys=("strings" if i % 2 else None),       # keys that need escaping in the generated source
                           values="mixed" if i % 5 == 4 else "int")  # 1 in 5 over mixed value types (twin oracle only)
        # function arguments: leaves that hold no definition at the end of the history
        flat = mc.flat
        defined = set()
        for op in c["ops"]:
            if op[0] == "set":
                key = json.dumps(flat(op[1]))
                if op[2][0] == "expr":
                    defined.add(key)
                else:
                    defined.discard(key)
            elif op[0] == "unregister":
                defined.discard(json.dumps(flat(op[1])))
        free = [p for p in mc.leaves_of(c) if json.dumps(flat(p)) not in defined]
        if not free:
            continue
        fst = [n for l, n in c["store"] if l == "f"][0]
        fstep = "a" if fst["kind"] == "obj" else "i"
        if ctx.rng.random() < 0.35:
            # a definition that CALLS THROUGH a function location, evaluated once, before the function object at that location
            # is replaced (by the generated function / by the manager route): whatever an expression node remembers from its
            # first evaluation must not survive the replacement.  Acyclic by construction: the summed container holds plain
            # free leaves only and the target is a free leaf outside it.
            conts = []

            def walk(node, pre):
                stp = "i" if node["kind"] in ("dict", "list", "userdict") else "a"
                ms = [pre + [[stp, k_]] for k_, v in node["items"]]
                if pre != ["c"] and all(not isinstance(v, dict) for _, v in node["items"]):
                    conts.append((pre, ms))
                for k_, v in node["items"]:
                    if isinstance(v, dict):
                        walk(v, pre + [[stp, k_]])
            walk([n for l, n in c["store"] if l == "c"][0], ["c"])
            fj = [json.dumps(flat(p)) for p in free]
            ok = [(cp, ms) for cp, ms in conts if all(json.dumps(flat(m_)) in fj for m_ in ms)]
            if ok:
                cp, ms = ctx.rng.choice(ok)
                outside = [p for p in free if p[:len(cp)] != cp and p[0] == "c"]
                if outside:
                    t = ctx.rng.choice(outside)
                    c["ops"].append(["set", t, ["expr", ["callsum", ["f", [fstep, "sum"]], cp]], ctx.rng.choice(mc.ROUTES)])
                    free = [p for p in free if p != t]
                    defined.add(json.dumps(flat(t)))
                    if not free:
                        continue
        k = ctx.rng.choice([1, 1, 2, 2, 3, 4])
        args = ctx.rng.sample(free, min(k, len(free)))
        vals = [mc.gen_value(ctx.rng, "mixed" if i % 5 == 4 else "int") for _ in args]
        # exponents of ** with a literal base that are free locations: set through the generated function to 0 / small
        # integers (how the literal base prints decides (-x) ** n against -(x ** n))
        exps = []

        def find_pow(e):
            if isinstance(e, list) and e and e[0] == "bin":
                if e[1] == "**" and e[3][0] == "ref":
                    exps.append(e[3][1])
                find_pow(e[2]); find_pow(e[3])
            elif isinstance(e, list) and e and e[0] == "proj":
                find_pow(e[2])
        for op in c["ops"]:
            if op[0] == "set" and op[2][0] == "expr":
                find_pow(op[2][1])
        exps = [p for p in exps if json.dumps(flat(p)) not in defined]
        if exps and ctx.rng.random() < 0.8:
            p = ctx.rng.choice(exps)
            if p in args:
                vals[args.index(p)] = ctx.rng.choice([0, 0, 0, 2, 1, 3])
            else:
                args.append(p); vals.append(ctx.rng.choice([0, 0, 0, 2, 1, 3]))
        fst = [n for l, n in c["store"] if l == "f"][0]
        called = [m_ for op in c["ops"] if op[0] == "set" and op[2][0] == "expr"
                  for m_ in __import__("re").findall(r'\["callsum", (\["f", \["[ai]", "sum"\]\])', json.dumps(op[2][1]))]
        if called and ctx.rng.random() < 0.7:
            floc = json.loads(ctx.rng.choice(called))         # a function location some definition calls through
            args = args + [floc]
            vals = vals + ["FunSum2" if floc[1][1] == "sum" else "FunSum"]
        elif ctx.rng.random() < 0.25:
            # a function location as an argument of the generated function: another function object is put there, every
            # definition calling through that location is re-evaluated with it
            args = args + [["f", ["a" if fst["kind"] == "obj" else "i", "sum"]]]
            vals = vals + [ctx.rng.choice(["FunSum", "FunSum2"])]
        c["ops"].append(["genfun", args, vals])
        if ctx.rng.random() < 0.4:      # a second call of a new function on the updated state
            args2 = ctx.rng.sample(free, min(ctx.rng.choice([1, 2]), len(free)))
            c["ops"].append(["genfun", args2, [ctx.rng.randint(-9, 9) for _ in args2]])
        cases.append(c)
    return cases


def subset_cases():
    """every non-empty subset of <= 4 leaves of a fixed nested manager as arguments"""
    R = lambda k: ["c", ["i", k]]
    N = lambda k: ["c", ["i", "n"], ["a", k]]
    L = lambda i: ["c", ["i", "l"], ["i", i]]
    store = [["c", {"kind": "dict", "items": [["a", 1], ["b", 2], ["s", 0], ["t", 0], ["u", 0],
                                              ["n", {"kind": "obj", "items": [["x", 3], ["y", 0]]}],
                                              ["l", {"kind": "list", "items": [[0, 1], [1, 2], [2, 3]]}]]}],
             ["f", {"kind": "dict", "items": [["sum", "FunSum"]]}]]
    defs = [["set", R("s"), ["expr", ["callsum", ["f", ["i", "sum"]], ["c", ["i", "l"]]]]],       # reads a whole container
            ["set", N("y"), ["expr", ["bin", "*", ["ref", R("a")], ["ref", N("x")]]]],
            ["set", R("t"), ["expr", ["bin", "+", ["ref", N("y")], ["ref", R("b")]]]],
            ["set", R("u"), ["expr", ["bin", "-", ["ref", R("t")], ["ref", R("s")]]]]]
    leaves = [R("a"), R("b"), N("x"), L(1)]
    out = []
    for k in range(1, 5):
        for sub in itertools.combinations(leaves, k):
            out.append({"store": store, "ops": defs + [["genfun", list(sub), [7 + i for i in range(k)]]]})
    return out


ZERO_ONLY = []      # (case, op, text): the generated function and the manager route differ in the sign of a zero only


def known_zero_status():
    """does the witness of the known finding cython-signed-zero still reproduce on the compiled build?"""
    for e in vlib.known_findings("C13"):
        if e["kind"] == "known" and e["signature"].startswith("cython-signed-zero"):
            o = mc.run_impl_cases([{"store": e["witness"]["store"], "ops": e["witness"]["ops"]}])[0][-1]
            g = o.get("genfun") or {}
            return e, (g.get("equal") is False and bool(g.get("zero_only")))
    return None, False


def oracle(cases, obs):
    fails = []
    for i, (c, ol) in enumerate(zip(cases, obs)):
        taint = mc.tainted_prefix(ol)
        for k, (op, o) in enumerate(zip(c["ops"], ol)):
            if o["oracle"]["canon"] and any("registry" in str(x) or "label" in str(x) for x in o["oracle"]["canon"]):
                fails.append((i, k, f"the container registry gen_fun reads changed: {o['oracle']['canon'][-1]}")); break
            g = o.get("genfun")
            if not g or "skipped" in g:
                continue
            if g.get("listed_mismatch"):
                fails.append((i, k, f"the generated source does not list exactly the triggered tasks: {g['listed_mismatch']}")); break
            if g.get("order"):
                fails.append((i, k, f"the generated source lists a consumer before its producer: {g['order']}")); break
            if g["err"] is not None and not g.get("cycle") and taint is None and not g.get("twin_err"):
                fails.append((i, k, f"the generated function raised {g['err']}")); break
            if g["err"] is None and g.get("own_differs") and g.get("equal") is not False and not g.get("cycle") and taint is None:
                fails.append((i, k, "containers after the generated function differ from assigning the same values through THIS manager "
                                    f"(a freshly loaded manager agrees with the function): {g['own_differs']}")); break
            if g["err"] is None and g.get("equal") is False and g.get("zero_only") and not g.get("cycle") and taint is None and not g.get("twin_err"):
                ZERO_ONLY.append((i, k, f"containers differ from assigning through the manager in the sign of a zero: {g.get('diff')}")); continue
            if g["err"] is None and g.get("equal") is False and not g.get("cycle") and taint is None and not g.get("twin_err"):
                fails.append((i, k, f"containers differ from assigning through the manager: {g.get('diff')}")); break
    return fails


def run(ctx):
    ctx.rule = ("random acyclic managers of expression tasks over dict/list/attribute and function containers (built by assignment histories), "
                "then gen_fun over 1-4 leaves that hold no definition, called with random integers; plus every non-empty subset of 4 leaves "
                "of a fixed nested manager incl. a task reading a whole container; non-trivial = a generated function listing >= 1 task; "
                "distinct by op list")
    ctx.scale_if_changed()
    proof_ok = vlib.standard_proof_part(ctx, "props/C13.v", extra_targets=["run/RunManager.vo", "proofs/TasksSrc.vo", "proofs/TasksSrcData.vo", "proofs/TasksSrcRefresh.vo", "proofs/TasksSrcSorting.vo"], translators=["tasks"])
    cases = subset_cases() + gen_cases(ctx, ctx.pick(260, 5000))
    obs = mc.run_impl_cases(cases)
    mism = mc.model_compare(ctx, cases, obs, "c13")
    fails = oracle(cases, obs)
    sub = cases[: ctx.pick(60, 600)]
    for sd in range(1, ctx.pick(3, 8)):
        fails += oracle(sub, mc.run_impl_cases(sub, hashseed=sd))
    fails += oracle(sub, mc.run_impl_cases(sub, build="pure"))
    e, reproduces = known_zero_status()
    if reproduces:
        vlib.known(ctx, "the generated function computes with Python's arithmetic, the manager with the Cython-generated code whose float*int "
                        "keeps the sign of a zero operand (see C20 cython-signed-zero): witness c['t'] = c['a'] * c['k'] with a = -0.0, k = -8 gives 0.0 "
                        f"through the generated function and -0.0 through the manager; {len(ZERO_ONLY)} generated cases differ in the sign of a zero only")
    else:
        if e is not None:
            ctx.notes.append("known finding C13/cython-signed-zero: the witness no longer reproduces on this tree")
        fails += ZERO_ONLY
    ctx.cov["sign_of_zero_only_differences"] = len(ZERO_ONLY)
    for c, ol in zip(cases, obs):
        for o in ol:
            g = o.get("genfun")
            if g and g.get("listed"):
                ctx.nontrivial.add(json.dumps(c["ops"]))
    ctx.evaluations = sum(len(c["ops"]) for c in cases)
    ctx.traces = sum(1 for ol in obs for o in ol if o.get("genfun"))
    g0 = [o.get("genfun") for o in obs[3] if o.get("genfun")]
    ctx.samples = [{"ops": cases[3]["ops"][-1], "source": (g0[0] or {}).get("source"), "equal_to_manager_route": (g0[0] or {}).get("equal")}]
    ctx.cov["input_distribution"] = {"ops": mc.op_distribution(cases),
                                     "functions_called": ctx.traces,
                                     "tasks_listed_hist": {str(n): sum(1 for ol in obs for o in ol if o.get("genfun") and len(o["genfun"].get("listed", [])) == n) for n in range(0, 8)},
                                     "tainted_by_order_cycle": sum(1 for ol in obs if mc.tainted_prefix(ol) is not None or any((o.get("genfun") or {}).get("cycle") for o in ol))}
    mc.decide(ctx, proof_ok, cases, obs, mism, fails)


def replay(ctx, data):
    case = data.get("case")
    if not case:
        print("no concrete input in this replay file:", data.get("no_longer_checks")); return 1
    obs = mc.run_impl_cases([case])
    f = oracle([case], obs)
    print(json.dumps([o.get("genfun") for o in obs[0] if o.get("genfun")])[:1500])
    if f:
        print("VIOLATION property=C13 replay=(given):", f[0][2]); return 1
    print("replay: the implementation satisfies the C13 oracle on this case"); return 0
