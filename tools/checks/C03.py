"""C03 — removing or replacing a definition leaves no trace.

Proof : coq/props/C03.v — the index invariant (all four indices, with
        multiplicities, are a function of the surviving task set) is preserved
        by register/unregister and by every operation of a history; refresh =
        clone; verify succeeds; counts are history independent.
Tie   : model coq/model/Manager.v + ManagerData.v vs xdeps.tasks.Manager, exact
        comparison after every operation; oracle on the implementation: indices
        == canonical counts from the public task attributes, no KeyError from a
        removed task, and a fresh manager loaded with the surviving definitions
        answers queries / reacts to follow-up assignments identically.
"""
import json
import vlib, mgr_common as mc


def gen_cases(ctx, n):
    cases = []
    for i in range(n):
        prof = ["mixed", "windows", "assign", "dag", "flat", "mixed", "windows"][i % 7]
        c = mc.gen_history(ctx.rng, prof, nops=ctx.rng.randint(10, 24) if prof == "windows" else None,
                           values="mixed" if i % 6 == 5 else "int", literals=True,
                           keys="exotic" if i % 8 == 3 else "auto")      # key TYPES (nan, tuples, numpy ints, enums ...) in one case of eight      # 1 in 6 over mixed value types (oracles only)
        lv = mc.leaves_of(c)
        fol = [[ctx.rng.choice(lv), ctx.rng.randint(-9, 9)] for _ in range(3)]
        if i % 3 == 0 and len(c["ops"]) > 3:
            # a clone made in the middle of the history is kept alive and used after the original went on
            # (definitions removed / replaced since); it must behave like a fresh manager with ITS definitions
            c["ops"].insert(ctx.rng.randint(1, len(c["ops"]) - 1), ["clone"])
            c["ops"].append(["useclone", [[ctx.rng.choice(lv), ctx.rng.randint(-9, 9)] for _ in range(3)]])
        c["ops"].append(["freshcheck", lv, fol])
        cases.append(c)
    return cases


CORPUS = [
    # F3 witness: the edge held by a task writing a sibling must go away with the task
    {"store": [["c", {"kind": "dict", "items": [["n", {"kind": "obj", "items": [["x", 1], ["y", 2], ["z", 0], ["w", 0]]}]]}]],
     "ops": [["set", ["c", ["i", "n"], ["a", "z"]], ["expr", ["bin", "+", ["ref", ["c", ["i", "n"], ["a", "x"]]], ["const", 1]]]],
             ["set", ["c", ["i", "n"], ["a", "w"]], ["expr", ["bin", "*", ["ref", ["c", ["i", "n"], ["a", "y"]]], ["const", 2]]]],
             ["set", ["c", ["i", "n"], ["a", "z"]], ["plain", 5]],
             ["set", ["c", ["i", "n"], ["a", "y"]], ["plain", 7]], ["verify"]]},
]


def oracle(cases, obs):
    fails = []
    for i, (c, ol) in enumerate(zip(cases, obs)):
        taint = mc.tainted_prefix(ol)
        for k, (op, o) in enumerate(zip(c["ops"], ol)):
            if o["oracle"]["canon"]:
                fails.append((i, k, f"indices differ from what the surviving tasks define: {o['oracle']['canon']}"))
                break
            if o["err"] is None and o["oracle"].get("defn"):
                fails.append((i, k, "a replaced definition survives: " + o["oracle"]["defn"]))
                break
            if op[0] in ("set", "inplace") and o["err"] in ("KeyError", "RecursionError"):
                fails.append((i, k, f"assignment raised {o['err']}"))
                break
            tr = o["oracle"].get("trace")
            if tr and o["err"] is None and taint is None and any(x in tr for x in ("dup", "set_mismatch", "ran_untriggered")):
                fails.append((i, k, "an assignment ran tasks other than those the surviving definitions trigger "
                              f"(a removed or replaced task left a trace): {json.dumps(tr)[:400]}"))
                break
            if op[0] == "verify" and o["err"] is not None:
                fails.append((i, k, "verify() failed: " + str(o["err"])))
                break
            cl = o.get("clone")
            if cl and cl.get("problems") and not cl.get("cycle") and taint is None:
                fails.append((i, k, f"a clone made earlier does not behave like a fresh manager holding its definitions: {cl['problems'][:2]}"))
                break
            fr = o.get("fresh")
            if fr and "skipped" not in fr:
                if fr["queries"]:
                    fails.append((i, k, f"query answers differ from a fresh manager with the surviving definitions: {fr['queries'][:2]}"))
                    break
                if fr["followup"] and not fr["cycle"] and taint is None:
                    fails.append((i, k, f"follow-up assignment reacts differently from a fresh manager: {fr['followup'][:2]}"))
                    break
    return fails


def run(ctx):
    ctx.rule = ("random manager histories over nested dict/list/attribute containers (assign value/expression, in-place, unregister, "
                "register function/knob tasks, load, refresh/verify/cleanup; 2 in 7 with frozen windows incl. unbalanced freeze/unfreeze and "
                "repeated assignments to the same few locations), each ended by a comparison with a fresh manager loaded with "
                "the surviving definitions (queries + 3 follow-up assignments); non-trivial = a definition was replaced or removed; "
                "distinct by op list")
    ctx.scale_if_changed()
    proof_ok = vlib.standard_proof_part(ctx, "props/C03.v", extra_targets=["run/RunManager.vo", "proofs/TasksSrc.vo", "proofs/TasksSrcData.vo", "proofs/TasksSrcRefresh.vo", "proofs/TasksSrcSorting.vo"], translators=["tasks"])
    cases = CORPUS + gen_cases(ctx, ctx.pick(250, 4000))
    obs = mc.run_impl_cases(cases)
    # the model does not interpret "freshcheck": compare on the history without it
    SKIP = ("freshcheck", "clone", "useclone")
    mcases = [dict(c, ops=[o for o in c["ops"] if o[0] not in SKIP]) for c in cases]
    mobs = [[o for op, o in zip(c["ops"], ol) if op[0] not in SKIP] for c, ol in zip(cases, obs)]
    mism = mc.model_compare(ctx, mcases, mobs, "c03")
    fails = oracle(cases, obs)
    for c in cases:
        seen, nt = set(), False
        for op in c["ops"]:
            if op[0] in ("set", "inplace", "unregister", "load"):
                key = json.dumps(op[1]) if op[0] != "load" else "load"
                if key in seen or op[0] == "unregister":
                    nt = True
                seen.add(key)
        if nt:
            ctx.nontrivial.add(json.dumps(c["ops"]))
    ctx.evaluations = sum(len(c["ops"]) for c in cases)
    ctx.traces = len(cases)
    ctx.samples = [{"ops": cases[-1]["ops"][:6], "last_observation": {k: v for k, v in obs[-1][-1].items() if k in ("err", "fresh")}}]
    ctx.cov["input_distribution"] = {"ops": mc.op_distribution(cases),
                                     "tainted_by_order_cycle": sum(1 for ol in obs if mc.tainted_prefix(ol) is not None),
                                     "freshcheck_skipped": sum(1 for ol in obs if "skipped" in (ol[-1].get("fresh") or {}))}
    mc.decide(ctx, proof_ok, cases, obs, mism, fails)


def replay(ctx, data):
    case = data.get("case")
    if not case:
        print("no concrete input in this replay file:", data.get("no_longer_checks")); return 1
    obs = mc.run_impl_cases([case])
    f = oracle([case], obs)
    print(json.dumps(obs[0][-1].get("oracle")), json.dumps(obs[0][-1].get("fresh")))
    if f:
        print("VIOLATION property=C03 replay=(given):", f[0][2]); return 1
    print("replay: the implementation satisfies the C03 oracle on this case"); return 0
