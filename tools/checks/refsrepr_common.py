"""Shared by the C06 and C11 checks: JSON encoding of reference/expression
terms (the same trees are sent to the implementation runners and emitted as
Coq `term`s of coq/model/RefSyntax.v), float tokens, oracles sampled from
Python (printability of code points, repr of floats).

Term JSON:
  ["const", lit]                      lit = ["i", "<decimal>"] | ["f", "<float.hex>"] | ["s", [code points]]
                                            | ["t", [lit, ...]] | ["b", 0|1] | ["n"]
  ["top", "<label>", 0|1]             Ref / ObjectAttrRef
  ["item", owner, key_term]           ["attr", owner, [code points of the name]]
  ["bin", "<ClassName>", lhs, rhs]    ["un", "<ClassName>", arg]
  ["builtin", "<fn>", arg, [params]]  fn in divmod round trunc floor ceil abs
  ["call", func, [args], [["<kw>", term], ...]]
"""
import os, sys, math
import vlib

sys.path.insert(0, os.path.join(vlib.VERIF, "tools", "py2v"))
import refs_common  # noqa: E402


def class_ids():
    """class name -> id (source order in xdeps/refs.py), as used by every generated table"""
    return {n: i for i, n, _, _ in refs_common.classes(refs_common.parse("xdeps/refs.py"))}


BUILTINS = ["divmod", "round", "trunc", "floor", "ceil", "abs"]  # order = first use in BaseRef (gen_refsrepr.py)


def cps(s):
    return [ord(c) for c in s]


def from_cps(l):
    return "".join(chr(c) for c in l)


def clistN(l):
    return "[" + "; ".join(str(int(c)) for c in l) + "]"


class FloatTokens:
    """float -> token: 2*m + sign, m = index of the magnitude's hex form (C11's
    token model reads the parity as the sign)"""
    def __init__(self):
        self.mag = {}

    def tok(self, hexs):
        x = float.fromhex(hexs)
        neg = math.copysign(1.0, x) < 0
        key = abs(x).hex()
        if key not in self.mag:
            self.mag[key] = len(self.mag)
        return 2 * self.mag[key] + (1 if neg else 0)

    def table(self):
        """[(tok, repr text)] for both signs of every magnitude seen"""
        out = []
        for key, m in self.mag.items():
            x = float.fromhex(key)
            out.append((2 * m, repr(x)))
            out.append((2 * m + 1, repr(-x)))
        return out

    def coq(self):
        return "[" + "; ".join(f"({t}, {clistN(cps(r))})" for t, r in self.table()) + "]"


def lit_chars(l, acc):
    k = l[0]
    if k == "s":
        acc.update(l[1])
    elif k == "t":
        for x in l[1]:
            lit_chars(x, acc)


def term_chars(t, acc):
    """code points occurring in the strings of a term (for the printable table)"""
    k = t[0]
    if k == "const":
        lit_chars(t[1], acc)
    elif k == "top":
        acc.update(cps(t[1]))
    elif k == "item":
        term_chars(t[1], acc); term_chars(t[2], acc)
    elif k == "attr":
        term_chars(t[1], acc); acc.update(t[2])
    elif k == "bin":
        term_chars(t[2], acc); term_chars(t[3], acc)
    elif k == "un":
        term_chars(t[2], acc)
    elif k == "builtin":
        term_chars(t[2], acc)
        for p in t[3]:
            term_chars(p, acc)
    elif k == "call":
        term_chars(t[1], acc)
        for a in t[2]:
            term_chars(a, acc)
        for kw, v in t[3]:
            acc.update(cps(kw)); term_chars(v, acc)


def printable_table(chars):
    """the code points among `chars` that Python's repr leaves unescaped
    (str.isprintable; lone surrogates are not printable)"""
    return sorted(c for c in chars if c >= 128 and chr(c).isprintable())


def emit_lit(l, ft):
    k = l[0]
    if k == "i":
        z = int(l[1])
        return f"(LInt ({z})%Z)"
    if k == "f":
        return f"(LFloat {ft.tok(l[1])})"
    if k == "s":
        return f"(LStr {clistN(l[1])})"
    if k == "t":
        return "(LTup [" + "; ".join(emit_lit(x, ft) for x in l[1]) + "])"
    if k == "b":
        return f"(LBool {'true' if l[1] else 'false'})"
    if k == "n":
        return "LNone"
    raise ValueError(l)


def emit_term(t, ft, cid):
    k = t[0]
    if k == "const":
        return f"(TConst {emit_lit(t[1], ft)})"
    if k == "top":
        return f"(TTop {clistN(cps(t[1]))} {'true' if t[2] else 'false'})"
    if k == "item":
        return f"(TItem {emit_term(t[1], ft, cid)} {emit_term(t[2], ft, cid)})"
    if k == "attr":
        return f"(TAttr {emit_term(t[1], ft, cid)} (TConst (LStr {clistN(t[2])})))"
    if k == "bin":
        return f"(TBin {cid[t[1]]} {emit_term(t[2], ft, cid)} {emit_term(t[3], ft, cid)})"
    if k == "un":
        return f"(TUn {cid[t[1]]} {emit_term(t[2], ft, cid)})"
    if k == "builtin":
        return (f"(TBuiltin {BUILTINS.index(t[1])} {emit_term(t[2], ft, cid)} ["
                + "; ".join(emit_term(p, ft, cid) for p in t[3]) + "])")
    if k == "call":
        return (f"(TCall {emit_term(t[1], ft, cid)} [" + "; ".join(emit_term(a, ft, cid) for a in t[2]) + "] ["
                + "; ".join(f"({clistN(cps(kw))}, {emit_term(v, ft, cid)})" for kw, v in t[3]) + "])")
    raise ValueError(t)


def path_term(p):
    """path description {"l": label, "k": kind, "s": [["i", lit] | ["a", cps]]} -> term JSON"""
    t = ["top", p["l"], p["k"]]
    for st in p["s"]:
        t = ["item", t, ["const", st[1]]] if st[0] == "i" else ["attr", t, st[1]]
    return t


COQ_HEADER = ("From Coq Require Import List ZArith NArith.\n"
              "From XD Require Import model.RefSyntax lib.PyStr model.RefsShow {extra}.\n"
              "Import ListNotations.\nOpen Scope N_scope.\n")
