"""C08 — table row selection follows the documented selector semantics, in table order.

Proof part : coq/props/C08.v (model = naive specification for every selector
             form, composition law, indices/mask/rows describe the same rows,
             independence of the set-iteration oracle).
Tie        : hand-written model coq/model/TableSel.v, correspondence on every
             generated (table, query): rows / rows.indices / rows.mask compared
             (model evaluated by vm_compute, regex verdicts given as a table).
Oracle     : naive reference selector (tools/impl/tablesel_runner.py) judged on
             the real Table for every query; PYTHONHASHSEED sweep, results must
             be identical across seeds and builds.
"""
import json, itertools, re
from concurrent.futures import ThreadPoolExecutor
import vlib
from vlib import cz, cn, clist, copt, cbool, cnat

RUNNER = "tablesel_runner.py"
ALPHA = ["a", "ab", "c"]
BIG_ALPHA = ["a", "ab", "c", "b", "ca"]
PATTERNS = ["a", "ab", "c", "a.*", ".*", "a|c", "A", "AB", "[ac]", "zz", "a?b", ".", "..", "(a|ab)", "C.*|a"]
ERRMAP = {"KeyError": "EKey", "IndexError": "EIndex", "TypeError": "EType", "ValueError": "EValue"}
SPLIT = re.compile(r"^(.*?)(?:::([+-]?\d+))?(?:(<<|>>)([+-]?\d+))?$", re.S)


def split_sel(text):
    name, cnt, d, k = SPLIT.match(text).groups()
    off = -int(k) if d == "<<" else int(k) if d == ">>" else 0
    return name, (None if cnt is None else int(cnt)), off


def mk_str(p, cnt, off):
    return p + ("" if cnt is None else f"::{cnt}") + (f">>{off}" if off > 0 else f"<<{-off}" if off < 0 else "")


def xcol(n):
    return [(3 * i + 1) % 4 for i in range(n)]


CORE_PATTERNS = ["a", "ab", "a.*", ".*", "A|c", "zz", "a?b", "C.*|a"]


def sel_forms(n, core=False):
    """every selector form, with the parameter variants of the small scope
    (core: the string selectors restricted to 8 of the patterns)"""
    S = []
    S += [["pos", i] for i in range(-n - 1, n + 1)]
    S += [["poslist", l] for l in ([], [0], [n - 1, 0], [0, 0], [-1], [n], [1, 0, 1])]
    S += [["mask", [False] * n], ["mask", [True] * n], ["mask", [i % 2 == 0 for i in range(n)]],
          ["mask", [i % 3 == 1 for i in range(n)]], ["mask", [False] * n + [True]], ["mask", [True] * max(n - 1, 0)]]
    for p in (CORE_PATTERNS if core else PATTERNS):
        for cnt in (None, 0, 1, -1, 2, -2, 5):
            offs = (0, 1, -1) if p in ("a", "a.*", ".*", "A") else (0,)
            for off in offs:
                S.append(["str", mk_str(p, cnt, off)])
    S += [["names", l] for l in (["a"], ["c", "a"], ["a::1", "ab"], ["zz"], ["a::-1", "c<<1"], ["ab::-1", "ab", "a>>1"])]
    S += [["span", a, b] for a, b in (("a", "c"), ("a", None), (None, "ab"), ("a::1", "c::-1"), ("c", "a"), ("a", 2), (1, "c"),
                                      ("zz", "a"), ("a", "zz"), ("a<<1", "c"), ("a", "c>>1"), ("ab::-1", None), (None, "a::1"),
                                      ("a>>1", "c<<1"), (-1, "c"), ("a", -1))]
    S += [["range", lo, hi, "x"] for lo, hi in ((None, None), (1, None), (None, 2), (1, 2), (2, 1), (0, 3), (-5, None), (None, -1), (2, 2))]
    S += [["range", 1, None, "q"], ["range", None, None, "q"]]
    S += [["slice", lo, hi] for lo, hi in ((None, None), (1, None), (None, 2), (1, 3), (-2, None), (None, -1), (3, 1), (0, n + 2), (-n - 3, 2), (-1, -3))]
    S.append(["none"])
    return S


def rep_forms(n, rng):
    """a representative of every selector form and variant, for the pairs"""
    R = [["pos", 0], ["pos", -1], ["pos", n], ["poslist", [n - 1, 0]], ["poslist", []], ["poslist", [0, 0]],
         ["mask", [i % 2 == 0 for i in range(n)]], ["mask", [True] * n], ["mask", [rng.random() < 0.5 for _ in range(n)]],
         ["str", "a"], ["str", "a.*"], ["str", ".*"], ["str", "A|c"], ["str", "a.*::0"], ["str", "a.*::-1"], ["str", ".*::1"],
         ["str", "a::1"], ["str", "c::-1"], ["str", "a.*::0>>1"], ["str", "a<<1"], ["str", "zz"],
         ["names", ["c", "a"]], ["names", ["a::1"]], ["names", ["zz"]],
         ["span", "a", "c"], ["span", "a::1", None], ["span", None, "ab"], ["span", "a", 2], ["span", "c", "a"],
         ["range", 1, None, "x"], ["range", None, 2, "x"], ["range", 1, 2, "x"], ["range", None, None, "x"],
         ["slice", 1, None], ["slice", None, -1], ["slice", 1, 3], ["none"]]
    return R


def rand_sel(rng, n, alpha):
    k = rng.random()
    if k < 0.08:
        return ["pos", rng.randint(-n - 1, n)]
    if k < 0.16:
        return ["poslist", [rng.randint(-n, n - 1) if n and rng.random() < 0.95 else n for _ in range(rng.randint(0, 4))]]
    if k < 0.26:
        m = n if rng.random() < 0.9 else max(0, n + rng.choice([-1, 1]))
        return ["mask", [rng.random() < 0.5 for _ in range(m)]]
    if k < 0.56:
        p = rng.choice(PATTERNS + alpha + [x + ".*" for x in alpha] + ["b|ca", "c.?", "[abc]+"])
        cnt = rng.choice([None, None, 0, 1, -1, 2, -2, 3, -3, 7])
        off = rng.choice([0, 0, 0, 1, -1, 2])
        return ["str", mk_str(p, cnt, off)]
    if k < 0.64:
        return ["names", [mk_str(rng.choice(alpha + (["zz"] if rng.random() < 0.1 else [])), rng.choice([None, 0, 1, -1, 2]),
                                 rng.choice([0, 0, 1, -1])) for _ in range(rng.randint(1, 3))]]
    if k < 0.78:
        def end():
            z = rng.random()
            if z < 0.2:
                return None
            if z < 0.3:
                return rng.randint(-1, n)
            return mk_str(rng.choice(alpha + (["zz"] if rng.random() < 0.05 else [])), rng.choice([None, 0, 1, -1, 2]), rng.choice([0, 0, 0, 1, -1]))
        a, b = end(), end()
        if not isinstance(a, str) and not isinstance(b, str):
            a = rng.choice(alpha)
        return ["span", a, b]
    if k < 0.90:
        lo = rng.choice([None, rng.randint(-3, 6)])
        hi = rng.choice([None, rng.randint(-3, 6)])
        return ["range", lo, hi, rng.choice(["x", "x", "y", "q"])]
    if k < 0.98:
        return ["slice", rng.choice([None, rng.randint(-n - 2, n + 2)]), rng.choice([None, rng.randint(-n - 2, n + 2)])]
    return ["none"]


def small_tables(maxlen):
    out = []
    for L in range(maxlen + 1):
        for idx in itertools.product(ALPHA, repeat=L):
            out.append({"idx": list(idx), "cols": [["x", xcol(L)]]})
    return out


def rand_table(rng):
    alpha = BIG_ALPHA[:rng.choice([3, 4, 5])]
    n = rng.randint(6, 14)
    return {"idx": [rng.choice(alpha) for _ in range(n)],
            "cols": [["x", [rng.randint(-3, 6) for _ in range(n)]], ["y", [rng.randint(-3, 6) for _ in range(n)]]]}, alpha


# ---- Coq emission ---------------------------------------------------------------

def emit_endpoint(e, N):
    if e is None:
        return "EpNone"
    if isinstance(e, str):
        nm, cnt, off = split_sel(e)
        return f"(EpName {cn(N(nm))} {copt(cnt, cz)} {cz(off)})"
    return f"(EpInt {cz(e)})"


def emit_sel(s, N, pats):
    k = s[0]
    if k == "pos":
        return f"(SPos {cz(s[1])})"
    if k == "poslist":
        return f"(SPosList {clist([cz(x) for x in s[1]])})"
    if k == "mask":
        return f"(SMask {clist([cbool(x) for x in s[1]])})"
    if k == "str":
        p, cnt, off = split_sel(s[1])
        pats.add(p)
        return f"(SRegex {cn(N(p))} {copt(cnt, cz)} {cz(off)})"
    if k == "names":
        items = []
        for t in s[1]:
            nm, cnt, off = split_sel(t)
            items.append(f"({cn(N(nm))}, {copt(cnt, cz)}, {cz(off)})")
        return f"(SNameList {clist(items)})"
    if k == "span":
        return f"(SSpan {emit_endpoint(s[1], N)} {emit_endpoint(s[2], N)})"
    if k == "range":
        return f"(SRange {copt(s[1], cz)} {copt(s[2], cz)} {cn(N('col:' + s[3]))})"
    if k == "slice":
        return f"(SSlice {copt(s[1], cz)} {copt(s[2], cz)})"
    if k == "none":
        return "SNone"
    raise ValueError(s)


def emit_res(r, f):
    if r[0] == "ok":
        return f"(Ok {clist([f(x) for x in r[1]])})"
    e = ERRMAP.get(r[1])
    return None if e is None else f"(Err {e})"


def emit_query(q, o, N, pats):
    if "one" in q:
        qs = f"(QOne {emit_sel(q['one'], N, pats)})"
    else:
        qs = f"(QTup {clist([emit_sel(s, N, pats) for s in q['tup']])})"
    parts = [emit_res(o["rows"], cnat), emit_res(o["indices"], cz), emit_res(o["mask"], cbool)]
    if any(p is None for p in parts):
        return None
    return f"({qs}, ({parts[0]}, {parts[1]}, {parts[2]}))"


def emit_file(cases, obs):
    """one case file; returns (text, ids of unrepresentable cases)"""
    N = vlib.Interner()
    pats, names, items, ids, unrep = set(), set(), [], [], []
    for i, (c, ob) in enumerate(zip(cases, obs)):
        qs = [emit_query(q, o, N, pats) for q, o in zip(c["queries"], ob)]
        if any(q is None for q in qs):
            unrep.append(i)
            continue
        names.update(c["idx"])
        t = f"(mkST {clist([cn(N(x)) for x in c['idx']])} " + \
            clist([f"({cn(N('col:' + k))}, {clist([cz(v) for v in vals])})" for k, vals in c["cols"]]) + ")"
        items.append(f"({t},\n  {clist(qs)})")
        ids.append(i)
    mt = []
    for p in sorted(pats):
        rx = re.compile(p, re.IGNORECASE)
        mt.append(f"({cn(N(p))}, {clist([cn(N(x)) for x in sorted(names) if rx.fullmatch(x)])})")
    text = ("From Coq Require Import List ZArith NArith.\nFrom XD Require Import model.Table model.TableSel run.RunTableSel.\n"
            "Import ListNotations.\nDefinition mt : mtable := " + clist(mt) + ".\n"
            "Definition cases : list scase :=\n " + ";\n ".join(items).join(["[", "]"]) + ".\nEval vm_compute in (mismatches mt cases).\n")
    return text, ids, unrep


def impl_many(payloads, configs, timeout):
    """vlib.run_impl_many, robust against a concurrent check pruning the shared
    build cache (vlib keeps the three most recent builds): keep ours recent and
    retry after a rebuild when a module file vanished mid-run"""
    import os, time
    for attempt in range(4):
        try:
            impl = vlib.build_impl()
            for d in impl.values():
                os.utime(os.path.dirname(d))
            return vlib.run_impl_many(RUNNER, payloads, configs, timeout=timeout)
        except vlib.InfraError as e:
            if attempt == 3 or not any(k in str(e) for k in ("No module named", "No such file", "ImportError", "cannot import")):
                raise
            time.sleep(3)


VSTORED = {}


# ---- running ----------------------------------------------------------------------

def run_cases(ctx, cases, seeds, tag, keys=("obs", "ref", "fail")):
    """run every case under every (build, seed); returns (obs0, refs, fails, seed_diffs);
    keys = ("hobs", "href", "hfail") reads the results of the histories instead"""
    KO, KR, KF = keys
    # every (chunk, config) is one process that imports numpy and xdeps: keep chunks x configs near 3x the cores
    nchunk = max(1, min(vlib.NPROC, (len(cases) + 3) // 4, max(2, (3 * vlib.NPROC) // (len(seeds) + 1))))
    size = (len(cases) + nchunk - 1) // nchunk
    parts = list(vlib.chunks(cases, size))
    configs = [("compiled", k) for k in seeds] + [("pure", seeds[-1])]
    res = impl_many([{"cases": p} for p in parts], configs, 3000)
    obs0, refs, fails, diffs = [], [], [], []
    base = 0
    for pi, p in enumerate(parts):
        r0 = res[(pi, "compiled", seeds[0])]
        obs0 += r0[KO]; refs += r0[KR]; fails += r0[KF]
        if KO == "vobs":
            VSTORED.setdefault("last", []).extend(r0["vstored"])
        for (b, k) in configs[1:]:
            rk = res[(pi, b, k)]
            if rk[KO] != r0[KO]:
                for ci in range(len(p)):
                    for qi, (x, y) in enumerate(zip(r0[KO][ci], rk[KO][ci])):
                        if x != y:
                            diffs.append((base + ci, qi, (b, k), x, y))
                            break
        base += len(p)
    return obs0, refs, fails, diffs


def model_mismatches(ctx, cases, obs, tag):
    per = max(1, min(60, (len(cases) + vlib.NPROC - 1) // vlib.NPROC))
    groups = list(vlib.chunks(list(range(len(cases))), per))
    texts, maps, mism = [], [], []
    for g in groups:
        text, ids, unrep = emit_file([cases[i] for i in g], [obs[i] for i in g])
        texts.append(text); maps.append([g[k] for k in ids]); mism += [g[k] for k in unrep]
    for (rc, so, se), ids in zip(vlib.coq_eval_files(ctx, texts, tag), maps):
        lst = vlib.parse_nat_list(so) if rc == 0 else None
        if lst is None:
            raise vlib.InfraError(f"case file evaluation failed: rc={rc} {se[-800:]} {so[-300:]}")
        mism += [ids[k] for k in lst]
    return sorted(set(mism))


def nontrivial(q, o):
    sels = [q["one"]] if "one" in q else q["tup"]
    kinds = {s[0] for s in sels}
    return o["rows"][0] == "ok" and len(o["rows"][1]) > 0 and (kinds & {"str", "span", "range", "names"} or len(sels) > 1)


def build_cases(ctx, maxlen, nrand, pairs_mode):
    """phase 1: every single selector; phase 2: pairs sized with the observed
    length of the first selection"""
    rng = ctx.rng
    tables = small_tables(maxlen)
    alphas = [ALPHA] * len(tables)
    for _ in range(nrand):
        t, al = rand_table(rng)
        tables.append(t); alphas.append(al)
    singles = []
    for t, al in zip(tables, alphas):
        n = len(t["idx"])
        # quick tier: the longest small tables (2/3 of them) get the core patterns only
        S = (sel_forms(n, core=ctx.quick and n == maxlen) if n <= maxlen
             else rep_forms(n, rng) + [rand_sel(rng, n, al) for _ in range(60)])
        singles.append(dict(t, queries=[{"one": s} for s in S] + [{"tup": [s]} for s in S[::7]]))
    return tables, alphas, singles


def pair_cases(ctx, tables, alphas, singles, obs1, maxlen, pairs_mode):
    rng = ctx.rng
    out = []
    for t, al, c, ob in zip(tables, alphas, singles, obs1):
        n = len(t["idx"])
        firsts = [(q["one"], len(o["rows"][1]) if o["rows"][0] == "ok" else None) for q, o in zip(c["queries"], ob) if "one" in q]
        if pairs_mode == "all" and n <= maxlen - 1:
            R = rep_forms(n, rng)
            sizes = {json.dumps(s): m for s, m in firsts}
            chosen = []
            for s1 in R:
                m = sizes.get(json.dumps(s1))
                if m is None:
                    m = n
                for s2 in rep_forms(m, rng):
                    chosen.append([s1, s2])
        else:
            chosen = []
            for _ in range(40 if pairs_mode == "some" else 120):
                s1, m = rng.choice(firsts)
                m = n if m is None else m
                s2 = rng.choice(rep_forms(m, rng)) if rng.random() < 0.5 else rand_sel(rng, m, al)
                chosen.append([s1, s2])
            for _ in range(6):  # triples
                s1, m = rng.choice(firsts)
                m = n if m is None else m
                chosen.append([s1, rng.choice([["none"], ["slice", None, None], ["mask", [True] * m]]), rand_sel(rng, m, al)])
        out.append(dict(t, queries=[{"tup": p} for p in chosen]))
    return out


# ---- histories on one table object ---------------------------------------------------

HIST_SELS = [["str", "a"], ["str", "a.*"], ["str", ".*"], ["str", "A|c"], ["str", "c"], ["str", "ab"], ["str", "a.*::0"],
             ["str", "a.*::-1"], ["str", "a::1"], ["str", "c::-1"], ["str", ".*::1"], ["str", "a.*::0>>1"], ["str", "[ac]"],
             ["names", ["a"]], ["names", ["c", "a"]], ["span", "a", "c"], ["span", "a::1", None], ["span", None, "ab"],
             ["range", 1, None, "x"], ["none"]]


def gen_history(rng, t, alpha, nsel, rounds):
    """choose a few selectors (mostly strings), then alternate: evaluate all of
    them (single and as tuples), edit the index column, evaluate the SAME ones again"""
    n = len(t["idx"])
    S = []
    for _ in range(nsel):
        S.append(rng.choice(HIST_SELS) if rng.random() < 0.75 else rand_sel(rng, n, alpha))
    qs = [{"one": s} for s in S]
    if len(S) >= 2:
        qs.append({"tup": [S[0], S[1]]})
    if rng.random() < 0.5:
        qs.append({"tup": [S[-1]]})
    cur = list(t["idx"])
    hist = [{"sel": q} for q in qs]
    for _ in range(rounds):
        z = rng.random()
        v = rng.choice(alpha)
        if n and z < 0.45:
            i = rng.randint(-n, n - 1) if rng.random() < 0.95 else n
            hist.append({"setcell": [i, v]})
            if -n <= i < n:
                cur[i] = v
        elif n and z < 0.85:
            nm = rng.choice(cur + (["zz"] if rng.random() < 0.05 else []))
            m = cur.count(nm)
            cnt = rng.choice([None, None, 0, -1, rng.randint(0, max(m - 1, 0)), m])
            off = rng.choice([0, 0, 0, 1, -1])
            hist.append({"setcellname": [mk_str(nm, cnt, off), v]})
            ps = [k for k, x in enumerate(cur) if x == nm]
            c = 0 if cnt is None else cnt
            if c < 0:
                c += len(ps)
            if 0 <= c < len(ps) and -n <= ps[c] + off < n:
                cur[ps[c] + off] = v
        else:
            cur = [rng.choice(alpha) for _ in range(n)]
            hist.append({"setidx": [list(cur), rng.choice(["item", "attr"])]})
        hist += [{"sel": q} for q in qs]
    return hist


def hist_cases(ctx, maxlen, nrand, per_table):
    rng = ctx.rng
    out = []
    for t in small_tables(maxlen):
        if not t["idx"]:
            continue
        for _ in range(per_table):
            out.append(dict(t, queries=[], history=gen_history(rng, t, ALPHA, rng.randint(1, 3), rng.randint(1, 3))))
    for _ in range(nrand):
        t, al = rand_table(rng)
        out.append(dict(t, queries=[], history=gen_history(rng, t, al, rng.randint(1, 4), rng.randint(1, 4))))
    return out


def emit_hist_file(cases, hobs):
    N = vlib.Interner()
    pats, names, items, ids, unrep = set(), set(), [], [], []
    for i, (c, ob) in enumerate(zip(cases, hobs)):
        ops, exps, ok = [], [], True
        names.update(c["idx"])
        for h, o in zip(c["history"], ob):
            if "sel" in h:
                q = h["sel"]
                qs = f"(QOne {emit_sel(q['one'], N, pats)})" if "one" in q else f"(QTup {clist([emit_sel(x, N, pats) for x in q['tup']])})"
                parts = [emit_res(o["rows"], cnat), emit_res(o["indices"], cz), emit_res(o["mask"], cbool)]
                if any(p is None for p in parts):
                    ok = False
                    break
                ops.append(f"HSel {qs}"); exps.append(f"HViews {parts[0]} {parts[1]} {parts[2]}")
                continue
            if "setcell" in h:
                names.add(h["setcell"][1])
                ops.append(f"HSetCell {cz(h['setcell'][0])} {cn(N(h['setcell'][1]))}")
            elif "setcellname" in h:
                nm, cnt, off = split_sel(h["setcellname"][0])
                names.add(h["setcellname"][1])
                ops.append(f"HSetCellName {cn(N(nm))} {copt(cnt, cz)} {cz(off)} {cn(N(h['setcellname'][1]))}")
            else:
                names.update(h["setidx"][0])
                ops.append(f"HSetIdx {clist([cn(N(x)) for x in h['setidx'][0]])}")
            if o["set"] == "ok":
                exps.append("HDone")
            elif ERRMAP.get(o["set"][1]):
                exps.append(f"HFail {ERRMAP[o['set'][1]]}")
            else:
                ok = False
                break
        if not ok:
            unrep.append(i)
            continue
        t = f"(mkST {clist([cn(N(x)) for x in c['idx']])} " + \
            clist([f"({cn(N('col:' + k))}, {clist([cz(v) for v in vals])})" for k, vals in c["cols"]]) + ")"
        items.append(f"({t},\n  {clist(ops)},\n  {clist(exps)})")
        ids.append(i)
    mt = []
    for p in sorted(pats):
        rx = re.compile(p, re.IGNORECASE)
        mt.append(f"({cn(N(p))}, {clist([cn(N(x)) for x in sorted(names) if rx.fullmatch(x)])})")
    text = ("From Coq Require Import List ZArith NArith.\nFrom XD Require Import model.Table model.TableSel run.RunTableSel.\n"
            "Import ListNotations.\nDefinition mt : mtable := " + clist(mt) + ".\n"
            "Definition cases : list hcase :=\n " + ";\n ".join(items).join(["[", "]"]) + ".\nEval vm_compute in (hmismatches mt cases).\n")
    return text, ids, unrep


def hist_mismatches(ctx, cases, hobs, tag):
    per = max(1, min(80, (len(cases) + vlib.NPROC - 1) // vlib.NPROC))
    groups = list(vlib.chunks(list(range(len(cases))), per))
    texts, maps, mism = [], [], []
    for g in groups:
        text, ids, unrep = emit_hist_file([cases[i] for i in g], [hobs[i] for i in g])
        texts.append(text); maps.append([g[k] for k in ids]); mism += [g[k] for k in unrep]
    for (rc, so, se), ids in zip(vlib.coq_eval_files(ctx, texts, tag), maps):
        lst = vlib.parse_nat_list(so) if rc == 0 else None
        if lst is None:
            raise vlib.InfraError(f"history case file evaluation failed: rc={rc} {se[-800:]} {so[-300:]}")
        mism += [ids[k] for k in lst]
    return sorted(set(mism))


def shrink_history(case, seeds):
    """drop history steps while the oracle still fails"""
    def bad(c):
        r = vlib.run_impl(RUNNER, {"cases": [c]}, hashseed=seeds[0])
        return any(r["hfail"][0])
    hist = list(case["history"])
    i = 0
    while i < len(hist):
        cand = dict(case, history=hist[:i] + hist[i + 1:])
        if cand["history"] and bad(cand):
            hist = cand["history"]
        else:
            i += 1
    return dict(case, history=hist)


# ---- several tables with their own regex_flags in one process -------------------------

MULTI_ALPHAS = [["a", "ab", "c"], ["A", "ab", "C"], ["MQ1", "mq2", "Ip"], ["a", "AB", "c"]]
MULTI_PATS = ["a", "A", "ab", "AB", "Ab", "c", "C", "a.*", "A.*", ".*", "a|c", "A|C", "[ac]", "[AC].*", "mq.", "MQ.", "mq1|zz", "ip", "IP|mq2", "a?b", "A?B"]


def tablesel_ref_other(tc, q):
    """rows of a plain regex selector under the other case folding (statistics only)"""
    p, cnt, off = split_sel(q["one"][1])
    if cnt is not None or off:
        return None
    rx = re.compile(p, 0 if tc["flags"] != "sensitive" else re.IGNORECASE)
    return [i for i, x in enumerate(tc["idx"]) if rx.fullmatch(x)]


def multi_case(rng):
    """2-3 tables alive in one process that differ in regex_flags (default /
    re.IGNORECASE / 0), same index names up to letter case; the same string
    selectors evaluated on each of them in a random interleaving (so every
    table comes first for some pattern).  Tuples only on case-insensitive
    tables (the views of rows[s1, s2] do not inherit regex_flags)."""
    alpha = rng.choice(MULTI_ALPHAS)
    nt = rng.choice([2, 2, 3])
    flags = ["sensitive", rng.choice(["default", "default", "ignorecase"])] + (["default"] if nt == 3 else [])
    rng.shuffle(flags)
    n = rng.randint(1, 8)
    base = [rng.choice(alpha) for _ in range(n)]
    tables = []
    for fl in flags:
        idx = list(base) if rng.random() < 0.7 else [rng.choice(alpha) for _ in range(rng.randint(1, 8))]
        tables.append({"idx": idx, "cols": [["x", xcol(len(idx))]], "flags": fl})
    steps = []
    for _ in range(rng.randint(2, 6)):
        p = rng.choice(MULTI_PATS + alpha)
        s = ["str", mk_str(p, rng.choice([None, None, None, 0, 1, -1]), rng.choice([0, 0, 0, 1, -1]))]
        order = list(range(nt))
        rng.shuffle(order)
        for k in order + ([rng.randrange(nt)] if rng.random() < 0.3 else []):
            if flags[k] != "sensitive" and rng.random() < 0.25:
                steps.append([k, {"tup": [rng.choice([["none"], ["slice", None, None], ["str", ".*"]]), s]}])
            else:
                steps.append([k, {"one": s}])
    return {"idx": [], "cols": [], "queries": [], "multi": {"tables": tables, "steps": steps}}


def emit_multi_file(cases, mobs):
    N = vlib.Interner()
    pats, names, items, ids, unrep = set(), set(), [], [], []
    for i, (c, ob) in enumerate(zip(cases, mobs)):
        m = c["multi"]
        tabs = []
        for tc in m["tables"]:
            names.update(tc["idx"])
            tabs.append(f"({cbool(tc['flags'] != 'sensitive')}, mkST {clist([cn(N(x)) for x in tc['idx']])} " +
                        clist([f"({cn(N('col:' + k))}, {clist([cz(v) for v in vals])})" for k, vals in tc["cols"]]) + ")")
        steps, ok = [], True
        for (k, q), o in zip(m["steps"], ob):
            qs = f"(QOne {emit_sel(q['one'], N, pats)})" if "one" in q else f"(QTup {clist([emit_sel(x, N, pats) for x in q['tup']])})"
            parts = [emit_res(o["rows"], cnat), emit_res(o["indices"], cz), emit_res(o["mask"], cbool)]
            if any(p is None for p in parts):
                ok = False
                break
            steps.append(f"({cnat(k)}, {qs}, HViews {parts[0]} {parts[1]} {parts[2]})")
        if not ok:
            unrep.append(i)
            continue
        items.append(f"({clist(tabs)},\n  {clist(steps)})")
        ids.append(i)
    mts = []
    for fl in (re.IGNORECASE, 0):
        mt = []
        for p in sorted(pats):
            rx = re.compile(p, fl)
            mt.append(f"({cn(N(p))}, {clist([cn(N(x)) for x in sorted(names) if rx.fullmatch(x)])})")
        mts.append(clist(mt))
    text = ("From Coq Require Import List ZArith NArith.\nFrom XD Require Import model.Table model.TableSel run.RunTableSel.\n"
            "Import ListNotations.\nDefinition mci : mtable := " + mts[0] + ".\nDefinition mcs : mtable := " + mts[1] + ".\n"
            "Definition cases : list mcase :=\n " + ";\n ".join(items).join(["[", "]"]) + ".\nEval vm_compute in (mmismatches mci mcs cases).\n")
    return text, ids, unrep


def multi_mismatches(ctx, cases, mobs, tag):
    per = max(1, min(100, (len(cases) + vlib.NPROC - 1) // vlib.NPROC))
    groups = list(vlib.chunks(list(range(len(cases))), per))
    texts, maps, mism = [], [], []
    for g in groups:
        text, ids, unrep = emit_multi_file([cases[i] for i in g], [mobs[i] for i in g])
        texts.append(text); maps.append([g[k] for k in ids]); mism += [g[k] for k in unrep]
    for (rc, so, se), ids in zip(vlib.coq_eval_files(ctx, texts, tag), maps):
        lst = vlib.parse_nat_list(so) if rc == 0 else None
        if lst is None:
            raise vlib.InfraError(f"multi-table case file evaluation failed: rc={rc} {se[-800:]} {so[-300:]}")
        mism += [ids[k] for k in lst]
    return sorted(set(mism))


def shrink_multi(case, seed):
    def bad(c):
        r = vlib.run_impl(RUNNER, {"cases": [c]}, hashseed=seed)
        return any(r["mfail"][0])
    steps = list(case["multi"]["steps"])
    i = 0
    while i < len(steps):
        cand = dict(case, multi=dict(case["multi"], steps=steps[:i] + steps[i + 1:]))
        if cand["multi"]["steps"] and bad(cand):
            steps = cand["multi"]["steps"]
        else:
            i += 1
    return dict(case, multi=dict(case["multi"], steps=steps))


# ---- a ladder of table sizes (oracle-judged; too long for the vm_compute model) ----------

SIZES = [33, 100, 255, 256, 257, 511, 512, 999, 1000, 1001, 1023, 1024, 1025, 1500, 2047, 2048, 2049, 3000, 4097]
LONG_NAMES = ["mq", "mqx", "mqxa", "mb", "mbx", "d", "drift", "ip", "ipx"]      # names that are prefixes of other names
LONG_PATS = ["mq", "mb", "d", "ip", "mq|mb", "mq.*", "M.", "m.x", "d|ip", "drif", ".*x", "[md].*", "mqx?", "IP"]


def long_case(rng):
    """tables of many sizes (powers of two and thousand +-1 among them: size
    thresholds of fast paths are not known to the generator) over few names, some
    of them prefixes of others, and string selectors that fully match some names
    and only a prefix of others; also spans, ranges, masks and tuples"""
    n = rng.choice(SIZES)
    alpha = rng.sample(LONG_NAMES, rng.randint(4, len(LONG_NAMES)))
    w = [rng.choice([1, 3, 10]) for _ in alpha]
    idx = rng.choices(alpha, weights=w, k=n)
    t = {"idx": idx, "cols": [["x", [rng.randint(-3, 6) for _ in range(n)]]]}
    qs = []
    for _ in range(10):
        p = rng.choice(LONG_PATS + alpha)
        m = max(idx.count(p), 1)
        cnt = rng.choice([None, None, 0, 1, -1, m - 1, m, rng.randint(0, m), -rng.randint(1, m)])
        qs.append({"one": ["str", mk_str(p, cnt, rng.choice([0, 0, 0, 1, -1]))]})
    s1 = ["str", rng.choice(LONG_PATS)]
    qs += [{"tup": [s1, ["range", rng.randint(-3, 2), rng.randint(2, 6), "x"]]}, {"tup": [["slice", n // 3, None], s1]},
           {"one": ["span", rng.choice(alpha), rng.choice(alpha) + "::-1"]}, {"one": ["range", 5, None, "x"]},
           {"one": ["names", [rng.choice(alpha) + "::-1", rng.choice(alpha)]]}]
    return dict(t, queries=qs)


# ---- value ranges on columns of any dtype ----------------------------------------------

DTYPES = ["uint8", "uint16", "uint32", "uint64", "int8", "int16", "int32", "int64", "float16", "float32", "float64", "bool", "object"]
LIMITS = {"uint8": (0, 255), "uint16": (0, 65535), "uint32": (0, 2**32 - 1), "uint64": (0, 2**64 - 1),
          "int8": (-128, 127), "int16": (-32768, 32767), "int32": (-2**31, 2**31 - 1), "int64": (-2**63, 2**63 - 1)}


def vnum(x):
    """number of a JSON-encoded value"""
    return float(x) if isinstance(x, str) else x


def vrange_case(rng):
    """a table with 1-2 columns of a random dtype (unsigned/signed integers of every
    width, float16/32/64 with NaN and infinities, bool, object columns of numbers)
    in sorted / reverse-sorted / constant / unsorted order, and value ranges with
    bounds None / inside / NaN / +-inf / outside the dtype's range"""
    n = rng.randint(0, 8)
    vcols, queries = [], []
    for ci in range(rng.choice([1, 1, 2])):
        dt = rng.choice(DTYPES)
        if dt in LIMITS:
            lo_, hi_ = LIMITS[dt]
            pool = [max(lo_, -5) + k for k in range(10)] + [lo_, hi_, hi_ - 1, lo_ + 1]
            vals = [rng.choice(pool if rng.random() < 0.3 else pool[:10]) for _ in range(n)]
        elif dt == "bool":
            vals = [rng.random() < 0.5 for _ in range(n)]
        else:
            pool = [k / 2 for k in range(-6, 9)]
            vals = [rng.choice(pool) for _ in range(n)]
            if dt == "object":
                vals = [int(v) if v == int(v) and rng.random() < 0.5 else v for v in vals]
            for i in range(n):
                z = rng.random()
                if z < 0.1:
                    vals[i] = "nan"
                elif z < 0.17:
                    vals[i] = rng.choice(["inf", "-inf"])
        order = rng.choice(["sorted", "reverse", "constant", "unsorted", "unsorted"])
        key = lambda v: (1, 0) if v == "nan" else (0, vnum(v))
        if order == "sorted":
            vals.sort(key=key)
        elif order == "reverse":
            vals.sort(key=key, reverse=True)
        elif order == "constant" and vals:
            vals = [vals[0]] * n
        name = f"v{ci}"
        vcols.append([name, dt, vals])
        finite = [vnum(v) for v in vals if v not in ("nan", "inf", "-inf")] or [0]
        def bound():
            z = rng.random()
            if z < 0.2:
                return None
            if z < 0.55:
                return rng.choice(finite) if not isinstance(rng.choice(finite), bool) else int(rng.choice(finite))
            if z < 0.7:
                return rng.choice(finite) + rng.choice([0.5, -0.5, 1, -1])
            if z < 0.78:
                return "nan"
            if z < 0.88:
                return rng.choice(["inf", "-inf"])
            if dt in LIMITS:
                return rng.choice([LIMITS[dt][0] - 1, LIMITS[dt][1] + 1, LIMITS[dt][0], LIMITS[dt][1], -1, 10**20])
            return rng.choice([-100, 100, 2, -1])
        for _ in range(rng.randint(5, 10)):
            lo, hi = bound(), bound()
            if dt in ("uint64", "int64") and any(isinstance(b, float) for b in (lo, hi)) and max(abs(f) for f in finite) > 2**52:
                continue        # a float bound against 64-bit integers beyond 2**53: float rounding, no exact semantics
            queries.append([lo, hi, name])
    return {"idx": [], "cols": [], "queries": [],
            "vtable": {"idx": [rng.choice(ALPHA) for _ in range(n)], "vcols": vcols, "queries": queries}}


def emit_vrange_file(cases, vobs, vstored):
    """values and bounds ranked by the harness (None = NaN); the model sees the ranks"""
    items, ids, unrep = [], [], []
    for i, (c, ob, st) in enumerate(zip(cases, vobs, vstored)):
        v = c["vtable"]
        ok = True
        for cname, dt, _ in v["vcols"]:
            qs = [(q, o) for q, o in zip(v["queries"], ob) if q[2] == cname]
            nums = [vnum(x) for x in st[cname]] + [vnum(b) for q, _ in qs for b in q[:2] if b is not None]
            distinct = sorted({x for x in nums if x == x})
            rank = lambda x: "None" if x != x else f"(Some {cz(distinct.index(x))})"
            col = clist([rank(vnum(x)) for x in st[cname]])
            qt = []
            for q, o in qs:
                if o["indices"][0] != "ok":
                    ok = False
                    break
                lo = "None" if q[0] is None else f"(Some {rank(vnum(q[0]))})"
                hi = "None" if q[1] is None else f"(Some {rank(vnum(q[1]))})"
                qt.append(f"({lo}, {hi}, {clist([cz(x) for x in o['indices'][1]])})")
            if not ok:
                break
            items.append(f"({col}, {clist(qt)})")
            ids.append(i)
        if not ok:
            unrep.append(i)
    text = ("From Coq Require Import List ZArith NArith.\nFrom XD Require Import model.Table model.TableSel run.RunTableSel.\n"
            "Import ListNotations.\nDefinition cases : list vcase :=\n " + ";\n ".join(items).join(["[", "]"]) +
            ".\nEval vm_compute in (vmismatches cases).\n")
    return text, ids, unrep


def vrange_mismatches(ctx, cases, vobs, vstored, tag):
    per = max(1, min(300, (len(cases) + vlib.NPROC - 1) // vlib.NPROC))
    groups = list(vlib.chunks(list(range(len(cases))), per))
    texts, maps, mism = [], [], []
    for g in groups:
        text, ids, unrep = emit_vrange_file([cases[i] for i in g], [vobs[i] for i in g], [vstored[i] for i in g])
        texts.append(text); maps.append([g[k] for k in ids]); mism += [g[k] for k in unrep]
    for (rc, so, se), ids in zip(vlib.coq_eval_files(ctx, texts, tag), maps):
        lst = vlib.parse_nat_list(so) if rc == 0 else None
        if lst is None:
            raise vlib.InfraError(f"value-range case file evaluation failed: rc={rc} {se[-800:]} {so[-300:]}")
        mism += [ids[k] for k in lst]
    return sorted(set(mism))


def first_failure(cases, fails):
    """smallest failing (table, query)"""
    best = None
    for ci, (c, fl) in enumerate(zip(cases, fails)):
        for qi, f in enumerate(fl):
            if f:
                key = (len(c["idx"]), ci, qi)
                if best is None or key < best[0]:
                    best = (key, ci, qi, f)
    return best


def single_case(c, qi):
    if qi >= len(c["queries"]):
        return dict(c, queries=c["queries"][:1])
    return dict(c, queries=[c["queries"][qi]])


def run(ctx):
    maxlen = ctx.pick(4, 5)
    seeds = list(range(ctx.pick(8, 16)))
    ctx.rule = (f"every index column over the names {ALPHA} up to length {maxlen} x every selector form (positions, position lists, masks, "
                f"{len(PATTERNS)} patterns ({len(CORE_PATTERNS)} of them on the length-{maxlen} tables in the quick tier) x 7 counts x offsets, name lists, name spans, value ranges, slices, None) + "
                f"{ctx.pick(12, 400)} random tables of 6..14 rows; tuples: "
                + ctx.pick("40 random pairs + 6 triples per table", "all pairs of 37 representative forms per table up to length 4, 120 random pairs + 6 triples otherwise")
                + f"; PYTHONHASHSEED {seeds[0]}..{seeds[-1]} (compiled) + pure build; non-trivial = a regex/span/range/name-list or tuple "
                "query selecting at least one row, or a history where a re-evaluated selector changes its rows after an edit; distinct by (table, query); "
                "plus histories on ONE table object: 1-4 selectors (single and as tuples) evaluated, then 1-4 rounds of [edit the index "
                "column: a cell by position / a cell by name::count<<off / the whole column; evaluate the SAME selectors again]; plus scenarios with "
                "2-3 tables alive in one process that differ in the constructor argument regex_flags (default / IGNORECASE / 0) and in "
                "the letter case of names, the same string selectors evaluated on each in random interleaving; plus tables with columns of every "
                "dtype (uint8/16/32/64, int8/16/32/64, float16/32/64 with NaN/inf, bool, object numbers; sorted / reverse / constant / unsorted) "
                "and value ranges with bounds None / inside / NaN / +-inf / outside the dtype's range; plus a ladder of table sizes (33..4097 rows, "
                "powers of two and 1000 +-1 among them) over names that are prefixes of one another, judged by the reference selector only")
    proof_ok = vlib.standard_proof_part(ctx, "props/C08.v", allowed_axioms=(), extra_targets=["run/RunTableSel.vo"])
    tables, alphas, singles = build_cases(ctx, maxlen, ctx.pick(12, 400), None)
    obs1, ref1, fail1, diff1 = run_cases(ctx, singles, seeds, "s")
    pairs = pair_cases(ctx, tables, alphas, singles, obs1, maxlen, ctx.pick("some", "all"))
    obs2, ref2, fail2, diff2 = run_cases(ctx, pairs, seeds, "p")
    cases, obs, refs, fails = singles + pairs, obs1 + obs2, ref1 + ref2, fail1 + fail2
    diffs = diff1 + [(i + len(singles), q, k, x, y) for (i, q, k, x, y) in diff2]
    mism = model_mismatches(ctx, cases, obs, "c")
    # histories on one table object: select / edit the index column / select the same again
    hseeds = seeds[:ctx.pick(2, 4)]
    hcases = hist_cases(ctx, ctx.pick(3, 4), ctx.pick(60, 1500), ctx.pick(3, 8))
    hobs, href, hfail, hdiff = run_cases(ctx, hcases, hseeds, "h", keys=("hobs", "href", "hfail"))
    hmism = hist_mismatches(ctx, hcases, hobs, "h")
    nh = sum(len(c["history"]) for c in hcases)
    changed = 0
    for c, ob in zip(hcases, hobs):
        seen = {}
        for h, o in zip(c["history"], ob):
            if "sel" in h:
                k = json.dumps(h["sel"], sort_keys=True)
                if k in seen and seen[k] != o["rows"] and o["rows"][0] == "ok":
                    changed += 1
                    ctx.nontrivial.add(json.dumps([c["idx"], c["history"]], sort_keys=True))
                seen[k] = o["rows"]

    # several tables with their own regex_flags alive in one process
    mcases = [multi_case(ctx.rng) for _ in range(ctx.pick(250, 4000))]
    mobs, mref, mfail, mdiff = run_cases(ctx, mcases, hseeds, "m", keys=("mobs", "mref", "mfail"))
    mmism = multi_mismatches(ctx, mcases, mobs, "m")
    nm = sum(len(c["multi"]["steps"]) for c in mcases)

    # a ladder of table sizes up to a few thousand rows: judged by the reference selector only
    lcases = [long_case(ctx.rng) for _ in range(ctx.pick(10, 120))]
    lobs, lref, lfail, ldiff = run_cases(ctx, lcases, hseeds[:1], "l")
    lbad = first_failure(lcases, lfail)
    ctx.obligations.append(("oracle: the reference selector agrees with the implementation on tables of 33..4097 rows (size ladder)",
                            lbad is None and not ldiff, "" if lbad is None else str(lbad[3])[:300]))
    # value ranges on columns of every dtype
    vcases = [vrange_case(ctx.rng) for _ in range(ctx.pick(600, 10000))]
    vobs, vref, vfail, vdiff = run_cases(ctx, vcases, hseeds[:1], "v", keys=("vobs", "vref", "vfail"))
    vstored = VSTORED.pop("last")
    vmism = vrange_mismatches(ctx, vcases, vobs, vstored, "v")
    nv = sum(len(c["vtable"]["queries"]) for c in vcases)

    nq = sum(len(c["queries"]) for c in cases)
    ctx.evaluations = nq * (len(seeds) + 1) + (nh + nm) * (len(hseeds) + 1) + nv * 2
    ctx.traces = nq + len(hcases) + len(mcases) + len(vcases)
    kinds, judged, errs = {}, 0, {}
    for c, ob, rf in zip(cases, obs, refs):
        for q, o, r in zip(c["queries"], ob, rf):
            for s in ([q["one"]] if "one" in q else q["tup"]):
                kinds[s[0]] = kinds.get(s[0], 0) + 1
            if r != "outside":
                judged += 1
            if o["rows"][0] == "err":
                errs[o["rows"][1]] = errs.get(o["rows"][1], 0) + 1
            if nontrivial(q, o):
                ctx.nontrivial.add(json.dumps([c["idx"], q], sort_keys=True))
    ctx.cov["input_distribution"] = {"tables": len(tables), "queries": nq, "tuple_queries": sum(len(c["queries"]) for c in pairs),
                                     "selector_kinds": kinds, "judged_by_reference_selector": judged,
                                     "outside_domain_compared_to_model_only": nq - judged, "errors_observed": errs,
                                     "hash_seeds": seeds, "builds": ["compiled", "pure"],
                                     "size_ladder_tables": sorted(len(c["idx"]) for c in lcases),
                                     "value_range_tables_any_dtype": len(vcases), "value_range_queries": nv,
                                     "value_range_dtypes": {dt: sum(1 for c in vcases for _, d2, _ in c["vtable"]["vcols"] if d2 == dt) for dt in DTYPES},
                                     "multi_table_scenarios": len(mcases), "multi_table_steps": nm,
                                     "multi_table_steps_where_flags_matter": sum(
                                         1 for c, rf in zip(mcases, mref) for (k, q), r in zip(c["multi"]["steps"], rf)
                                         if "one" in q and isinstance(r, list) and r != "outside" and
                                         r != tablesel_ref_other(c["multi"]["tables"][k], q)),
                                     "histories_on_one_table": len(hcases), "history_steps": nh,
                                     "reselections_whose_result_changed_after_an_edit": changed}
    mid = len(singles) // 2
    ctx.samples = [{"table": cases[mid]["idx"], "query": cases[mid]["queries"][-1], "impl": obs[mid][-1], "reference": refs[mid][-1]},
                   {"table": cases[-1]["idx"], "query": cases[-1]["queries"][0], "impl": obs[-1][0], "reference": refs[-1][0]}]
    ctx.obligations.append(("correspondence: model rows/indices/mask = implementation on every query (two set orders)", not mism, f"{len(mism)} mismatching tables"))
    bad = first_failure(cases, fails)
    ctx.obligations.append(("oracle: naive reference selector, view agreement and composition law hold on the implementation", bad is None,
                            "" if bad is None else str(bad[3])[:300]))
    ctx.obligations.append((f"hash seeds {seeds[0]}..{seeds[-1]} and both builds give identical results", not diffs, f"{len(diffs)} differing tables"))

    vbad = first_failure([dict(c, idx=c["vtable"]["idx"], queries=c["vtable"]["queries"]) for c in vcases], vfail)
    ctx.obligations.append(("correspondence: abstract range model (ranked values, NaN = incomparable) = implementation on columns of every dtype",
                            not vmism, f"{len(vmism)} mismatching tables"))
    ctx.obligations.append(("oracle: lo:hi:'col' selects exactly the rows with lo <= v <= hi, in table order, for every dtype, order and bound",
                            vbad is None, "" if vbad is None else str(vbad[3])[:300]))
    mbad = first_failure([dict(c, idx=c["multi"]["tables"][0]["idx"], queries=c["multi"]["steps"]) for c in mcases], mfail)
    ctx.obligations.append(("correspondence: model = implementation on every multi-table scenario (each table matches with its own regex_flags)",
                            not mmism, f"{len(mmism)} mismatching scenarios"))
    ctx.obligations.append(("oracle: with several tables alive in one process every table selects by its own regex_flags, whatever the order of use",
                            mbad is None and not mdiff, "" if mbad is None else str(mbad[3])[:300]))
    hbad = first_failure([dict(c, queries=c["history"]) for c in hcases], hfail)
    ctx.obligations.append(("correspondence: model = implementation on every history (selections interleaved with index-column edits on one table)",
                            not hmism, f"{len(hmism)} mismatching histories"))
    ctx.obligations.append(("oracle: after every edit of the index column the same selectors denote the rows of the CURRENT column",
                            hbad is None and not hdiff, "" if hbad is None else str(hbad[3])[:300]))
    if bad is None and lbad is not None:
        _, ci, qi, f = lbad
        small = single_case(lcases[ci], qi)
        vlib.violation(ctx, {"kind": "oracle-long-table", "what": "row selection on a long table differs from the documented selector semantics",
                             "case": small, "rows": len(small["idx"]), "failures": [str(x)[:400] for x in f], "hashseed": hseeds[0],
                             "how_to_replay": "./check C08 --replay <this file>"})
    elif bad is None and vbad is not None:
        _, ci, qi, f = vbad
        v = vcases[ci]["vtable"]
        col = v["queries"][qi][2]
        small = dict(vcases[ci], vtable=dict(v, vcols=[c for c in v["vcols"] if c[0] == col], queries=[v["queries"][qi]]))
        r = vlib.run_impl(RUNNER, {"cases": [small]}, hashseed=hseeds[0])
        vlib.violation(ctx, {"kind": "oracle-value-range", "what": "a value range lo:hi:'col' does not select exactly the rows with lo <= value <= hi",
                             "case": small, "impl": r["vobs"][0], "reference_rows": r["vref"][0], "failures": r["vfail"][0],
                             "hashseed": hseeds[0], "how_to_replay": "./check C08 --replay <this file>"})
    elif bad is None and hbad is None and (mbad is not None or mdiff):
        note = None
        if mbad is not None:
            # state shared between tables may outlive a scenario (all scenarios of a chunk run in one
            # process): look for a scenario that fails when run alone in a fresh process
            failing = sorted((i for i, fl in enumerate(mfail) if any(fl)), key=lambda i: len(mcases[i]["multi"]["steps"]))
            small = None
            for i in failing[:40]:
                r1 = vlib.run_impl(RUNNER, {"cases": [mcases[i]]}, hashseed=hseeds[0])
                if any(r1["mfail"][0]):
                    small = shrink_multi(mcases[i], hseeds[0])
                    break
            if small is None:
                small = mcases[mbad[1]]
                note = ("this scenario fails only when other scenarios ran before it in the same process "
                        f"({len(failing)} scenarios failed in the batch); first failure there: {str(mbad[3])[:300]}")
        else:
            small = mcases[mdiff[0][0]]
        r = vlib.run_impl(RUNNER, {"cases": [small]}, hashseed=hseeds[0])
        if note:
            r["mfail"][0] = [[note]]
        vlib.violation(ctx, {"kind": "oracle-multi-table", "what": "with several tables in one process a table does not select by its own regex_flags (or the result depends on the seed)",
                             "case": small, "impl": r["mobs"][0], "reference_rows": r["mref"][0], "failures": r["mfail"][0],
                             "hashseed": hseeds[0], "how_to_replay": "./check C08 --replay <this file>"})
    elif bad is None and hbad is not None:
        _, ci, qi, f = hbad
        small = shrink_history(dict(hcases[ci], history=hcases[ci]["history"][:qi + 1]), hseeds)
        r = vlib.run_impl(RUNNER, {"cases": [small]}, hashseed=hseeds[0])
        vlib.violation(ctx, {"kind": "oracle-history", "what": "after an edit of the index column a row selection does not denote the rows of the current column",
                             "case": small, "impl": r["hobs"][0], "reference_rows": r["href"][0], "failures": r["hfail"][0],
                             "hashseed": hseeds[0], "how_to_replay": "./check C08 --replay <this file>"})
    elif bad is None and hdiff:
        ci, qi, cfg, x, y = hdiff[0]
        vlib.violation(ctx, {"kind": "seed", "what": "a history of selections and edits depends on the hash seed / build",
                             "case": dict(hcases[ci], history=hcases[ci]["history"][:qi + 1]), "obs_a": x, "obs_b": y, "hashseed": cfg[1], "build": cfg[0]})
    elif bad is not None:
        _, ci, qi, f = bad
        small = single_case(cases[ci], qi)
        vlib.violation(ctx, {"kind": "oracle", "what": "row selection differs from the documented selector semantics",
                             "case": small, "impl": obs[ci][qi] if qi < len(obs[ci]) else None, "reference_rows": refs[ci][qi] if qi < len(refs[ci]) else None,
                             "failures": f, "hashseed": seeds[0], "how_to_replay": "./check C08 --replay <this file>"})
    elif diffs:
        ci, qi, cfg, x, y = sorted(diffs, key=lambda d: len(cases[d[0]]["idx"]))[0]
        vlib.violation(ctx, {"kind": "seed", "what": "row selection depends on the hash seed / build",
                             "case": single_case(cases[ci], qi), "config_a": ["compiled", seeds[0]], "obs_a": x,
                             "config_b": list(cfg), "obs_b": y, "hashseed": cfg[1], "build": cfg[0]})
    elif mism or hmism or mmism or vmism or not proof_ok:
        what = list(getattr(ctx, "broken", []))
        if vmism:
            i = vmism[0]
            what.append(f"correspondence of value ranges broke on {len(vmism)} tables, first: {json.dumps(vcases[i]['vtable'])} impl={json.dumps(vobs[i])}")
        if mmism:
            i = mmism[0]
            what.append(f"correspondence of multi-table scenarios broke on {len(mmism)} cases, first: {json.dumps(mcases[i]['multi'])} impl={json.dumps(mobs[i])}")
        if hmism:
            i = hmism[0]
            what.append(f"correspondence of histories broke on {len(hmism)} cases, first: {json.dumps(hcases[i])} impl={json.dumps(hobs[i])}")
        if mism:
            i = mism[0]
            what.append(f"correspondence model/TableSel.v vs xdeps.table broke on {len(mism)} tables, first: idx={cases[i]['idx']} "
                        f"(queries and observations in this replay)")
        # bounded search at thorough size with the oracle
        found = None
        extra = []
        for _ in range(300):
            t, al = rand_table(ctx.rng)
            n = len(t["idx"])
            qs = [{"one": rand_sel(ctx.rng, n, al)} for _ in range(80)]
            qs += [{"tup": [rand_sel(ctx.rng, n, al), rand_sel(ctx.rng, n, al)]} for _ in range(40)]
            extra.append(dict(t, queries=qs))
        o3, r3, f3, d3 = run_cases(ctx, extra, seeds[:4], "x")
        b3 = first_failure(extra, f3)
        if b3 is not None:
            _, ci, qi, f = b3
            vlib.violation(ctx, {"kind": "oracle", "case": single_case(extra[ci], qi), "impl": o3[ci][qi], "reference_rows": r3[ci][qi],
                                 "failures": f, "also_broken": what, "hashseed": 0})
        elif d3:
            ci, qi, cfg, x, y = d3[0]
            vlib.violation(ctx, {"kind": "seed", "case": single_case(extra[ci], qi), "obs_a": x, "obs_b": y, "hashseed": cfg[1], "build": cfg[0],
                                 "also_broken": what})
        else:
            payload = {"kind": "proof-or-correspondence", "no_longer_checks": what,
                       "searched": f"{nq} queries + {sum(len(c['queries']) for c in extra)} extra random queries with the reference selector: no failing input"}
            if mism:
                i = mism[0]
                payload["first_mismatch"] = {"case": cases[i], "impl": obs[i]}
            vlib.violation(ctx, payload, no_input=True)


def replay(ctx, data):
    case = data.get("case")
    if not case:
        print("replay file names a broken theorem/correspondence, no concrete input:", data.get("no_longer_checks"))
        return 1
    seeds = [0, int(data.get("hashseed", 0))]
    outs = [vlib.run_impl(RUNNER, {"cases": [case]}, build=data.get("build", "compiled") if k else "compiled", hashseed=k) for k in seeds]
    print(json.dumps({"impl": outs[0]["obs"][0], "reference": outs[0]["ref"][0], "failures": outs[0]["fail"][0],
                      "history_impl": outs[0]["hobs"][0], "history_failures": outs[0]["hfail"][0],
                      "multi_impl": outs[0]["mobs"][0], "multi_failures": outs[0]["mfail"][0],
                      "value_range_impl": outs[0]["vobs"][0], "value_range_failures": outs[0]["vfail"][0]}, indent=1))
    allf = [f for o in outs for f in o["fail"][0] + o["hfail"][0] + o["mfail"][0] + o["vfail"][0] if f]
    if allf:
        print("VIOLATION property=C08 replay=(given) :", allf[0])
        return 1
    if outs[0]["obs"] != outs[1]["obs"] or outs[0]["hobs"] != outs[1]["hobs"] or outs[0]["mobs"] != outs[1]["mobs"]:
        print(f"VIOLATION property=C08 replay=(given) : result differs between hash seeds {seeds}")
        return 1
    print("replay: implementation agrees with the reference selector on this case")
    return 0
