"""C01 — expression-defined locations always equal their definition on current data.

Proof : coq/props/C01.v — C01_step_partial / C01_history_partial: after every
        successful assignment all definitions hold the value of their expression
        and untouched locations keep their values, under the hypothesis that the
        ordering relation restricted to the triggered tasks is acyclic;
        C01_refuted_nested_siblings: without it the faithful model (and the
        implementation) leaves a stale value — a known finding.
Tie   : exact model/implementation correspondence of container contents after
        every assignment; pull-model oracle on the implementation (re-evaluate
        every current definition on the current containers), last-assigned-value
        oracle for plain locations, chains of 1500/5000 dependants, hash seeds.
"""
import json
import vlib, mgr_common as mc


def wide_case(width):
    items = [["s", 1]] + [[f"w{i}", 0] for i in range(width)] + [["t", 0]]
    R = lambda k: ["c", ["i", k]]
    tot = ["ref", R("w0")]
    for i in range(1, width):
        tot = ["bin", "+", tot, ["ref", R(f"w{i}")]]
    ops = [["set", R("t"), ["expr", tot]]]
    ops += [["set", R(f"w{i}"), ["expr", ["bin", "*", ["ref", R("s")], ["const", i + 1]]]] for i in range(width)]
    ops += [["set", R("s"), ["plain", 3]], ["inplace", R("s"), "+", 2], ["set", R("w0"), ["plain", 100]], ["set", R("s"), ["plain", 1]]]
    return {"store": [["c", {"kind": "dict", "items": items}]], "ops": ops}


def oracle(cases, obs, light=False):
    fails, tainted = [], 0
    for i, (c, ol) in enumerate(zip(cases, obs)):
        taint = None
        last_plain = {}
        for k, (op, o) in enumerate(zip(c["ops"], ol)):
            tr = o["oracle"].get("trace")
            if tr and tr.get("cycle") and taint is None:
                taint = k
            if o["err"] == "RecursionError":
                fails.append((i, k, "assignment raised RecursionError (chain of dependants too long)")); break
            if o["err"] is None and o["oracle"].get("defn"):
                fails.append((i, k, "the definition of the assigned location is not what was assigned: " + o["oracle"]["defn"])); break
            if o["err"] is None and o["oracle"].get("inconsistent"):
                if taint is None:
                    fails.append((i, k, "a location defined by an expression does not hold the value of its expression: "
                                  + json.dumps(o["oracle"]["inconsistent"][:3]))); break
            if light:
                continue
            # every other location holds the last value assigned to it
            flat = mc.flat
            store = {json.dumps(p): v for p, v in o["store"]}
            if op[0] == "set" and o["err"] is None:
                key = json.dumps(flat(op[1]))
                if op[2][0] == "plain" and isinstance(op[2][1], int):
                    last_plain[key] = op[2][1]
                else:
                    last_plain.pop(key, None)
            elif op[0] == "inplace" and o["err"] is None:
                key = json.dumps(flat(op[1]))
                if key in last_plain:
                    last_plain[key] = store.get(key)
            if o["err"] is None and taint is None:
                bad = [(k2, v, store.get(k2)) for k2, v in last_plain.items() if store.get(k2) != v]
                if bad:
                    fails.append((i, k, f"a location that holds a plain value lost it: {bad[:2]}")); break
        if taint is not None:
            tainted += 1
    return fails, tainted


FFAILS = []


def known_finding_status():
    out = []
    for e in vlib.known_findings("C01"):
        if e["kind"] != "known":
            continue
        w = e["witness"]
        case = {"store": w["store"], "ops": w["ops"]}
        failing = []
        for sd in w["hash_seeds"]:
            o = mc.run_impl_cases([case], hashseed=sd)[0][-1]
            if o["err"] is None and o["oracle"].get("inconsistent"):
                failing.append(sd)
        out.append((e, failing))
    return out


def run(ctx):
    ctx.rule = ("random assignment histories (plain value / expression / in-place / removal / re-definition, consumer-before-producer) over nested "
                "dict/list/attribute containers with an acyclic data flow by construction, flat histories, wide fan-in, chains of 1500/5000 "
                "dependants in both definition orders, plus histories over mixed value types (floats incl. nan/inf/-0.0, numpy scalars and arrays, "
                "complex, huge ints, strings, None; oracle only); every assignment judged by the pull-model oracle; non-trivial = an assignment that "
                "triggered >= 1 task in a history with >= 2 definitions; distinct by history prefix")
    ctx.scale_if_changed()
    proof_ok = vlib.standard_proof_part(ctx, "props/C01.v", extra_targets=["run/RunManager.vo", "proofs/TasksSrc.vo", "proofs/TasksSrcData.vo", "proofs/TasksSrcRefresh.vo", "proofs/TasksSrcSorting.vo"], translators=["tasks"])
    n = ctx.pick(300, 6000)
    cases = [wide_case(6), wide_case(25), mc.wide_case(ctx.rng, 67), mc.wide_case(ctx.rng, 140)]
    cases += [mc.gen_history(ctx.rng, ["assign", "assign", "assign_flat"][i % 3], nops=ctx.rng.randint(4, 25 if i % 7 else 40)) for i in range(n)]
    obs = mc.run_impl_cases(cases)
    mism = mc.model_compare(ctx, cases, obs, "c01")
    fails, tainted = oracle(cases, obs)
    # function and linear-knob tasks (name- and ref-identified, actions given as plain callables and as bound methods, knob
    # targets as lists and as sets): "each target of a function or linear-knob task holds what that task prescribes" is
    # judged by the exact correspondence with the model (register / load do not run the new task, so the pull-model
    # oracle does not apply between the registration and the next triggering assignment)
    fcases = [mc.gen_history(ctx.rng, ["dag", "mixed"][i % 2], nops=ctx.rng.randint(5, 18)) for i in range(ctx.pick(120, 2500))]
    fobs = mc.run_impl_cases(fcases)
    fm = mc.model_compare(ctx, fcases, fobs, "c01f")
    for i, (c, ol) in enumerate(zip(fcases, fobs)):
        for k, o in enumerate(ol):
            if o["err"] is None and o["oracle"].get("fun_inconsistent") and mc.tainted_prefix(ol[:k + 1]) is None:
                FFAILS.append((i, k, "a target of a function task that ran does not hold what the task prescribes: "
                               + json.dumps(o["oracle"]["fun_inconsistent"][:3])))
                break
    ctx.evaluations += sum(len(c["ops"]) for c in fcases)
    big = [mc.chain_case(ctx.pick(1500, 5000)), mc.chain_case(ctx.pick(1500, 5000), reverse=True)]
    bobs = mc.run_impl_cases(big, opts={"snapshots": False})
    bf, _ = oracle(big, bobs, light=True)
    fails += [(len(cases) + i, k, w) for i, k, w in bf]
    for c, ol in zip(big, bobs):
        want = 5 + len(c["ops"]) - 1
        got = dict((json.dumps(p), v) for p, v in ol[-1]["store"]).get(json.dumps(["c", f"v{len(c['ops']) - 1}"]))
        if ol[-1]["err"] is None and got != want:
            fails.append((len(cases), len(c["ops"]) - 1, f"end of a chain of {len(c['ops'])-1} dependants holds {got}, expected {want}"))
    # value TYPES beyond small integers (floats incl. nan/inf, numpy scalars and arrays, complex, huge ints, strings, None):
    # outside the Coq model's domain, judged by the pull-model oracle on the error-free prefix of each history
    mixed = [mc.gen_history(ctx.rng, ["assign", "assign_flat"][i % 2], nops=ctx.rng.randint(4, 20), values="mixed", literals=True) for i in range(ctx.pick(100, 2000))]
    pc, po = mc.error_free_prefix(mixed, mc.run_impl_cases(mixed))
    mf, _ = oracle(pc, po)
    fails += [(len(cases) + len(big) + i, k, w) for i, k, w in mf]
    ctx.evaluations += sum(len(c["ops"]) for c in pc)
    # deep locations whose reference objects hash equally (found by search among a few hundred thousand): kept apart
    ccase = {"store": [["c", {"kind": "dict", "items": [["s", 0]]}]], "ops": [["collide", ctx.pick(300000, 1200000)]]}
    co = mc.run_impl_cases([ccase], opts={"snapshots": False})[0][-1]
    cres = co.get("collide") or {"pairs": 0, "problems": ["no observation: " + str(co.get("err"))]}
    ctx.obligations.append(("hash-equal deep locations (found by search on the compiled build) stay distinct definitions",
                            not cres["problems"], f"{cres['pairs']} colliding pairs, {len(cres['problems'])} failing"))
    ctx.cov["hash_equal_location_pairs"] = cres["pairs"]
    if cres["problems"]:
        fails.append((len(cases) + len(big) + len(mixed), 0, cres["problems"][0]))
    sub = cases[: ctx.pick(100, 1500)]
    seeds = list(range(1, ctx.pick(3, 12)))
    for sd in seeds:
        so = mc.run_impl_cases(sub, hashseed=sd)
        f, _ = oracle(sub, so)
        fails += f
        ctx.evaluations += sum(len(c["ops"]) for c in sub)
    f, _ = oracle(sub, mc.run_impl_cases(sub, build="pure"))
    fails += f
    for e, failing in known_finding_status():
        if failing:
            vlib.known(ctx, f"stale value after an assignment whose triggered tasks carry an ordering cycle (expression-defined siblings of one nested "
                            f"container): witness g.n.x=g.a*2; g.n.z=g.n.y*3; g.n.y=g.n.x+1; g.a=5 fails for PYTHONHASHSEED in {failing}")
        else:
            ctx.notes.append("known finding C01/ordering-cycle: the listed witness no longer fails on this tree")
    allc, allo = cases + big + pc + fcases, obs + bobs + po + fobs
    fails += [(len(cases) + len(big) + len(pc) + i, k, w) for i, k, w in FFAILS]
    mism = mism + [(len(cases) + len(big) + len(pc) + i, k) for i, k in fm]
    for c, ol in zip(cases, obs):
        defs = 0
        for k, (op, o) in enumerate(zip(c["ops"], ol)):
            if op[0] == "set" and op[2][0] == "expr":
                defs += 1
            if defs >= 2 and o["trace"]:
                ctx.nontrivial.add(json.dumps(c["ops"][:k + 1])[:3000])
    ctx.evaluations += sum(len(c["ops"]) for c in allc)
    ctx.traces = len(allc)
    ctx.samples = [{"ops": cases[2]["ops"][:5], "store_after": obs[2][min(4, len(obs[2]) - 1)]["store"][:8]}]
    ctx.cov["input_distribution"] = {"ops": mc.op_distribution(cases), "histories_with_an_ordering_cycle": tainted,
                                     "hash_seeds": [0] + seeds, "builds": ["compiled", "pure"],
                                     "max_chain": len(big[0]["ops"]) - 1}
    mc.decide(ctx, proof_ok, allc, allo, mism, fails)


def replay(ctx, data):
    case = data.get("case")
    if not case:
        print("no concrete input in this replay file:", data.get("no_longer_checks")); return 1
    obs = mc.run_impl_cases([case])
    f, _ = oracle([case], obs)
    print(json.dumps(obs[0][-1].get("oracle")))
    if f:
        print("VIOLATION property=C01 replay=(given):", f[0][2]); return 1
    print("replay: the implementation satisfies the C01 oracle on this case"); return 0
