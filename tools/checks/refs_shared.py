"""Shared by the checks C04, C05, C12: ids taken from the translator, random
generators (all randomness from the caller's rng), Coq text emission."""
import os, sys, json
import vlib

sys.path.insert(0, os.path.join(vlib.VERIF, "tools", "py2v"))

BINOPS = ["OAdd", "OSub", "OMul", "OMatmul", "OTruediv", "OFloordiv", "OMod", "OPow", "OAnd", "OOr", "OXor",
          "OLt", "OLe", "OEq", "ONe", "OGe", "OGt", "ORshift", "OLshift"]
INPLACE = ["OAdd", "OSub", "OMul", "OMatmul", "OTruediv", "OFloordiv", "OMod", "OPow", "OLshift", "ORshift",
           "OAnd", "OXor", "OOr"]
UNOPS = ["UNeg", "UPos", "UInvert"]
ABSTRACT = {"BaseRef", "MutableRef", "BinOpExpr", "UnaryOpExpr"}
DEFAULT_FNS = {"builtins.divmod": 0, "builtins.round": 1, "math.trunc": 2, "math.floor": 3, "math.ceil": 4, "builtins.abs": 5}


def ids():
    """class name -> id and function object -> number, as the translator
    numbers them for the CURRENT source (falls back to the plain class
    numbering when the translator cannot read the source)."""
    import importlib
    import refs_common
    importlib.reload(refs_common)
    try:
        import gen_refs
        importlib.reload(gen_refs)
        tr = gen_refs.Tr()
        tr.base_dunders()
        classes = {n: tr.cid(n) for n in tr.refcls}
        fns = {f"{m}.{f}": i for (m, f), i in tr.fn_ids.items()}
        for k, v in DEFAULT_FNS.items():
            fns.setdefault(k, 100 + v)       # a function object the source no longer uses
        return classes, fns, None
    except Exception as e:      # Unrecognised, SyntaxError, ...
        tree = refs_common.parse("xdeps/refs.py")
        classes = {n: i for i, n, b, d in refs_common.classes(tree)}
        return classes, dict(DEFAULT_FNS), f"{type(e).__name__}: {e}"


# ---------------------------------------------------------------------------------------
# containers (tagged JSON understood by refs_runner.dec / canon)
# ---------------------------------------------------------------------------------------

def I(n):
    return ["i", str(n)]


def Sx(s):
    return ["s", s]


def gen_state(rng, safe=False):
    """containers c (dict), o (attribute object), g (dict behind an ObjectAttrRef);
    safe: the index stored in c['i'] is always in range"""
    def iv():
        return I(rng.choice([0, 1, -1, 2, 3, -3, 4, 5, 7, -8, 9]))

    def small():
        return I(rng.choice([0, 1, 2] if safe else [0, 1, 2, 0, 1, 2, -1, -2, 3, 4]))
    c = [[Sx(k), iv()] for k in "abcde"]
    if rng.random() < 0.15:
        c[rng.randrange(5)][1] = ["b", rng.random() < 0.5]
    c += [[Sx("z"), I(0)], [Sx("i"), small()],
          [Sx("l"), ["l", [iv() for _ in range(3)]]],
          [Sx("n"), ["d", [[Sx("x"), iv()], [Sx("y"), iv()], [I(1), iv()]]]],
          [Sx("k"), Sx(rng.choice("abc"))],
          [Sx("f"), ["fn", 0]], [Sx("h"), ["fn", 1]]]
    # attributes whose NAMES look like paths: getattr(o, 'p.x') is a different location from o.p.x
    # although both print "o.p.x" (likewise 'p.q' and 'p.q[0]')
    o = [["x", iv()], ["y", iv()], ["p", ["o", [["x", iv()], ["q", ["l", [iv(), iv()]]]]]],
         ["p.x", iv()], ["p.q", iv()], ["p.q[0]", iv()]]
    g = [[Sx("u"), iv()], [Sx("v"), iv()]]
    return [["c", ["d", c]], ["o", ["o", o]], ["g", ["d", g]]]


OBJATTR = ["g"]
TOP = {"c": ["top", "c", False], "o": ["top", "o", False], "g": ["top", "g", True]}


def val(n):
    return ["val", I(n)]


def leaf_ref(rng, const_keys=False):
    c, o, g = TOP["c"], TOP["o"], TOP["g"]
    opts = [
        lambda: ["item", c, ["val", Sx(rng.choice("abcde"))]],
        lambda: ["item", c, ["val", Sx(rng.choice("abcde"))]],
        # (a negative index aliases a positive one: not used where locations are compared by key)
        lambda: ["item", ["item", c, ["val", Sx("l")]], val(rng.choice([0, 1, 2] if const_keys else [0, 1, 2, -1]))],
        lambda: ["item", ["item", c, ["val", Sx("n")]], ["val", Sx(rng.choice("xy"))]],
        lambda: ["attr", o, rng.choice("xy")],
        lambda: ["attr", ["attr", o, "p"], "x"],
        lambda: ["item", ["attr", ["attr", o, "p"], "q"], val(rng.choice([0, 1]))],
        lambda: ["attr", g, rng.choice("uv")],
        lambda: ["item", g, ["val", Sx(rng.choice("uv"))]],
        lambda: ["attr", o, rng.choice(["p.x", "p.q", "p.q[0]"])],         # getattr(o, 'p.x'): a dotted attribute NAME
    ]
    if not const_keys:
        opts += [
            lambda: ["item", ["item", c, ["val", Sx("l")]], ["item", c, ["val", Sx("i")]]],     # computed key
            lambda: ["item", c, ["item", c, ["val", Sx("k")]]],                                  # computed str key
            lambda: ["item", c, ["val", Sx("z")]],                                               # the zero
            lambda: ["item", ["item", c, ["val", Sx("n")]], val(1)],
        ]
    return rng.choice(opts)()


def is_lit(p):
    return p[0] == "val"


ARITH = ["OAdd", "OSub", "OMul", "OFloordiv", "OMod", "OAnd", "OOr", "OXor", "OLt", "OLe", "OGe", "OGt", "OEq", "ONe"]


def gen_pexp(rng, depth, safe=False, const_keys=False):
    """random expression over the containers; at least one reference in every
    operator node (two plain values would be computed by Python before xdeps
    sees them).  safe=True: only operations that cannot raise on ints/NaN."""
    if depth <= 0 or rng.random() < 0.12:
        return leaf_ref(rng, const_keys) if rng.random() < 0.75 else val(rng.choice([0, 1, 2, 3, -2, 5, 7]))
    k = rng.random()
    sub = lambda: gen_pexp(rng, depth - 1, safe, const_keys)
    ref = lambda: (lambda x: leaf_ref(rng, const_keys) if is_lit(x) else x)(sub())
    if k < 0.55:
        if safe:
            op = rng.choice(["OAdd", "OSub", "OMul", "OFloordiv", "OMod", "OLt", "OLe", "OGe", "OGt", "OAdd", "OSub"])
        else:
            op = rng.choice(ARITH * 3 + ["OTruediv", "OTruediv", "OPow", "OPow", "ORshift", "OLshift", "ORshift", "OLshift"] + (["OMatmul"] if rng.random() < 0.3 else []))
        l, r = sub(), sub()
        if op in ("OPow", "ORshift", "OLshift"):
            r = val(rng.choice([0, 1, 2, 3, 4, -1])) if rng.random() < 0.7 else ["item", TOP["c"], ["val", Sx("i")]]
        if op in ("OEq", "ONe") and is_lit(l):
            l = leaf_ref(rng, const_keys)
        if is_lit(l) and is_lit(r):
            (l if rng.random() < 0.5 else r)[:] = leaf_ref(rng, const_keys)
        if op in ("OEq", "ONe") and is_lit(l):
            l, r = r, l
        return ["bin", op, l, r]
    if k < 0.67:
        return ["un", rng.choice(["UNeg", "UPos"] if safe else UNOPS), ref()]
    if k < 0.80:
        f = rng.choice(["FAbs", "FAbs", "FRound", "FTrunc", "FFloor", "FCeil", "FRound", "FAbs", "FRound"] + (["FDivmod"] if rng.random() < 0.4 else []))
        if safe:
            a = leaf_ref(rng, const_keys) if f != "FAbs" else ref()
            if f == "FDivmod":
                f = "FAbs"
        else:
            a = ref()
        ps = []
        if f == "FRound" and rng.random() < 0.6:
            ps = [val(rng.choice([0, 1, 2, 3])) if rng.random() < 0.6 else ["item", TOP["c"], ["val", Sx("i")]]]
            if safe:
                ps = [val(rng.choice([0, 1, 2]))]
        if f == "FDivmod":
            ps = [sub()]
        return ["builtin", f, a, ps]
    if k < 0.92:
        c = TOP["c"]
        if rng.random() < 0.5:
            args = [sub() for _ in range(rng.choice([0, 1, 2, 3]))]
            kw = [[n, sub()] for n in rng.sample(["k", "m", "w"], rng.choice([0, 1, 2]))]
            return ["call", ["item", c, ["val", Sx("f")]], args, kw]
        form = rng.choice([0, 1, 2] if safe else [0, 1, 2, 0, 1, 2, 0, 1, 2, 3, 4])
        f1 = ["item", c, ["val", Sx("h")]]
        if form == 0:
            return ["call", f1, [sub()], []]
        if form == 1:
            return ["call", f1, [sub(), sub()], []]
        if form == 2:
            return ["call", f1, [sub()], [["y", sub()]]]
        if form == 3:
            return ["call", f1, [sub()], [["q", sub()]]]       # unknown keyword: TypeError both ways
        return ["call", ["item", c, ["val", Sx("a")]], [sub()], []]   # calling an int
    # item access with a computed key
    if const_keys:
        return leaf_ref(rng, True)
    if safe:
        key = ["item", TOP["c"], ["val", Sx("i")]]
    else:
        key = ["bin", "OMod", ref(), val(3)] if rng.random() < 0.7 else ref()
    return ["item", ["item", TOP["c"], ["val", Sx("l")]], key]


def pexp_depth(p):
    k = p[0]
    if k in ("val", "top", "lexpr"):
        return 0
    if k == "item":
        return 1 + max(pexp_depth(p[1]), pexp_depth(p[2]))
    if k == "attr":
        return 1 + pexp_depth(p[1])
    if k == "bin":
        return 1 + max(pexp_depth(p[2]), pexp_depth(p[3]))
    if k == "un":
        return 1 + pexp_depth(p[2])
    if k == "builtin":
        return 1 + max([pexp_depth(p[2])] + [pexp_depth(x) for x in p[3]])
    if k == "call":
        return 1 + max([pexp_depth(p[1])] + [pexp_depth(x) for x in p[2]] + [pexp_depth(x) for _, x in p[3]])
    raise ValueError(p)


def pexp_ops(p, out):
    k = p[0]
    if k == "bin":
        out[p[1]] = out.get(p[1], 0) + 1
        cfg = ("l" if is_lit(p[2]) else "r") + ("l" if is_lit(p[3]) else "r")
        out["cfg:" + cfg] = out.get("cfg:" + cfg, 0) + 1
        pexp_ops(p[2], out); pexp_ops(p[3], out)
    elif k == "un":
        out[p[1]] = out.get(p[1], 0) + 1; pexp_ops(p[2], out)
    elif k == "builtin":
        key = p[1] + ("/%d" % len(p[3]))
        out[key] = out.get(key, 0) + 1; pexp_ops(p[2], out)
        for x in p[3]:
            pexp_ops(x, out)
    elif k == "call":
        key = "call/%d/%d" % (len(p[2]), len(p[3]))
        out[key] = out.get(key, 0) + 1; pexp_ops(p[1], out)
        for x in p[2]:
            pexp_ops(x, out)
        for _, x in p[3]:
            pexp_ops(x, out)
    elif k == "item":
        key = "item:" + ("const" if is_lit(p[2]) else "computed")
        out[key] = out.get(key, 0) + 1; pexp_ops(p[1], out); pexp_ops(p[2], out)
    elif k == "attr":
        out["attr"] = out.get("attr", 0) + 1; pexp_ops(p[1], out)


# ---------------------------------------------------------------------------------------
# Coq emission
# ---------------------------------------------------------------------------------------

class Unrep(Exception):
    pass


def cstr(s):
    if any(ord(ch) > 126 or ord(ch) < 32 for ch in s):
        raise Unrep("non-ASCII name")
    return '(str "' + s.replace('"', '""') + '")'


def clit(v):
    t = v[0]
    if t == "i":
        return f"(LInt {vlib.cz(int(v[1]))})"
    if t == "b":
        return f"(LBool {vlib.cbool(v[1])})"
    if t == "s":
        return f"(LStr {cstr(v[1])})"
    if t == "none":
        return "LNone"
    if t == "t":
        return "(LTup " + vlib.clist([clit(x) for x in v[1]]) + ")"
    raise Unrep(f"literal {t}")


def cterm(t):
    k = t[0]
    if k == "const":
        return f"(TConst {clit(t[1])})"
    if k == "top":
        return f"(TTop {cstr(t[1])} {vlib.cbool(t[2])})"
    if k == "item":
        return f"(TItem {cterm(t[1])} {cterm(t[2])})"
    if k == "attr":
        return f"(TAttr {cterm(t[1])} {cterm(t[2])})"
    if k == "bin":
        return f"(TBin {vlib.cn(t[1])} {cterm(t[2])} {cterm(t[3])})"
    if k == "un":
        return f"(TUn {vlib.cn(t[1])} {cterm(t[2])})"
    if k == "literal":
        return f"(TLiteral {clit(t[1])})"
    if k == "builtin":
        return f"(TBuiltin {vlib.cn(t[1])} {cterm(t[2])} {vlib.clist([cterm(x) for x in t[3]])})"
    if k == "call":
        kw = vlib.clist([f"({cstr(n)}, {cterm(x)})" for n, x in t[3]])
        return f"(TCall {cterm(t[1])} {vlib.clist([cterm(x) for x in t[2]])} {kw})"
    raise Unrep(f"term {k}")


def cpexp(p):
    k = p[0]
    if k == "val":
        return f"(PVal {clit(p[1])})"
    if k == "top":
        return f"(PTop {cstr(p[1])} {vlib.cbool(p[2])})"
    if k == "item":
        return f"(PItem {cpexp(p[1])} {cpexp(p[2])})"
    if k == "attr":
        return f"(PAttr {cpexp(p[1])} {cstr(p[2])})"
    if k == "bin":
        return f"(PBin {p[1]} {cpexp(p[2])} {cpexp(p[3])})"
    if k == "un":
        return f"(PUn {p[1]} {cpexp(p[2])})"
    if k == "builtin":
        return f"(PBuiltin {p[1]} {cpexp(p[2])} {vlib.clist([cpexp(x) for x in p[3]])})"
    if k == "call":
        kw = vlib.clist([f"({cstr(n)}, {cpexp(x)})" for n, x in p[3]])
        return f"(PCall {cpexp(p[1])} {vlib.clist([cpexp(x) for x in p[2]])} {kw})"
    raise Unrep(f"pexp {k}")


def czv(v):
    t = v[0]
    if t == "i":
        return f"(ZInt {vlib.cz(int(v[1]))})"
    if t == "b":
        return f"(ZBool {vlib.cbool(v[1])})"
    if t == "nan":
        return "ZNan"
    if t == "none":
        return "ZNone"
    if t == "s":
        return f"(ZStr {cstr(v[1])})"
    if t == "t":
        return "(ZTup " + vlib.clist([czv(x) for x in v[1]]) + ")"
    if t == "l":
        return "(ZList " + vlib.clist([czv(x) for x in v[1]]) + ")"
    if t == "d":
        return "(ZDict " + vlib.clist([f"({czv(k)}, {czv(x)})" for k, x in v[1]]) + ")"
    if t == "o":
        return "(ZObj " + vlib.clist([f"({cstr(k)}, {czv(x)})" for k, x in v[1]]) + ")"
    if t == "fn":
        return f"(ZFun {vlib.cn(v[1])})"
    if t == "opaque":
        raise Unrep("opaque value")
    raise Unrep(f"value {t}")


ERR_COQ = {"ZeroDivisionError": "EZeroDiv", "TypeError": "ETypeError", "KeyError": "EKeyError",
           "IndexError": "EIndexError", "AttributeError": "EAttributeError", "ValueError": "EValueError",
           "OverflowError": "EOverflow"}


def cxres(v):
    if v[0] == "err":
        return f"(XErr {ERR_COQ[v[1]]})" if v[1] in ERR_COQ else "XOther"
    try:
        return f"(XVal {czv(v)})"
    except Unrep:
        return "XOther"


def cstate(st):
    return vlib.clist([f"({cstr(k)}, {czv(v)})" for k, v in st])


HEADER = ("From Coq Require Import List ZArith NArith String.\n"
          "From XD Require Import model.RefSyntax model.RefTables model.Refs model.RefsZ run.RunRefs.\n"
          "Import ListNotations.\nOpen Scope string_scope.\n")


def eval_chunks(ctx, items, typ, fn, tag, per=120, extra=None):
    """items: list of Coq texts (one per case).  Returns the list of
    mismatching indices (into items) and, when `extra` names a second
    function, the sum of its results."""
    texts, spans = [], []
    for lo in range(0, len(items), per):
        chunk = items[lo:lo + per]
        t = HEADER + f"Definition cases : list {typ} :=\n [" + ";\n  ".join(chunk) + "].\n" + \
            f"Eval vm_compute in ({fn} cases).\n"
        if extra:
            t += f"Eval vm_compute in ({extra} cases).\n"
        texts.append(t); spans.append(lo)
    mism, total = [], 0
    import re
    for (rc, so, se), lo in zip(vlib.coq_eval_files(ctx, texts, tag), spans):
        lst = vlib.parse_nat_list(so) if rc == 0 else None
        if lst is None:
            raise vlib.InfraError(f"case file evaluation failed ({tag}): rc={rc} {se[-1500:]} {so[-300:]}")
        mism += [lo + k for k in lst]
        if extra:
            m = re.findall(r"=\s*(\d+)(?:%nat)?\s*:\s*nat", so.replace("\n", " "))
            if not m:
                raise vlib.InfraError(f"case file ({tag}): count not found in {so[-300:]!r}")
            if m:
                total += int(m[-1])
    return mism, total


def case_errors(res):
    """records where the library raised while the case ran (refs_runner.guarded):
    [(case index, build, {exc, msg, step})]"""
    return [(i, b, r["case_error"]) for b in sorted(res) for i, r in enumerate(res[b]) if "case_error" in r]


def has_error(res, i):
    return any("case_error" in res[b][i] for b in res)


def describe_errors(errs, what):
    if errs:
        i, b, e = errs[0]
        what.append(f"the library raised while {len(errs)} case(s) ran (outcome the model does not predict), first: case {i} build {b}: "
                    f"{e['exc']}: {e['msg']} at {e['step']}")


def run_both(payloads, mode_timeout=900):
    """run each payload on the compiled and on the pure build; returns
    {build: [result per payload]}"""
    res = vlib.run_impl_many("refs_runner.py", payloads, [("compiled", 0), ("pure", 0)], timeout=mode_timeout)
    out = {"compiled": [], "pure": []}
    for i in range(len(payloads)):
        for b in ("compiled", "pure"):
            r = res[(i, b, 0)]
            if r["compiled"] != (b == "compiled"):
                raise vlib.InfraError(f"build {b}: is_cythonized() = {r['compiled']}")
            out[b].append(r)
    return out
