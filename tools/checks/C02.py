"""C02 — one assignment runs exactly the downstream tasks, once each, in
dependency order.

Proof : coq/props/C02.v — toposort correctness on every graph (cyclic or not:
        duplicate-free, exactly the reachable set, producers first unless on a
        cycle, fuel never exhausted), lifted through the index invariant to
        find_taskids and to set_value's run trace, for EVERY iteration order of
        the start set.
Tie   : model vs implementation (exact traces: the set orders the implementation
        used are fed to the model); oracle on the implementation: the trace is the
        triggered set computed from public task attributes, once each, producers
        first when the ordering relation is acyclic; hash seeds swept.
"""
import json
import vlib, mgr_common as mc


def fan_case(width, depth):
    """a source feeding `width` parallel chains of length `depth` joined by a sink"""
    items = [["src", 1], ["sink", 0]] + [[f"n{i}_{j}", 0] for i in range(width) for j in range(depth)]
    ops = []
    R = lambda k: ["c", ["i", k]]
    sink = None
    for i in range(width):
        prev = "src"
        for j in range(depth):
            ops.append(["set", R(f"n{i}_{j}"), ["expr", ["bin", "+", ["ref", R(prev)], ["const", 1]]]])
            prev = f"n{i}_{j}"
        sink = ["ref", R(prev)] if sink is None else ["bin", "+", sink, ["ref", R(prev)]]
    ops.insert(0, ["set", R("sink"), ["expr", sink]])          # consumer defined before its producers
    ops.append(["set", R("src"), ["plain", 3]])
    return {"store": [["c", {"kind": "dict", "items": items}]], "ops": ops}


def cyc_case(n):
    items = [[f"v{i}", 1] for i in range(n)]
    R = lambda i: ["c", ["i", f"v{i % n}"]]
    ops = [["set", R(i), ["expr", ["bin", "+", ["ref", R(i + 1)], ["const", 1]]]] for i in range(n)]
    ops.append(["set", R(0), ["plain", 7]])
    return {"store": [["c", {"kind": "dict", "items": items}]], "ops": ops}


def oracle(cases, obs):
    fails = []
    for i, (c, ol) in enumerate(zip(cases, obs)):
        for k, (op, o) in enumerate(zip(c["ops"], ol)):
            tr = o["oracle"].get("trace")
            if o["err"] == "RecursionError":
                fails.append((i, k, "the update did not terminate normally: RecursionError")); break
            if not tr:
                continue
            bad = [x for x in ("dup", "set_mismatch", "order", "ran_untriggered") if x in tr]
            if bad:
                fails.append((i, k, f"run trace violates {bad}: {json.dumps({b: tr[b] for b in bad})[:600]}")); break
    return fails


def run(ctx):
    ctx.rule = ("random manager histories (expression, function and linear-knob tasks; diamonds, fan-in/out, shared sub-expressions, nested "
                "targets, any registration order, deliberately cyclic definitions in 6% of the expression assignments) + wide/deep fans "
                "defined consumer-first + cyclic rings + chains of 1500/5000 dependants; every assignment's trace is judged; "
                "non-trivial = an assignment triggering >= 2 tasks; distinct by (history prefix)")
    ctx.scale_if_changed()
    proof_ok = vlib.standard_proof_part(ctx, "props/C02.v", extra_targets=["run/RunManager.vo", "proofs/TasksSrc.vo", "proofs/TasksSrcData.vo", "proofs/TasksSrcRefresh.vo", "proofs/TasksSrcSorting.vo"], translators=["tasks"])
    # start sets larger than any small-set threshold (64, 128): many direct dependants with triangles among them
    cases = [fan_case(3, 3), fan_case(6, 2), cyc_case(3), cyc_case(6), mc.wide_case(ctx.rng, 66), mc.wide_case(ctx.rng, 131),
             mc.fanin_case(ctx.rng, 40, 5), mc.fanin_case(ctx.rng, 34, 6), mc.fanin_case(ctx.rng, 70, 4)]      # wide fan-IN, expression objects freed and rebuilt
    cases += [mc.gen_history(ctx.rng, ["mixed", "dag", "assign", "windows"][i % 4]) for i in range(ctx.pick(240, 4000))]
    # value types outside the model's domain (floats, numpy arrays, strings, None, ...): trace oracle only
    cases += [mc.gen_history(ctx.rng, ["mixed", "assign"][i % 2], values="mixed") for i in range(ctx.pick(60, 1000))]
    obs = mc.run_impl_cases(cases)
    mism = mc.model_compare(ctx, cases, obs, "c02")
    fails = oracle(cases, obs)
    # long chains and other hash seeds: oracle only (the model is exercised above)
    big = [mc.chain_case(ctx.pick(1500, 5000)), mc.chain_case(ctx.pick(1500, 5000), reverse=True),
           mc.wide_case(ctx.rng, min(ctx.pick(300, 1500), 1500)), mc.wide_case(ctx.rng, min(ctx.pick(700, 3000), 3000))]
    bobs = mc.run_impl_cases(big, opts={"snapshots": False})
    fails += [(len(cases) + i, k, w) for i, k, w in oracle(big, bobs)]
    for c, ol in zip(big[:2], bobs[:2]):
        last = ol[-1]
        if last["err"] is None and len(last["trace"]) != len(c["ops"]) - 1:
            fails.append((len(cases), len(c["ops"]) - 1, f"chain of {len(c['ops'])-1} dependants: {len(last['trace'])} tasks ran"))
    seeds = list(range(1, ctx.pick(4, 16)))
    sub = cases[: ctx.pick(120, 1500)]
    seed_fail = {}
    for sd in seeds:
        so = mc.run_impl_cases(sub, hashseed=sd)
        f = oracle(sub, so)
        if f:
            seed_fail[sd] = f[0]
            fails.append(f[0])
        ctx.evaluations += sum(len(c["ops"]) for c in sub)
    pure = mc.run_impl_cases(sub, build="pure")
    fails += oracle(sub, pure)
    allc = cases + big
    allo = obs + bobs
    for c, ol in zip(allc, allo):
        for k, o in enumerate(ol):
            tr = o["oracle"].get("trace")
            if tr and tr.get("n_triggered", 0) >= 2:
                ctx.nontrivial.add(json.dumps(c["ops"][:k + 1])[:4000])
    ctx.evaluations += sum(len(c["ops"]) for c in allc) + sum(len(c["ops"]) for c in sub)
    ctx.traces = sum(1 for ol in allo for o in ol if o["oracle"].get("trace")) 
    ctx.samples = [{"ops": cases[0]["ops"][-2:], "trace": obs[0][-1]["trace"], "verdict": obs[0][-1]["oracle"].get("trace")}]
    ctx.cov["input_distribution"] = {"ops": mc.op_distribution(cases), "hash_seeds": [0] + seeds, "builds": ["compiled", "pure"],
                                     "assignments_with_order_cycle": sum(1 for ol in obs for o in ol if (o["oracle"].get("trace") or {}).get("cycle")),
                                     "max_triggered": max((o["oracle"].get("trace") or {}).get("n_triggered", 0) for ol in allo for o in ol)}
    mc.decide(ctx, proof_ok, allc, allo, mism, fails)


def replay(ctx, data):
    case = data.get("case")
    if not case:
        print("no concrete input in this replay file:", data.get("no_longer_checks")); return 1
    obs = mc.run_impl_cases([case], opts={"snapshots": False})
    f = oracle([case], obs)
    print(json.dumps(obs[0][-1].get("oracle")))
    if f:
        print("VIOLATION property=C02 replay=(given):", f[0][2]); return 1
    print("replay: the implementation satisfies the C02 oracle on this case"); return 0
