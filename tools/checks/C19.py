"""C19 - MAD-X expressions mean the same deferred as evaluated immediately.

Proof part : coq/props/C19.v (table obligation C19_callbacks_ok over the tables
             regenerated from madxutils.py / refs.py; deferred = immediate on
             trees of any depth, in every later state; x/0 = nan is the only
             deviation; fully parenthesised input = Python arithmetic).
Tie        : tools/py2v/gen_madx.py -> coq/gen/GenMadx.v, plus a correspondence
             on strings derived from the (pinned) grammar: Lark's parse tree must
             be the derivation tree, and the model (run/RunMadx.v, exact rational
             instance over the extracted tables) must reproduce the immediate
             value, the structure of the deferred expression and its value before
             and after the variables change.
Oracle     : tools/impl/madx_runner.py evaluates the property itself on the real
             evaluators for every case.
"""
import json, os, re, subprocess
from fractions import Fraction
import vlib

KNOWN_SIG = "special-method-name"
KNOWN_TOKEN_SIG = "attr-token-key"

# ---------------------------------------------------------------------------------
# generation: strings derived from the grammar, together with their derivation tree
#   start: sum ; sum: product | sum +- product ; product: power | product */ power
#   power: atom | power ^|** atom ; atom: NUMBER | - atom | + atom | NAME | NAME->NAME
#   | NAME(sum, ...) | (sum)
# ---------------------------------------------------------------------------------
NUM_EXACT = ["0", "1", "2", "3", "4", "8", "10", "16", "0.5", ".25", "1.5", "2.", "1e1", "5e-1", "2.5E+0",
             "25e-2", "1.e0", ".5E1", "125e-3", "1E0", "0.125", "3.0", "6.e-0", "2e+0"]
NUM_ANY = NUM_EXACT + ["0.1", "1e-3", "3.14159", "7.", ".3", "12.75e2", "1E+2", "9.e-1", ".7E-1", "1e308", "5e-324", "123456789", "0.0", "6.02e23"]
VARS = ["a", "b", "c.d", "x_1", "kq.x%", "e1", "_z"]
ELEMS = {"q1": ["k1", "l", "k.s"], "m.b": ["angle", "k0"]}
FUN_EXACT = {"dbl": 1, "avg": 2, "mac": 2, "fabs": 1, "sq": 1, "inv": 1, "second": 2}
FUN_MATH = {"sin": 1, "cos": 1, "exp": 1, "sqrt": 1, "atan2": 2, "hypot": 2, "fabs": 1, "floor": 1, "pow": 2,
            "log": 1, "fmod": 2, "tan": 1, "asin": 1, "copysign": 2, "atan": 1, "cosh": 1}
VAL_EXACT = [0.0, 1.0, 2.0, -1.0, 3.0, 4.0, 0.5, 1.5, -2.0, 0.25, 8.0, -0.5, 1, 2, -3, 0]


class Gen:
    def __init__(self, rng, fmode, paren):
        self.rng, self.fmode, self.paren = rng, fmode, paren
        self.nums = NUM_EXACT if fmode == "exact" else NUM_ANY
        self.funs = FUN_EXACT if fmode == "exact" else FUN_MATH
        self.forms = set()

    def sp(self):
        return self.rng.choice(["", "", " ", "  "])

    # each gen_* returns (text, tree, python text)
    def sum(self, d):
        r = self.rng
        if d > 0 and r.random() < 0.55:
            l, r_ = self.sum(d - 1), self.product(d - 1)
            op = r.choice("+-")
            return self.bin(op, "add" if op == "+" else "sub", op, l, r_)
        return self.product(d)

    def product(self, d):
        r = self.rng
        if d > 0 and r.random() < 0.5:
            l, r_ = self.product(d - 1), self.power(d - 1)
            op = r.choice("*/") if self.fmode != "exact" else r.choice("**/")
            return self.bin(op, "mul" if op == "*" else "div", op, l, r_)
        return self.power(d)

    def power(self, d):
        r = self.rng
        if d > 0 and r.random() < 0.3:
            l, r_ = self.power(d - 1), self.atom(d - 1)
            op = r.choice(["^", "**"])
            return self.bin(op, "pow", "**", l, r_)
        return self.atom(d)

    def bin(self, op, alias, pyop, l, r_):
        self.forms.add(op)
        if self.paren:
            return (f"({l[0]}{self.sp()}{op}{self.sp()}{r_[0]})", [alias, l[1], r_[1]], f"({l[2]} {pyop} {r_[2]})")
        return (f"{l[0]}{self.sp()}{op}{self.sp()}{r_[0]}", [alias, l[1], r_[1]], None)

    def atom(self, d):
        r = self.rng
        k = r.random()
        if d <= 0:
            k = k * 0.62
        if k < 0.22:
            tok = r.choice(self.nums)
            self.forms.add("NUMBER:" + number_form(tok))
            return (tok, ["number", tok], f"float('{tok}')")
        if k < 0.50:
            n = r.choice(VARS)
            self.forms.add("dotted" if "." in n else "name")
            return (n, ["var", n], f"V[{n!r}]")
        if k < 0.62:
            e = r.choice(sorted(ELEMS))
            a = r.choice(ELEMS[e])
            self.forms.add("->")
            py = f"getattr(E[{e!r}], {a!r})" if self.attr else f"E[{e!r}][{a!r}]"
            return (f"{e}{self.sp()}->{self.sp()}{a}", ["elem", e, a], py)
        if k < 0.74:
            sgn = r.choice("-+")
            a = self.atom(d - 1)
            self.forms.add("unary" + sgn)
            if self.paren:
                return (f"({sgn}{self.sp()}{a[0]})", ["neg" if sgn == "-" else "pos", a[1]], f"({sgn}{a[2]})")
            return (f"{sgn}{self.sp()}{a[0]}", ["neg" if sgn == "-" else "pos", a[1]], None)
        if k < 0.88:
            f = r.choice(sorted(self.funs))
            n = self.funs[f]
            if r.random() < 0.04:
                n = 3 - n            # wrong number of arguments: TypeError in both evaluators
            args = [self.sum(d - 1) for _ in range(n)]
            self.forms.add(f"call{n}")
            py = f"getattr(F, {f!r})(" + ", ".join(a[2] or "" for a in args) + ")"
            return (f"{f}{self.sp()}(" + f"{self.sp()},{self.sp()}".join(a[0] for a in args) + ")", ["call", f, [a[1] for a in args]], py)
        s = self.sum(d - 1)
        self.forms.add("()")
        return (f"({self.sp()}{s[0]}{self.sp()})", s[1], s[2] if self.paren else None)


def number_form(tok):
    t = tok.lower()
    m = "int" if re.fullmatch(r"\d+", t) else "dec"
    if "e" in t:
        mant, ex = t.split("e")
        m = ("int" if re.fullmatch(r"\d+", mant) else "d." if mant.endswith(".") else ".d" if mant.startswith(".") else "d.d") + "e" + \
            ("+" if ex.startswith("+") else "-" if ex.startswith("-") else "")
    elif m == "dec":
        m = "d." if t.endswith(".") else ".d" if t.startswith(".") else "d.d"
    return m


def enc(v):
    return ["i", str(v)] if isinstance(v, int) else ["f", float(v).hex()]


def gen_case(rng, fmode=None, depth=None):
    fmode = fmode or rng.choice(["exact", "exact", "math"])
    paren = rng.random() < 0.35
    attr = rng.random() < 0.4
    g = Gen(rng, fmode, paren)
    g.attr = attr
    d = depth if depth is not None else rng.choice([1, 2, 3, 3, 4, 4, 5, 6, 6])
    text, tree, py = g.sum(d)
    if fmode == "exact":
        pick = lambda: rng.choice(VAL_EXACT)
    else:
        pick = lambda: rng.choice([rng.uniform(-3, 3), rng.uniform(-3, 3), float(rng.randint(-3, 3)), rng.randint(-2, 5), 0.0, 1e-9, 1e200])
    names = list(VARS)
    vdefault = rng.random() < 0.35
    missing = [n for n in names if rng.random() < 0.06]
    vars1 = {n: enc(pick()) for n in names if n not in missing}
    vars2 = dict(vars1)
    for n in names:
        if n in vars1 and rng.random() < 0.5:
            vars2[n] = enc(pick())
    elems1 = {e: {k: enc(pick()) for k in ks} for e, ks in ELEMS.items()}
    elems2 = {e: {k: (enc(pick()) if rng.random() < 0.3 else v) for k, v in d_.items()} for e, d_ in elems1.items()}
    use_env = (fmode == "math" and not attr and vdefault and rng.random() < 0.6)
    return {"s": text, "attr": attr, "fmode": fmode, "vdefault": vdefault or use_env, "use_env": use_env,
            "vars1": vars1, "vars2": vars2, "elems1": elems1, "elems2": elems2, "py": py if paren else None,
            "expect_tree": tree, "depth": d, "forms": sorted(g.forms)}


CORPUS = [
    # (string, attr, fmode) - the strings of the package's own test and docstrings plus precedence/associativity probes
    ("+1+2^-2", False, "exact"), ("a.b", False, "exact"), ("1+c.d*-3", False, "exact"), ("sin(3)^2", False, "math"),
    ("q1->k1*q1->l", False, "exact"), ("q1->k1*q1->l", True, "exact"), ("-2^2", False, "exact"), ("2^3^2", False, "exact"),
    ("2**3**2", False, "exact"), ("-a^2", False, "exact"), ("2^-a", False, "exact"), ("a-b-c.d", False, "exact"),
    ("a/b/2", False, "exact"), ("a/b*2", False, "exact"), ("a-b+1", False, "exact"), ("1/(a-a)", False, "exact"),
    ("(1/(a-a))^0", False, "exact"), ("1/0", False, "exact"), ("a+1/0", False, "exact"), ("0^-1", False, "exact"),
    ("a*0^-1", False, "exact"), ("inv(a-a)", False, "exact"), ("avg(a,b)*mac(2,x_1)", False, "exact"),
    ("dbl(1,2)", False, "exact"), ("nosuch(1)", False, "exact"), ("atan2(a,b)+hypot(3,4)", False, "math"),
    ("sqrt(-1)+a", False, "math"), ("exp(1000)*a", False, "math"), ("1e308*10*a", False, "math"), ("log(0)", False, "math"),
    ("m.b->angle/q1->k.s", False, "exact"), ("m.b->angle/q1->k.s", True, "exact"), ("kq.x%*2", False, "exact"),
    ("((a)+((b)*(2)))", False, "exact"), ("(-(2))^(2)", False, "exact"), ("2*e1", False, "exact"), (" 1 + 2 ", False, "exact"),
    ("- - a", False, "exact"), ("-+-2", False, "exact"),
]


def corpus_cases(rng):
    out = []
    for s, attr, fmode in CORPUS:
        c = gen_case(rng, fmode, 0)
        c.update({"s": s, "attr": attr, "fmode": fmode, "py": None, "expect_tree": None, "depth": 0, "forms": ["corpus"],
                  "use_env": False, "vdefault": False})
        if s == "((a)+((b)*(2)))":
            c["py"] = "(V['a'] + (V['b'] * float('2')))"
        if s == "(-(2))^(2)":
            c["py"] = "((-float('2')) ** float('2'))"
        out.append(c)
    return out


# ---------------------------------------------------------------------------------
# rendering (shrinking) and Coq emission
# ---------------------------------------------------------------------------------
LEVEL = {"add": 0, "sub": 0, "mul": 1, "div": 1, "pow": 2}
OPTXT = {"add": "+", "sub": "-", "mul": "*", "div": "/", "pow": "^"}


def render(t, level=0):
    k = t[0]
    if k == "number":
        return t[1]
    if k == "var":
        return t[1]
    if k == "elem":
        return f"{t[1]}->{t[2]}"
    if k in ("neg", "pos"):
        return ("-" if k == "neg" else "+") + render(t[1], 3)
    if k == "call":
        return f"{t[1]}(" + ",".join(render(a, 0) for a in t[2]) + ")"
    lv = LEVEL[k]
    s = render(t[1], lv) + OPTXT[k] + render(t[2], lv + 1)
    return f"({s})" if lv < level else s


def subtrees(t):
    yield t
    k = t[0]
    if k in ("neg", "pos"):
        yield from subtrees(t[1])
    elif k == "call":
        for a in t[2]:
            yield from subtrees(a)
    elif k in LEVEL:
        yield from subtrees(t[1])
        yield from subtrees(t[2])


def cstr(s):
    if any(ord(ch) < 32 or ord(ch) > 126 for ch in s):
        raise ValueError(s)
    return '"' + s.replace('"', '""') + '"'


def cq(n, d):
    n, d = int(n), int(d)
    return f"(({n}) # {d})%Q" if n < 0 else f"({n} # {d})%Q"


def ctree(t):
    k = t[0]
    if k == "number":
        return f"(MNumber {cstr(t[1])})"
    if k == "var":
        return f"(MVar {cstr(t[1])})"
    if k == "elem":
        return f"(MElem {cstr(t[1])} {cstr(t[2])})"
    if k == "neg":
        return f"(MNeg {ctree(t[1])})"
    if k == "pos":
        return f"(MPos {ctree(t[1])})"
    if k == "call":
        return f"(MCall {cstr(t[1])} [" + "; ".join(ctree(a) for a in t[2]) + "])"
    return "(" + {"add": "MAdd", "sub": "MSub", "mul": "MMul", "div": "MDiv", "pow": "MPow"}[k] + f" {ctree(t[1])} {ctree(t[2])})"


def cval(v):
    if v[0] == "i":
        return f"(RNum {cq(v[1], 1)})"
    f = float.fromhex(v[1])
    if f != f or f in (float("inf"), float("-inf")):
        return None
    n, d = f.as_integer_ratio()
    return f"(RNum {cq(n, d)})"


def cstate(vars_, elems, vdefault):
    vs = []
    for k, v in vars_.items():
        cv = cval(v)
        if cv is None:
            return None
        vs.append(f"({cstr(k)}, {cv})")
    es = []
    for e in sorted(elems):
        fs = []
        for k, v in elems[e].items():
            cv = cval(v)
            if cv is None:
                return None
            fs.append(f"({cstr(k)}, {cv})")
        es.append(f"({cstr(e)}, [" + "; ".join(fs) + "])")
    return f"(mk_rstate [" + "; ".join(vs) + f"] {'true' if vdefault else 'false'} [" + "; ".join(es) + "])"


def cobs(o):
    k = o[0]
    if k == "num":
        return f"(ONum {cq(o[1], o[2])})"
    if k == "nan":
        return "ONaN"
    if k == "err":
        return "OErrZD" if o[2] else "OErrOther"
    return "OOtherVal"


def cdv(b):
    k = b[0]
    if k == "plain":
        return f"(DPlain (RNum {cq(b[1], b[2])}))"
    if k == "plainnan":
        return "(DPlain RNaN)"
    if k == "root":
        return f"(DRoot {b[1]})"
    if k == "acc":
        x = cdv(b[2])
        return None if x is None else f"(DAcc {cstr(b[1])} {x} {cstr(b[3])})"
    if k == "bin":
        x, y = cdv(b[2]), cdv(b[3])
        return None if x is None or y is None else f"(DBin {cstr(b[1])} {x} {y})"
    if k == "un":
        x = cdv(b[2])
        return None if x is None else f"(DUn {cstr(b[1])} {x})"
    if k == "call":
        f = cdv(b[2])
        xs = [cdv(a) for a in b[3]]
        if f is None or any(x is None for x in xs):
            return None
        return f"(DCallN {cstr(b[1])} {f} [" + "; ".join(xs) + "])"
    return None


def cbuild(b):
    if b[0] == "err":
        return "BErrZD" if b[2] else "BErrOther"
    d = cdv(b)
    return "BUnknown" if d is None else f"(BExpr {d})"


def tokens_of(t, acc):
    if t[0] == "number":
        acc.add(t[1])
    elif t[0] in ("neg", "pos"):
        tokens_of(t[1], acc)
    elif t[0] == "call":
        for a in t[2]:
            tokens_of(a, acc)
    elif t[0] in LEVEL:
        tokens_of(t[1], acc); tokens_of(t[2], acc)
    return acc


def emit_case(c, r):
    s1 = cstate(c["vars1"], c["elems1"], c["vdefault"])
    s2 = cstate(c["vars2"], c["elems2"], c["vdefault"])
    if s1 is None or s2 is None:
        return None
    fl = []
    for tok in sorted(tokens_of(r["tree"], set())):
        f = float(tok)
        if f != f or f in (float("inf"), float("-inf")):
            return None
        n, d = f.as_integer_ratio()
        fl.append(f"({cstr(tok)}, {cq(n, d)})")
    return (f"(mk_mcase {'true' if c['attr'] else 'false'} [" + "; ".join(fl) + f"] {ctree(r['tree'])}\n   {s1}\n   {s2}\n   "
            f"{cobs(r['imm1'])} {cbuild(r['build'])} {cobs(r['def1'])} {cobs(r['imm2'])} {cobs(r['def2'])})")


HEADER = ("From Coq Require Import String List ZArith QArith.\nFrom XD Require Import model.MadxSyn model.Madx run.RunMadx.\n"
          "Import ListNotations.\nOpen Scope string_scope.\nDefinition cases : list mcase :=\n [")


def parse_two_lists(out):
    parts = re.findall(r"=\s*(\[[^\]]*\]|nil)", out.replace("\n", " "))
    if len(parts) != 2:
        return None
    return [[int(x) for x in re.findall(r"\d+", p)] for p in parts]


# ---------------------------------------------------------------------------------
def run_cases(cases, builds=("compiled",)):
    impl = vlib.build_impl()
    from concurrent.futures import ThreadPoolExecutor
    res = {}
    for b in builds:
        parts = list(vlib.chunks(cases, max(1, (len(cases) + vlib.NPROC - 1) // vlib.NPROC)))
        payload = [[{k: v for k, v in c.items() if k not in ("expect_tree", "forms", "depth")} for c in p] for p in parts]
        with ThreadPoolExecutor(max_workers=vlib.NPROC) as ex:
            rs = list(ex.map(lambda p: vlib.run_impl("madx_runner.py", {"cases": p}, build=b, impl=impl), payload))
        out = []
        for r in rs:
            if b == "compiled" and not r.get("cythonized"):
                raise vlib.InfraError("compiled build is not cythonized")
            out += r["results"]
        res[b] = out
    return res


def model_eval(ctx, cases, results, tag):
    """returns (mismatching indices, unpredicted indices, not representable indices)"""
    texts, ids_of, skipped = [], [], []
    idx = [i for i, c in enumerate(cases) if c["fmode"] == "exact" and "tree" in results[i]]
    for chunk in vlib.chunks(idx, 120):
        items, ids = [], []
        for i in chunk:
            e = emit_case(cases[i], results[i])
            if e is None:
                skipped.append(i)
            else:
                items.append(e); ids.append(i)
        texts.append(HEADER + ";\n ".join(items) + "].\nEval vm_compute in (mismatches cases).\nEval vm_compute in (unpredicted cases).\n")
        ids_of.append(ids)
    mism, unp = [], []
    for (rc, so, se), ids in zip(vlib.coq_eval_files(ctx, texts, tag, timeout=900), ids_of):
        two = parse_two_lists(so) if rc == 0 else None
        if two is None:
            return None, f"rc={rc} {se[-600:]} {so[-200:]}"
        mism += [ids[k] for k in two[0]]
        unp += [ids[k] for k in two[1]]
    return (sorted(mism), sorted(unp), skipped, idx), None


TOKEN_KEY_KNOWN = [False]      # set by run(): the known finding attr-token-key is listed and its witness still fails


def real_fails(case, r):
    """oracle failures of a result, not counting the exact signature of a known finding"""
    if TOKEN_KEY_KNOWN[0] and is_token_key_failure(case, r):
        return []
    return r.get("fails") or []


def oracle_fail(case):
    r = run_cases([case])["compiled"][0]
    return bool(real_fails(case, r)) or "parse_error" in r, r


def render_paren(t, attr):
    """fully parenthesised text and its Python transliteration"""
    k = t[0]
    if k == "number":
        return t[1], f"float('{t[1]}')"
    if k == "var":
        return t[1], f"V[{t[1]!r}]"
    if k == "elem":
        return f"{t[1]}->{t[2]}", (f"getattr(E[{t[1]!r}], {t[2]!r})" if attr else f"E[{t[1]!r}][{t[2]!r}]")
    if k in ("neg", "pos"):
        a = render_paren(t[1], attr)
        sg = "-" if k == "neg" else "+"
        return f"({sg}{a[0]})", f"({sg}{a[1]})"
    if k == "call":
        args = [render_paren(a, attr) for a in t[2]]
        return f"{t[1]}(" + ",".join(a[0] for a in args) + ")", f"getattr(F, {t[1]!r})(" + ", ".join(a[1] for a in args) + ")"
    l, r = render_paren(t[1], attr), render_paren(t[2], attr)
    return f"({l[0]}{OPTXT[k]}{r[0]})", f"({l[1]} {'**' if k == 'pow' else OPTXT[k]} {r[1]})"


def shrink(case):
    """smallest sub-expression (rendered from the parse tree) on which the oracle still fails"""
    best, best_r = case, oracle_fail(case)[1]
    tree = best_r.get("tree") or case.get("expect_tree")
    if not tree:
        return best, best_r
    if case.get("py"):
        cands = sorted({render_paren(t, case["attr"]) for t in subtrees(tree)}, key=lambda x: len(x[0]))
    else:
        cands = sorted({(render(t), None) for t in subtrees(tree)}, key=lambda x: len(x[0]))
    for s, py in cands:
        if len(s) >= len(best["s"]):
            break
        cand = dict(case, s=s, py=py, expect_tree=None)
        bad, r = oracle_fail(cand)
        if bad and "parse_error" not in r:
            return cand, r
    return best, best_r


def is_token_key_failure(case, r):
    """exact signature of the known finding attr-token-key: attribute mode, an element attribute changed through the
    manager, and the only failing sub-check is the variable registered with the deferred expression"""
    fs = r.get("fails") or []
    return bool(fs) and case["attr"] and all(f[0] == "tracked" for f in fs) and any("->" in x for x in r.get("changed", []))


def token_key_known(ctx):
    """True when the finding is listed as known and its witness still fails on the implementation"""
    ents = [e for e in vlib.known_findings("C19") if e.get("kind") == "known" and e.get("signature") == KNOWN_TOKEN_SIG]
    if not ents:
        return False
    w = ents[0]["witness"]
    r = run_cases([w])["compiled"][0]
    if is_token_key_failure(w, r):
        vlib.known(ctx, f"attribute mode: a variable defined by madexpr({w['s']!r}) does not follow an element attribute changed through the "
                        f"manager (ItemRef keyed by a lark Token); expected {r['imm2']}, got {r.get('tgt')}; repair in fixes/pending/c19_madx_getattr_token_key.patch")
        return True
    ctx.notes.append("known finding attr-token-key: the witness no longer fails")
    return False


def known_witness(ctx):
    """the known finding: an attribute / function name listed in refs.special_methods"""
    ents = [e for e in vlib.known_findings("C19") if e.get("kind") == "known" and e.get("signature") == KNOWN_SIG]
    if not ents:
        return
    w = ents[0]["witness"]
    r = run_cases([w])["compiled"][0]
    still = (r.get("imm1", [""])[0] == "num" and r.get("build", [""])[0] == "err" and r["build"][1] == "AttributeError")
    if still:
        vlib.known(ctx, f"deferred evaluation of {w['s']!r} in attribute mode raises AttributeError while building the expression "
                        f"(name in refs.special_methods); the immediate value is {r['imm1']}")
    else:
        ctx.notes.append("known finding special-method-name: the witness no longer fails")


def run(ctx):
    ctx.rule = ("strings derived from the pinned grammar (sum/product/power/atom, depth 0..6, random inline blanks): sums, products, ^ and **, "
                "unary signs, every NUMBER form, dotted/%-names, elem->attr, 1/2-argument calls (4% with a wrong argument count), 35% fully "
                "parenthesised with the Python transliteration; item and attribute mode; dict / defaultdict variables, 6% missing names; "
                "exact function module (dyadic values, compared with the rational model) or math (MadxEnv for 60% of the item/defaultdict ones); "
                "half of the variables and 30% of the element fields change through the manager; plus a 40-string corpus. "
                "Names of refs.special_methods are excluded (known finding). non-trivial = a case with an operator node whose value differs between "
                "state 1 and state 2; distinct by string + values")
    proof_ok = vlib.standard_proof_part(ctx, "props/C19.v", allowed_axioms=(), extra_targets=["run/RunMadx.vo"], translators=["madx"])
    n = ctx.pick(2400, 24000)
    cases = corpus_cases(ctx.rng) + [gen_case(ctx.rng) for _ in range(n)]
    builds = ("compiled", "pure")
    res = run_cases(cases, ("compiled",))
    results = res["compiled"]
    # the pure-Python build: every case in the thorough tier, the corpus and every third case in the quick tier
    pure_idx = [i for i in range(len(cases)) if not ctx.quick or i < len(CORPUS) or i % 3 == 0]
    pr = run_cases([cases[i] for i in pure_idx], ("pure",))["pure"]
    res["pure"] = [None] * len(cases)
    for i, r in zip(pure_idx, pr):
        res["pure"][i] = r
    # both builds must observe the same
    build_diff = [i for i in pure_idx if json.dumps(res["compiled"][i], sort_keys=True) != json.dumps(res["pure"][i], sort_keys=True)]
    orc_fail = [i for i, r in enumerate(results) if r.get("fails")]
    orc_fail += [i for i in pure_idx if res["pure"][i].get("fails") and i not in orc_fail]
    tk = [i for i in orc_fail if is_token_key_failure(cases[i], results[i])]
    TOKEN_KEY_KNOWN[0] = bool(tk) and token_key_known(ctx)
    if TOKEN_KEY_KNOWN[0]:
        orc_fail = [i for i in orc_fail if i not in tk]
        ctx.notes.append(f"{len(tk)} cases carry the signature of the known finding attr-token-key and are not counted as failures")
    parse_err = [i for i, r in enumerate(results) if "parse_error" in r and cases[i]["expect_tree"] is not None]
    tree_diff = [i for i, r in enumerate(results) if "tree" in r and cases[i]["expect_tree"] is not None and r["tree"] != cases[i]["expect_tree"]]
    me, err = model_eval(ctx, cases, results, "c")
    if me is None:
        if proof_ok:
            raise vlib.InfraError("case file evaluation failed: " + err)
        mism, unp, skipped, compared = [], [], [], []
        ctx.broken.append("model evaluation impossible: " + err[:300])
    else:
        mism, unp, skipped, compared = me
    n_cmp = len(compared) - len(unp) - len(skipped)
    ctx.evaluations += 4 * (len(cases) + len(pure_idx))
    ctx.traces += n_cmp
    for c, r in zip(cases, results):
        if "imm1" in r and r["imm1"] != r["imm2"] and r["imm1"][0] == "num" and r["imm2"][0] == "num" and c["expect_tree"] is not None \
                and c["expect_tree"][0] not in ("number", "var", "elem"):
            ctx.nontrivial.add(c["s"] + json.dumps(c["vars1"], sort_keys=True))
    forms, outcomes = {}, {}
    for c, r in zip(cases, results):
        for f in c["forms"]:
            forms[f] = forms.get(f, 0) + 1
        k = (r.get("imm1") or ["parse_error"])[0] + ("/" + r["imm1"][1] if r.get("imm1", [""])[0] == "err" else "")
        outcomes[k] = outcomes.get(k, 0) + 1
    nan_dev = sum(1 for r in results if r.get("imm1", [""])[0] == "err" and r["imm1"][2] and r.get("def1", ["err"])[0] != "err")
    ctx.cov["input_distribution"] = {
        "cases": len(cases), "forms": forms, "immediate_outcomes": outcomes,
        "depth_hist": {str(d): sum(1 for c in cases if c["depth"] == d) for d in range(7)},
        "attr_mode": sum(1 for c in cases if c["attr"]), "fully_parenthesised": sum(1 for c in cases if c["py"]),
        "via_MadxEnv": sum(1 for c in cases if c["use_env"]), "exact_mode": sum(1 for c in cases if c["fmode"] == "exact"),
        "deferred_nan_where_immediate_raises_ZeroDivisionError": nan_dev,
        "tracked_through_a_registered_task": sum(1 for r in results if "tgt" in r),
        "model_compared_exactly": n_cmp, "model_no_prediction_inexact": len(unp), "model_not_representable": len(skipped)}
    ctx.samples = [{"s": cases[i]["s"], "attr": cases[i]["attr"], "imm1": results[i].get("imm1"), "def1": results[i].get("def1"),
                    "imm2": results[i].get("imm2"), "def2": results[i].get("def2")} for i in (3, 15, 16, len(cases) // 2, len(cases) - 1)]
    ctx.obligations.append(("oracle: deferred == immediate (NaN for x/0), before and after updates, == Python for parenthesised input",
                            not orc_fail, f"{len(orc_fail)} failing of {len(cases)}"))
    ctx.obligations.append(("correspondence: Lark's parse tree is the derivation tree of the pinned grammar",
                            not tree_diff and not parse_err, f"{len(tree_diff)} different, {len(parse_err)} rejected"))
    ctx.obligations.append(("correspondence: model (extracted tables, rational instance) = implementation: immediate value, expression "
                            "structure, deferred value in both states", not mism, f"{len(mism)} mismatching of {n_cmp} compared"))
    ctx.obligations.append(("compiled and pure builds observe the same", not build_diff, f"{len(build_diff)} differing of {len(pure_idx)}"))
    if me is not None and proof_ok and n_cmp < len(compared) // 4:
        raise vlib.InfraError(f"the rational instance predicted only {n_cmp} of {len(compared)} exact-mode cases")
    known_witness(ctx)

    def report(i, kind, extra=None):
        small, r = shrink(cases[i])
        payload = {"kind": kind, "case": {k: v for k, v in small.items() if k not in ("forms", "depth")}, "observed": r,
                   "how_to_replay": "./check C19 --replay <this file>"}
        if extra:
            payload.update(extra)
        vlib.violation(ctx, payload)

    if orc_fail:
        first = sorted(orc_fail, key=lambda j: len(cases[j]["s"]))[0]
        report(first, "oracle", {"failed_checks": results[first].get("fails") or (res["pure"][first] or {}).get("fails"),
                                       "also_broken": list(getattr(ctx, "broken", []))})
    elif not proof_ok or mism or tree_diff or parse_err or build_diff:
        what = list(getattr(ctx, "broken", []))
        disc = None
        if tree_diff or parse_err:
            i = (tree_diff or parse_err)[0]
            what.append(f"the current grammar does not parse as the pinned one on {len(tree_diff) + len(parse_err)} strings")
            # a discriminating experiment: smallest string whose tree changed, with the value under the current grammar
            cand = sorted(tree_diff or parse_err, key=lambda j: len(cases[j]["s"]))[0]
            disc = {"s": cases[cand]["s"], "derivation_tree_pinned_grammar": cases[cand]["expect_tree"],
                    "lark_tree_current_grammar": results[cand].get("tree") or results[cand].get("parse_error"),
                    "value_current_grammar": results[cand].get("imm1"), "vars": cases[cand]["vars1"]}
        if mism:
            i = mism[0]
            what.append(f"model (coq/model/Madx.v over the extracted tables) != implementation on {len(mism)} cases, first: "
                        f"{cases[i]['s']!r} attr={cases[i]['attr']} observed={json.dumps({k: results[i][k] for k in ('imm1', 'build', 'def1', 'imm2', 'def2')})}")
        if build_diff:
            what.append(f"compiled and pure builds differ on {cases[build_diff[0]]['s']!r}")
        # search harder with the oracle: parenthesised cases exercise every callback against Python itself
        extra = []
        for _ in range(ctx.pick(3000, 12000)):
            extra.append(gen_case(ctx.rng))
        r2 = run_cases(extra)["compiled"]
        if not TOKEN_KEY_KNOWN[0] and any(is_token_key_failure(c, r) for c, r in zip(extra, r2)):
            TOKEN_KEY_KNOWN[0] = token_key_known(ctx)
        bad = [i for i, r in enumerate(r2) if real_fails(extra[i], r)]
        if bad:
            i = sorted(bad, key=lambda j: len(extra[j]["s"]))[0]
            small, r = shrink(extra[i])
            vlib.violation(ctx, {"kind": "oracle", "case": {k: v for k, v in small.items() if k not in ("forms", "depth")},
                                 "observed": r, "failed_checks": r.get("fails"), "also_broken": what})
        else:
            vlib.violation(ctx, {"kind": "proof-or-correspondence", "no_longer_checks": what, "discriminating_input": disc,
                                 "searched": f"{len(extra)} extra derived strings + {len(cases)} cases with the oracle: the property itself "
                                             "(deferred == immediate, == Python when parenthesised) holds on all of them"}, no_input=True)


def replay(ctx, data):
    case = data.get("case")
    if not case:
        print("replay file names a broken theorem/table/correspondence, no property-violating input:")
        print(json.dumps(data.get("no_longer_checks"), indent=1))
        if data.get("discriminating_input"):
            d = data["discriminating_input"]
            c = gen_case(ctx.rng, "exact", 0)
            c.update({"s": d["s"], "attr": False, "py": None, "vars1": d["vars"], "vars2": d["vars"], "use_env": False})
            r = run_cases([c])["compiled"][0]
            print("discriminating input", repr(d["s"]), ": pinned-grammar derivation", d["derivation_tree_pinned_grammar"])
            print(" current parse:", r.get("tree") or r.get("parse_error"), "value:", r.get("imm1"))
            same = r.get("tree") == d["derivation_tree_pinned_grammar"]
            print(" -> the current grammar", "parses it as the pinned grammar does" if same else "parses it differently")
            return 0 if same else 1
        return 1
    bad, r = oracle_fail(case)
    print(json.dumps(r, indent=1))
    if bad:
        print(f"VIOLATION property=C19 replay=(given) : {(r.get('fails') or [[r.get('parse_error')]])[0]}")
        return 1
    print("replay: the implementation satisfies the property on this case")
    return 0
