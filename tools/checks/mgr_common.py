"""Shared by the manager-family checks (C01, C02, C03, C13, C17, C18, C20):
history generators, emission of Coq case files for coq/run/RunManager.v, and
the model/implementation comparison."""
import json
import vlib
from vlib import cz, cn, clist, cbool

def canon_key(k):
    """subclass-instance key forms denote the location of the plain key"""
    if isinstance(k, str) and k.startswith("\x01strsub:"):
        return k[len("\x01strsub:"):]
    if isinstance(k, str) and k.startswith("\x01intsub:"):
        return int(k[len("\x01intsub:"):])
    return k


def flat(p):
    """[label, [kind, key], ...] -> [label, key, ...] as the runner reports locations"""
    return [p[0]] + [canon_key(s[1]) for s in p[1:]]


# ------------------------------------------------------------------ stores
# keys of dict containers beyond plain identifiers.  "strings": characters that need escaping in the
# printed form of a reference (dump(), mk_fun source); "exotic": key TYPES (negative/big ints, floats, tuples,
# None, bool, numpy integers, IntEnum members) in the tagged encoding decoded by tools/impl/manager_runner.py.
# Within a pool no two keys are equal as Python objects (no aliasing of dict slots).
KEY_POOLS = {
    "strings": ["it's", 'dq"uote', "back\\slash", "a\\x41", "tab\there", "new\nline", "sp ace", "\u00e9\u221a", "{br}", "[0]", "",
                "a.b", "'", "\\", "\\n", "%s", "k" * 40, "c['a']", "\x7f", "#", "a=b", "\r"],
    "exotic": ["\x01np:3", "\x01np:4", "\x01np:5", "\x01enum:6", "\x01enum:7", "\x01enum:8", -1, 100, 2 ** 70, "\x01f:0.5",
               "\x01f:1e+300", "\x01f:nan", "\x01tup:[1, 2]", "\x01tup:[\"a\", 1]", "\x01tup:[]", "\x01none", "\x01bool:1", "\x01np8:9",
               "it's", "back\\slash"],
}


# VALUES stored in the containers.  "int": small integers (the domain of the Coq model); "mixed": also floats (incl. nan,
# inf, -0.0, huge), strings, None, bool, numpy arrays and scalars, nested tuples — in the tagged encoding decoded by the
# runner.  Histories with mixed values are judged by the implementation-side oracles only.
VALUE_POOL = ["\x02f:0.5", "\x02f:-2.25", "\x02f:1e+308", "\x02f:nan", "\x02f:inf", "\x02f:-0.0", "\x02f:3.0", "\x02s:ab", "\x02s:", "\x02none",
              "\x02b:1", "\x02b:0", "\x02arr:[1, 2, 3]", "\x02arr:[0.5, -1.0]", "\x02arr:[]", "\x02np:7", "\x02npf:2.5", "\x02tup:[1, 2]",
              "\x02big:123456789012345678901234567890", "\x02c:1+2j", "\x02list:[1, 2]",
              "\x02frac:1/3", "\x02frac:-7/2", "\x02dec:1.5", "\x02num:4", "\x02num:-2"]      # Fraction, Decimal, a user-defined number class


NUMERIC_POOL = [v for v in VALUE_POOL if v.split(":")[0][1:] in ("f", "b", "np", "npf", "big", "c", "frac", "num")]


def gen_value(rng, values="int", lo=-9, hi=9):
    if values == "mixed" and rng.random() < 0.45:
        return rng.choice(VALUE_POOL if rng.random() < 0.25 else NUMERIC_POOL)
    return rng.randint(lo, hi)


def is_int_case(case):
    return "\\u0002" not in json.dumps(case)


def rename_keys(rng, spec, leaves, conts, pool, p_rename=0.6):
    """renames keys of the dict containers under label "c" (attribute names must stay identifiers)"""
    mapping = {}

    def walk(node, prefix):
        if node["kind"] in ("dict", "userdict"):
            names = [k for k, _ in node["items"]]
            new = rng.sample(pool, min(len(pool), len(names)))
            mapping[prefix] = {k: n for k, n in zip(names, new) if rng.random() < p_rename}
        for k, v in node["items"]:
            if isinstance(v, dict):
                walk(v, prefix + (k,))
        if node["kind"] in ("dict", "userdict"):
            node["items"] = [[mapping[prefix].get(k, k), v] for k, v in node["items"]]
    for label, node in spec:
        if label == "c":
            walk(node, (label,))

    def rp(p):
        out, prefix = [p[0]], (p[0],)
        for kind, key in p[1:]:
            out.append([kind, mapping.get(prefix, {}).get(key, key)])
            prefix += (key,)
        return out
    return spec, [rp(p) for p in leaves], [rp(p) for p in conts]


def make_store(rng, nested=True, attrdict=False, keys=None, values="int"):
    """returns (spec, leaves, containers).  spec: [[label, node]...]"""
    # item names of the AttrDict container: some shadow dict methods ("items" is left out: an AttrDict holding that key
    # cannot be copied or pickled by Python itself, which puts it outside what C12 quantifies over)
    GNAMES = rng.sample(["q", "r", "keys", "values", "get", "pop", "update", "copy", "clear", "setdefault"], 2)
    if keys:
        spec, leaves, conts = make_store(rng, nested, attrdict, None, values)
        return rename_keys(rng, spec, leaves, conts, KEY_POOLS[keys])
    def leafs(names):
        return [[k, gen_value(rng, values)] for k in names]
    # container classes: dict / list subclasses, a collections.UserDict, a plain object, an object with __slots__
    kn = rng.choice(["dict", "obj", "dict", "obj", "userdict", "slots"])
    kp = rng.choice(["dict", "obj", "dict", "obj", "userdict", "slots"])
    step = lambda kind: "i" if kind in ("dict", "list", "userdict") else "a"
    c_items = leafs("abcd")
    leaves = [["c", ["i", k]] for k in "abcd"]
    conts = []
    if nested:
        p = {"kind": kp, "items": leafs("uv")}
        n = {"kind": kn, "items": leafs("xyzw") + [["p", p]]}
        c_items.append(["n", n])
        c_items.append(["l", {"kind": "list", "items": [[i, gen_value(rng, values)] for i in range(3)]}])
        leaves += [["c", ["i", "n"], [step(kn), k]] for k in "xyzw"]
        leaves += [["c", ["i", "n"], [step(kn), "p"], [step(kp), k]] for k in "uv"]
        leaves += [["c", ["i", "l"], ["i", i]] for i in range(3)]
        conts += [["c", ["i", "n"], [step(kn), "p"]], ["c", ["i", "l"]]]
    # how the top-level container is handed to the manager: Manager.ref, Manager.refattr (attribute access becomes item
    # access) or Manager.newenv (DepEnv proxy); only dict containers can take the last two
    spec = [["c", {"kind": "dict", "items": c_items, "root": rng.choice(["ref", "ref", "refattr", "env"])}],
            # an AttrDict may hold items named like dict methods (read through the attribute route)
            ["g", {"kind": "attrdict", "items": leafs(GNAMES)} if attrdict else {"kind": "obj", "items": leafs("qr")}],
            ["f", {"kind": "dict", "items": [["sum", "FunSum"], ["sum2", "FunSum2"]], "root": rng.choice(["ref", "ref", "refattr"])}
                  if rng.random() < 0.6 else {"kind": "obj", "items": [["sum", "FunSum"], ["sum2", "FunSum2"]]}]]
    leaves += [["g", ["a", k]] for k in (GNAMES if attrdict else "qr")]
    return spec, leaves, conts


FSTEP = ["i"]        # how the function container of the current history is accessed: item (dict) or attribute (object)


def gen_expr(rng, pool, conts, depth=0):
    """pool: locations the expression may read; conts: containers it may sum
    (already filtered by the caller)"""
    k = rng.random()
    if EXPR_MODE[0] == "mixed" and rng.random() < 0.08:
        # ** with a literal base (how a negative / signed-zero literal base prints matters to mk_fun) and a stored exponent
        return ["bin", "**", ["const", rng.choice(POW_BASES)], ["ref", rng.choice(pool)]]
    if conts and k < 0.12 and depth == 0:
        return ["callsum", ["f", [FSTEP[0], "sum"]], rng.choice(conts)]
    if k < 0.35 or depth >= 2:
        return ["ref", rng.choice(pool)]
    if k < 0.42:         # an attribute of an expression's value: an AttrRef whose owner is an expression node
        return ["proj", rng.choice(["real", "imag", "numerator", "denominator"]), gen_expr(rng, pool, conts, depth + 1)]
    if k < 0.47:        # % and // with a non-zero constant divisor (guarded operators: ZeroDivisionError handling inside)
        return ["bin", rng.choice(["%", "//"]), gen_expr(rng, pool, conts, depth + 1), ["const", rng.choice([-3, -2, 2, 3, 5])]]
    if k < 0.6:
        a = ["ref", rng.choice(pool)]
        b = ["const", rng.choice(LITERAL_POOL) if TYPED_LITERALS[0] and rng.random() < 0.3 else rng.randint(-5, 5)]
        if rng.random() < 0.3:
            a, b = b, a
        return ["bin", rng.choice("+-*"), a, b]
    return ["bin", rng.choice("+-*"), gen_expr(rng, pool, conts, depth + 1), gen_expr(rng, pool, conts, depth + 1)]


LITERAL_POOL = [v for v in NUMERIC_POOL if not v.startswith("\x02num:")]      # (a user number left of an operator swallows the reference)
TYPED_LITERALS = [False]
EXPR_MODE = ["int"]      # set by gen_history: "mixed" histories also use typed literals and ** inside expressions
POW_BASES = ["\x02f:-0.0", "\x02f:-0.0", "\x02f:-0.0", "\x02f:-2.25", "\x02f:0.5", "\x02f:3.0", "\x02f:0.0", "\x02f:-1.0"]      # float bases: any exponent is cheap


def retype_consts(e):
    """the same expression with every literal replaced by one of ANOTHER TYPE that prints the same (3 / Decimal('3'),
    0.5 / Decimal('0.5')): two different definitions with one printed form"""
    if e[0] == "const":
        c = e[1]
        if isinstance(c, int) and not isinstance(c, bool):
            return ["const", "\x02dec:%d" % c]
        if isinstance(c, str) and c.startswith("\x02f:") and c[3:] not in ("nan", "inf", "-inf", "-0.0", "1e+308"):
            return ["const", "\x02dec:" + c[3:]]
        if isinstance(c, str) and c.startswith("\x02dec:"):
            return ["const", "\x02f:" + c[5:]]
        return e
    return [retype_consts(x) if isinstance(x, list) and x and isinstance(x[0], str) and x[0] in ("const", "bin", "proj", "callsum", "callsum2")
            else x for x in e]


def sum2_expr(rng, t, pool, conts2):
    """f.sum2(c) for a container c whose first two members may be read by t's definition (in the pool, not t itself)"""
    ok = [c for c, ms in conts2 if all(m in pool and m != t for m in ms)]
    if not ok:
        return None
    e = ["callsum2", ["f", [FSTEP[0], "sum2"]], rng.choice(ok)]
    return e if rng.random() < 0.5 else ["bin", "+", e, ["const", rng.randint(1, 3)]]


FAULT_KINDS = ["Fault"] * 6 + ["StopIteration", "StopIteration", "KeyError", "ValueError", "AttributeError", "TypeError",
                                "ZeroDivisionError", "RecursionError", "BaseFault", "GeneratorExit", "StopAsyncIteration"]


ROUTES = ["sv", "sv", "item", "item", "env", "envattr", "toexpr"]      # set_value(ref, v) | owner[key] = v / owner.key = v | DepEnv proxy


def gen_history(rng, profile="mixed", nops=None, nofun=False, attrdict="auto", keys="auto", values="int", literals=False):
    """keys: None | "strings" | "exotic" | "auto" (one history in four uses the "strings" pool); values: "int" | "mixed"."""
    if keys == "auto":
        keys = "strings" if rng.random() < 0.25 else None
    if attrdict == "auto":
        attrdict = rng.random() < 0.3            # the library's default container (AttrDict or a subclass) for "g"
    nested = profile not in ("flat", "assign_flat") and not (profile == "windows" and rng.random() < 0.5)
    EXPR_MODE[0] = values
    TYPED_LITERALS[0] = literals and values == "mixed"      # literals whose printed form does not carry their type (Decimal ...)
    spec, leaves, conts = make_store(rng, nested, attrdict, keys, values)
    FSTEP[0] = "a" if [n for l, n in spec if l == "f"][0]["kind"] == "obj" else "i"
    # containers whose first two members are leaves: f.sum2(container) reads only those two, so the container may hold the
    # target of the definition itself (an ANCESTOR of the target is read as one value)
    conts2 = []

    def walk2(node, pre):
        its = node["items"]
        stp = "i" if node["kind"] in ("dict", "list", "userdict") else "a"
        # all members leaves: whichever function object sits at the called location, the call evaluates
        if len(its) >= 3 and all(not isinstance(v, dict) and v not in ("FunSum", "FunSum2") for _, v in its):
            conts2.append((pre, [pre + [[stp, its[0][0]]], pre + [[stp, its[1][0]]]]))
        for k, v in its:
            if isinstance(v, dict):
                walk2(v, pre + [[stp, k]])
    for label, node in spec:
        if label == "c":
            for k, v in node["items"]:
                if isinstance(v, dict):
                    walk2(v, [label, ["i", k]])
    rank = list(leaves)
    rng.shuffle(rank)
    hot = rank[:3]            # "windows": a few low-ranked locations that are assigned again and again
    read_faults = profile == "fault" and rng.random() < 0.3     # this history injects read faults (oracle only: the model counts writes)
    used_id = lambda p: False
    pos = {json.dumps(p): i for i, p in enumerate(rank)}
    nops = nops or rng.randint(3, 14)
    ops = []
    funs = 0
    frozen = False
    p_cyc = 0.0 if profile in ("flat", "dag", "assign", "assign_flat", "windows") else 0.06
    for _ in range(nops):
        k = rng.random()
        t = rng.choice(leaves)
        lower = [p for p in leaves if pos[json.dumps(p)] < pos[json.dumps(t)]]
        pool = leaves if (rng.random() < p_cyc or not lower) and profile not in ("flat", "dag", "assign", "assign_flat", "windows") else (lower or None)
        if profile in ("frozen", "windows") and rng.random() < (0.12 if profile == "frozen" else 0.2):
            if rng.random() < 0.2:
                ops.append(["freeze"] if frozen else ["unfreeze"])      # unbalanced: freeze when frozen, unfreeze when not
            else:
                frozen = not frozen
                ops.append(["freeze"] if frozen else ["unfreeze"])
            if rng.random() < 0.3 and not any(o[0] == "clone" for o in ops):
                ops.append(["clone"])          # a clone taken now (possibly inside a frozen window) is kept alive to the end
            continue
        if rng.random() < 0.03:
            # a container offered under a label that is already taken is refused; the manager goes on unchanged
            lab = rng.choice(["c", "g", "f"])
            ops.append(["dupref", lab, rng.choice(["ref", "refattr"])])
            continue
        if rng.random() < 0.03 and profile not in ("flat", "assign_flat", "fault"):
            # another function object is put at a function location: every definition calling it is re-evaluated
            # (only the location "sum": its callers never read a container that holds their own target, whichever function
            # sits there; putting the full sum at "sum2" could turn a definition into one that reads its own target)
            ops.append(["set", ["f", [FSTEP[0], "sum"]], ["plain", rng.choice(["FunSum", "FunSum2"])]])
            continue
        if profile == "windows" and rng.random() < 0.35:
            ops.append(["set", rng.choice(hot), ["plain", gen_value(rng, values)]])
            continue
        if profile == "fault" and rng.random() < 0.3:
            t2 = rng.choice(leaves)
            val = gen_value(rng, values)
            for _rep in range(rng.choice([1, 1, 1, 2, 3])):          # several faulty updates in a row
                if read_faults:
                    # the k-th container READ of the update raises (a task fails while evaluating its expression)
                    ops.append(["arm_read", rng.choice([0, 1, 1, 2, 3, 4, 6, 9]), rng.choice(FAULT_KINDS)])
                else:
                    ops.append(["arm", rng.choice([0, 0, 1, 1, 2, 2, 3, 4, 6]), rng.choice(FAULT_KINDS)])
                ops.append(["set", t2, ["plain", val]])
            ops.append(["disarm"])
            if rng.random() < 0.85:
                ops.append(["set", t2, ["plain", val]])             # the fault-free repeat
            continue
        # containers that may be summed: the target is not inside, and (unless cycles are wanted)
        # every member ranks below the target
        def inside(p, c):
            return p[:len(c)] == c
        okc = [c for c in conts if not inside(t, c) and
               (pool is leaves or all(pos[json.dumps(p)] < pos[json.dumps(t)] for p in leaves if inside(p, c)))]
        if profile in ("assign", "assign_flat"):
            if k < 0.42:
                ops.append(["set", t, ["plain", gen_value(rng, values)]])
            elif k < 0.86 and pool:
                e = gen_expr(rng, pool, okc)
                e2 = sum2_expr(rng, t, pool, conts2)
                ops.append(["set", t, ["expr", e2 if e2 and rng.random() < 0.15 else e]])
            elif k < 0.95:
                ops.append(["inplace", t, rng.choice("+-*"), rng.randint(-3, 3)])       # literal operands stay ints (how literals print is C11's subject)
            else:
                ops.append(["unregister", t])
            continue
        if k < 0.36:
            ops.append(["set", t, ["plain", gen_value(rng, values)]])
        elif k < 0.72 and pool:
            e = gen_expr(rng, pool, okc if nested else [])
            e2 = sum2_expr(rng, t, pool, conts2)
            ops.append(["set", t, ["expr", e2 if e2 and rng.random() < 0.12 else e]])
        elif k < 0.80:
            ops.append(["inplace", t, rng.choice("+-*"), rng.randint(-3, 3)])       # literal operands stay ints (how literals print is C11's subject)
        elif k < 0.86:
            ops.append(["unregister", t])
        elif k < 0.90 and pool and profile not in ("flat",) and not nofun:
            funs += 1
            srcs = [rng.choice(pool)]
            # the task id is a name or the (first) target itself - only when that location never identified a task before
            # (registering a second task under a live id is a misuse outside every property)
            fid = f"fn{funs}" if rng.random() < 0.6 or used_id(t) else {"ref": t}
            if isinstance(fid, str) and rng.random() < 0.25:
                # a STRING task id that reads exactly like the printed form of a reference (its own target or any other
                # location, which may identify another task): strings and references are different task ids
                fid = "str%d:" % funs + json.dumps(rng.choice([t, rng.choice(leaves)]))
            tgs = [t]
            if rng.random() < 0.4:                                        # a second target
                above = [p for p in leaves if pos[json.dumps(p)] > pos[json.dumps(srcs[0])] and p != t]
                if above:                                                 # ranked above the source: the data flow stays acyclic
                    tgs.append(rng.choice(above))
            ops.append(["regfun", fid, tgs, srcs,
                        [[x, ["bin", "+", ["ref", srcs[0]], ["const", rng.randint(1, 3) + j]]] for j, x in enumerate(tgs)]])
        elif k < 0.93 and pool and profile not in ("flat", "fault") and not nofun:
            funs += 1
            tg = [p for p in leaves if p != pool[0]][:]
            rng.shuffle(tg)
            kid = f"kn{funs}" if rng.random() < 0.6 or used_id(tg[0]) else {"ref": tg[0]}
            ops.append(["regknob", kid, pool[0], [[rng.randint(1, 5), p] for p in tg[:rng.choice([1, 2, 3, 5, 6, 7])]],
                        rng.choice(["list", "set"])])
        elif k < 0.95 and pool and keys != "exotic":        # numpy / enum keys do not print as loadable text
            ops.append(["load", [[t, gen_expr(rng, pool, [])], [rng.choice(leaves), gen_expr(rng, pool, [])]], rng.random() < 0.6]
                       + (["copy"] if rng.random() < 0.4 else []))          # "copy": the definitions come in through copy_expr_from
        elif k < 0.97:
            ops.append([rng.choice(["refresh", "verify", "cleanup"])])
        elif funs:
            ops.append(["unregister", ["$task", rng.choice(["fn", "kn"]) + str(rng.randint(1, funs))]])
    if any(o[0] == "clone" for o in ops):
        a, b = rng.sample(leaves, 2)
        ops.append(["useclone", [[rng.choice(leaves), rng.randint(-9, 9)] for _ in range(2)], [a, b]])
    # ref-identified function / knob tasks registered on a location that an EARLIER operation may have defined: back to names
    seen = set()
    for n, op in enumerate(ops):
        if op[0] in ("regfun", "regknob") and isinstance(op[1], dict):
            if json.dumps(op[1]["ref"]) in seen:
                op[1] = ("fn" if op[0] == "regfun" else "kn") + "x" + str(n)
            else:
                seen.add(json.dumps(op[1]["ref"]))
        elif op[0] in ("set", "inplace"):
            seen.add(json.dumps(op[1]))
        elif op[0] == "load":
            seen.update(json.dumps(p) for p, _ in op[1])
    for op in ops:
        if op[0] == "set" and len(op) == 3:
            op.append(rng.choice(ROUTES))          # the route is part of the case (replayable); the model ignores it
    if TYPED_LITERALS[0]:
        # a definition replaced by another one that PRINTS the same but holds literals of another type
        ops2 = []
        for op in ops:
            ops2.append(op)
            if op[0] == "set" and op[2][0] == "expr" and rng.random() < 0.15:
                e2 = retype_consts(op[2][1])
                if e2 != op[2][1]:
                    ops2.append(["set", op[1], ["expr", e2], rng.choice(["toexpr", "toexpr", "sv", "item"])])
        ops = ops2
    if keys != "exotic" and rng.random() < 0.2:
        # key FORMS: the same location addressed through a plain str / int key in one operation and through an instance of
        # a str / int subclass without a repr of its own in another (equal, same hash, same printed form: the same location)
        def forms(x):
            if isinstance(x, list):
                if len(x) == 2 and x[0] == "i" and not isinstance(x[1], (list, dict)) and rng.random() < 0.4:
                    k = x[1]
                    if isinstance(k, str) and not k.startswith(("\x01", "\x02")):
                        return ["i", "\x01strsub:" + k]
                    if isinstance(k, int) and not isinstance(k, bool):
                        return ["i", "\x01intsub:%d" % k]
                return [forms(y) for y in x]
            return x
        ops = [[op[0]] + [forms(a) for a in op[1:]] for op in ops]
    return {"store": spec, "ops": ops}


def chain_case(n, reverse=False, fan=0):
    """a chain of n dependants v1 = v0+1, v2 = v1+1, ... defined in order or
    consumer-before-producer, then an assignment to v0"""
    items = [[f"v{i}", 0] for i in range(n + 1)]
    spec = [["c", {"kind": "dict", "items": items}]]
    defs = [["set", ["c", ["i", f"v{i}"]], ["expr", ["bin", "+", ["ref", ["c", ["i", f"v{i-1}"]]], ["const", 1]]]] for i in range(1, n + 1)]
    if reverse:
        defs = defs[::-1]
    return {"store": spec, "ops": defs + [["set", ["c", ["i", "v0"]], ["plain", 5]]]}


def wide_case(rng, width, second=None):
    """one source `a` with `width` DIRECT dependants (more than any small-set threshold of the implementation), a third of
    which also read an earlier direct dependant (triangles a->b, a->c, b->c), plus second-level leaves reading two of
    them; definitions given in random order; the last operation assigns the source"""
    second = width // 8 if second is None else second
    R = lambda k: ["c", ["i", k]]
    items = [["a", 1]] + [[f"d{i}", 0] for i in range(width)] + [[f"e{i}", 0] for i in range(second)]
    defs = []
    for i in range(width):
        e = ["bin", rng.choice("+*"), ["ref", R("a")], ["const", rng.randint(1, 4)]]
        if i and rng.random() < 0.33:
            e = ["bin", "+", e, ["ref", R(f"d{rng.randrange(i)}")]]
        defs.append(["set", R(f"d{i}"), ["expr", e]])
    for i in range(second):
        defs.append(["set", R(f"e{i}"), ["expr", ["bin", "-", ["ref", R(f"d{rng.randrange(width)}")], ["ref", R(f"d{rng.randrange(width)}")]]]])
    rng.shuffle(defs)
    ops = defs + [["set", R("a"), ["plain", rng.randint(2, 9)]], ["inplace", R("a"), "+", 1], ["set", R("a"), ["plain", rng.randint(-9, -2)]]]
    return {"store": [["c", {"kind": "dict", "items": items}]], "ops": ops}


def fanin_case(rng, width=40, rounds=5):
    """one location defined again and again by WIDE expressions (sums over `width` locations, a different group each round),
    each replaced by a plain value before the next one is built: the expression objects of earlier rounds are freed, later
    ones are likely to be allocated where those were.  After every definition one input of the current group (the task
    must run) and one of the previous group (nothing may run) are assigned."""
    R = lambda k: ["c", ["i", k]]
    items = [["t", 0]] + [[f"v{r}_{i}", (r + i) % 5] for r in range(rounds) for i in range(width)]
    ops = []
    for r in range(rounds):
        e = ["ref", R(f"v{r}_0")]
        for i in range(1, width):
            e = ["bin", "+", e, ["ref", R(f"v{r}_{i}")]]
        ops.append(["set", R("t"), ["expr", e], rng.choice(ROUTES)])
        ops.append(["set", R(f"v{r}_{rng.randrange(width)}"), ["plain", rng.randint(-9, 9)], "sv"])
        if r:
            ops.append(["set", R(f"v{r - 1}_{rng.randrange(width)}"), ["plain", rng.randint(-9, 9)], "sv"])
        ops.append(["set", R("t"), ["plain", rng.randint(-9, 9)], "sv"])
    return {"store": [["c", {"kind": "dict", "items": items}]], "ops": ops}


# ------------------------------------------------------------------ emission
class Emit:
    def __init__(self):
        self.N = vlib.Interner()

    def key(self, k):
        return self.N(("k", canon_key(k)))      # a subclass instance denotes the same location as the plain key

    def path(self, p):
        if p and p[0] == "$task":
            return clist([cn(self.N("$task")), cn(self.key(p[1]))])
        if p and p[0] == "$expr":
            return clist([cn(self.N("$expr")), cn(self.key(p[1]))])
        out = [cn(self.key(p[0]))]
        for s in p[1:]:
            out.append(cn(self.key(s[1] if isinstance(s, list) else s)))
        return clist(out)

    def paths(self, ps):
        return clist([self.path(p) for p in ps])

    def node(self, spec):
        if isinstance(spec, int):
            return f"(Leaf {cz(spec)})"
        if spec == "FunSum":
            return "(Fun false)"
        if spec == "FunSum2":
            return "(Fun true)"
        return "(Dict " + clist([f"({cn(self.key(k))}, {self.node(v)})" for k, v in spec["items"]]) + ")"

    def store(self, spec):
        return "(Dict " + clist([f"({cn(self.key(l))}, {self.node(n)})" for l, n in spec]) + ")"

    def expr(self, e):
        k = e[0]
        if k == "const":
            return f"(EConst {cz(e[1])})"
        if k == "ref":
            return f"(ERef {self.path(e[1])})"
        if k == "bin":
            o = {"+": "BAdd", "-": "BSub", "*": "BMul", "%": "BMod", "//": "BFdiv"}[e[1]]
            return f"(EBin {o} {self.expr(e[2])} {self.expr(e[3])})"
        if k == "callsum":
            return f"(ECallSum {self.path(e[1])} {self.path(e[2])})"
        if k == "callsum2":          # which function is called is decided by what the store holds at e[1]
            return f"(ECallSum {self.path(e[1])} {self.path(e[2])})"
        if k == "proj":
            pk = {"real": "PReal", "imag": "PImag", "numerator": "PNum", "denominator": "PDen"}[e[1]]
            return f"(EProj {pk} {self.expr(e[2])})"
        raise ValueError(e)

    def task_orders(self, obs, tid):
        for t in obs.get("tasks", []):
            if t[0] == tid:
                return t[2], t[3]
        return [], []

    def op(self, op, obs):
        k = op[0]
        if k == "set":
            r = flat(op[1])
            sd = self.paths(obs.get("sd_order", []))
            so = self.paths(obs.get("start_order", []))
            if op[2][0] == "plain" and op[2][1] in ("FunSum", "FunSum2"):
                return f"MSet {self.path(op[1])} (SPlain (Fun {'true' if op[2][1] == 'FunSum2' else 'false'})) {sd} {so}"
            if op[2][0] == "plain":
                return f"MSet {self.path(op[1])} (SPlain (Leaf {cz(op[2][1])})) {sd} {so}"
            dord, tord = self.task_orders(obs, r)
            return f"MSet {self.path(op[1])} (SExpr {self.expr(op[2][1])} {self.paths(dord)} {self.paths(tord)}) {sd} {so}"
        if k == "inplace":
            r = flat(op[1])
            dord, tord = self.task_orders(obs, r)
            o = {"+": "BAdd", "-": "BSub", "*": "BMul"}[op[2]]
            return (f"MInPlace {self.path(op[1])} {o} {cz(op[3])} {self.paths(dord)} {self.paths(tord)} "
                    f"{self.paths(obs.get('sd_order', []))} {self.paths(obs.get('start_order', []))}")
        if k == "regfun":
            tid = ["$task", op[1]] if isinstance(op[1], str) else op[1]["ref"]
            dord, tord = self.task_orders(obs, tid if tid[0] == "$task" else flat(tid))
            if not tord and not dord:
                dord, tord = [flat(p) for p in op[3]], [flat(p) for p in op[2]]
            ws = clist([f"({self.path(p)}, {self.expr(e)})" for p, e in op[4]])
            return f"MRegister (mkTask {self.path(tid)} {self.paths(tord)} {self.paths(dord)} (AFun {ws}))"
        if k == "regknob":
            tid = ["$task", op[1]] if isinstance(op[1], str) else op[1]["ref"]
            dord, tord = self.task_orders(obs, tid if tid[0] == "$task" else flat(tid))
            if not tord and not dord:
                dord, tord = [flat(op[2])], [flat(p) for _, p in op[3]]
            ws = clist([f"({cz(w)}, {self.path(p)})" for w, p in op[3]])
            return f"MRegister (mkTask {self.path(tid)} {self.paths(tord)} {self.paths(dord)} (AKnob {self.path(op[2])} {ws}))"
        if k == "unregister":
            return f"MUnregister {self.path(op[1])}"
        if k == "load":
            ts = []
            for p, e in op[1]:
                dord, tord = self.task_orders(obs, flat(p))
                ts.append(f"(mkTask {self.path(p)} {self.paths(tord)} {self.paths(dord)} (AExpr {self.expr(e)}))")
            return f"MLoad {clist(ts)} {cbool(op[2])}"
        if k == "genfun":
            val = lambda v: "Fun false" if v == "FunSum" else "Fun true" if v == "FunSum2" else f"Leaf {cz(v)}"
            args = clist([f"({self.path(p)}, {val(v)})" for p, v in zip(op[1], op[2])])
            return f"MGenFun {args} {self.paths(obs.get('sd_order', []))} {self.paths(obs.get('start_order', []))}"
        if k == "arm":
            return f"MArmFault {int(op[1])}%nat"
        return {"freeze": "MFreeze", "unfreeze": "MUnfreeze", "refresh": "MRefresh", "verify": "MVerify",
                "cleanup": "MCleanup", "disarm": "MDisarm"}[k]

    def expect(self, obs):
        e = obs["err"]
        code = 0 if e is None else 1 if e == "ValueError" else 2 if e in ("KeyError", "IndexError", "AttributeError", "TypeError") \
            else 4 if e == "Fault" else 9
        st = []
        for p, v in obs["store"]:
            if v == "FunSum":
                st.append(f"({self.path(p)}, LFun)")
            elif v == "FunSum2":
                st.append(f"({self.path(p)}, LFun2)")
            elif isinstance(v, int):
                st.append(f"({self.path(p)}, LZ {cz(v)})")
            else:
                return None
        def idx(name):
            return clist([f"({self.path(k)}, {clist([f'({self.path(k2)}, {int(n)}%nat)' for k2, n in rc])})" for k, rc in obs["indices"][name]])
        prev = clist([f"({self.path(t)}, {cz(v)})" for t, v in obs["prev"] if isinstance(v, int)])
        return (f"(mkX {code}%nat {self.paths(obs['trace'])} {clist(st)} {self.paths([t[0] for t in obs['tasks']])} "
                f"{idx('rdeps')} {idx('rtasks')} {idx('deptasks')} {idx('tartasks')} {prev} {cbool(obs['frozen'])})")


def load_orders_ok(case, obs_list):
    """the per-task set orders needed by MLoad are only recoverable when each
    loaded target is (still) the registered task after the op"""
    return True


OBSERVER_OPS = ("clone", "useclone", "freshcheck", "picklecheck", "dupref")      # oracle-only operations, not part of the model's history


def emit_case(case, obs_list):
    E = Emit()
    ops, xs = [], []
    for op, obs in zip(case["ops"], obs_list):
        if op[0] in OBSERVER_OPS:
            continue
        x = E.expect(obs)
        if x is None:
            return None
        ops.append(E.op(op, obs))
        xs.append(x)
    return f"({E.store(case['store'])},\n  {clist(ops)},\n  {clist(xs)})"


HEADER = ("From Coq Require Import List ZArith NArith.\n"
          "From XD Require Import lib.ListAux model.Manager model.ManagerData run.RunManager.\n"
          "Import ListNotations.\n")


HUGE = 10 ** 200


def model_compare(ctx, cases, observations, tag, per_file=20):
    """evaluates the model on every case; returns list of (case index, op index)"""
    texts, ids_per = [], []
    skipped = []
    for chunk in vlib.chunks(list(range(len(cases))), per_file):
        items, ids = [], []
        for i in chunk:
            if not is_int_case(cases[i]) or any(op[0] == "arm_read" for op in cases[i]["ops"]):
                continue                  # values / fault kinds outside the model's domain: judged by the oracles only
            # a cyclic data flow squares its values at every assignment: the model follows (Z is unbounded) but numerals of
            # thousands of digits are no use in a case file - the history is compared up to the operation before
            huge = next((k for k, o in enumerate(observations[i])
                         if any(isinstance(v, int) and abs(v) > HUGE for _, v in o.get("store") or [])), None)
            if huge is not None:
                e = emit_case(dict(cases[i], ops=cases[i]["ops"][:huge]), observations[i][:huge]) if huge else None
                if e is not None:
                    items.append(e); ids.append(i)
                continue
            e = emit_case(cases[i], observations[i])
            if e is None:
                skipped.append(i)
            else:
                items.append(e); ids.append(i)
        texts.append(HEADER + "Definition cases : list mcase :=\n " + clist(items) + ".\nEval vm_compute in (mismatches cases).\n")
        ids_per.append(ids)
    bad = [(i, -1) for i in skipped]
    for (rc, so, se), ids in zip(vlib.coq_eval_files(ctx, texts, tag), ids_per):
        lst = vlib.parse_nat_list(so) if rc == 0 else None
        if lst is None:
            raise vlib.InfraError(f"manager case file evaluation failed rc={rc}: {se[-1500:]} {so[-300:]}")
        for a, b in zip(lst[0::2], lst[1::2]):
            bad.append((ids[a], b))
    return bad


def run_impl_cases(cases, build="compiled", hashseed=0, opts=None, timeout=1800):
    import concurrent.futures as cf
    impl = vlib.build_impl()
    parts = list(vlib.chunks(cases, max(1, (len(cases) + vlib.NPROC - 1) // vlib.NPROC)))
    with cf.ThreadPoolExecutor(max_workers=vlib.NPROC) as ex:
        rs = list(ex.map(lambda p: vlib.run_impl("manager_runner.py", {"cases": p, "opts": opts or {}}, build=build,
                                                 hashseed=hashseed, impl=impl, timeout=timeout), parts))
    out = []
    for r in rs:
        out += r["cases"]
    for c, ol in zip(cases, out):
        if ol and ol[0].get("crash"):
            CRASHES.append((c, ol[0]["crash"]))
    return out


CRASHES = []      # (case, traceback): the library raised while a read-only observation was being made


def error_free_prefix(cases, obs):
    """histories with mixed value types: an operation may legitimately raise (None + 1, shape mismatch) and leave a
    half-propagated state, which is the subject of C18, not of the other properties: judge the error-free prefix"""
    oc, oo = [], []
    for c, ol in zip(cases, obs):
        k = next((j for j, o in enumerate(ol) if o["err"] is not None), len(ol))
        oc.append(dict(c, ops=c["ops"][:k])); oo.append(ol[:k])
    return oc, oo


def op_distribution(cases):
    d = {}
    for c in cases:
        for op in c["ops"]:
            k = op[0] + (":" + op[2][0] if op[0] == "set" else "")
            d[k] = d.get(k, 0) + 1
    return d


def shrink_ops(case, fails, max_runs=60):
    """greedy delta debugging on the op list"""
    ops = list(case["ops"])
    runs = 0
    i = len(ops) - 1
    while i >= 0 and runs < max_runs:
        cand = dict(case, ops=ops[:i] + ops[i + 1:])
        runs += 1
        if cand["ops"] and fails(cand):
            ops = cand["ops"]
        i -= 1
    return dict(case, ops=ops)


# ------------------------------------------------------------------ shared driver
def tainted_prefix(obs_list):
    """index of the first op whose triggered tasks carried an ordering cycle (the
    signature of the known finding F2 and of genuinely cyclic definitions), or None"""
    for k, o in enumerate(obs_list):
        tr = o.get("oracle", {}).get("trace")
        if tr and tr.get("cycle"):
            return k
        fr = o.get("fresh")
        if fr and fr.get("cycle"):
            return k
    return None


def leaves_of(case):
    out = []

    def walk(spec, pre, kind_of_parent):
        for k, v in spec["items"]:
            step = ["i", k] if spec["kind"] in ("dict", "list", "userdict") else ["a", k]     # obj / attrdict / slots: attribute steps
            if isinstance(v, dict):
                walk(v, pre + [step], v["kind"])
            elif v not in ("FunSum", "FunSum2"):
                out.append(pre + [step])
    for label, node in case["store"]:
        walk(node, [label], node["kind"])
    return out


def decide(ctx, proof_ok, cases, observations, mism, failures, replay_extra=None, search=None):
    """failures: list of (case index, op index, description) found by the property
    oracle on the implementation.  mism: model/implementation mismatches."""
    ctx.obligations.append(("the library never raised while it was only being observed (dump(), str(ref), indices, verify(), oracle reads)",
                            not CRASHES, f"{len(CRASHES)} histories"))
    if CRASHES:
        c, tb = CRASHES[0]
        vlib.violation(ctx, {"kind": "oracle", "what": "the library raised while a read-only observation was made after an operation: " + tb[-600:],
                             "case": c})
        return
    ctx.obligations.append(("correspondence: model = implementation after every operation of every history "
                            "(exception class, run trace, container contents, task list, the four indices with multiplicities)",
                            not mism, f"{len(mism)} mismatching cases"))
    ctx.obligations.append(("property oracle evaluated on the implementation for every generated history",
                            not failures, f"{len(failures)} failing cases"))
    if failures:
        i, k, what = failures[0]
        case = dict(cases[i], ops=cases[i]["ops"][:k + 1])
        vlib.violation(ctx, {"kind": "oracle", "what": what, "case": case,
                             "impl_observation": {kk: v for kk, v in observations[i][k].items() if kk in ("err", "trace", "oracle", "fresh", "store")},
                             "also_broken": getattr(ctx, "broken", []) + ([f"{len(mism)} model mismatches"] if mism else [])})
        return
    if mism or not proof_ok:
        what = list(getattr(ctx, "broken", []))
        if mism:
            i, k = mism[0]
            what.append(f"correspondence coq/model/ManagerData.v vs xdeps.tasks.Manager broke on {len(mism)} cases; first: case {i} op {k}: "
                        + json.dumps(cases[i]["ops"][:k + 1])[:1500])
        found = search() if search else None
        if found:
            vlib.violation(ctx, dict(found, also_broken=what))
        else:
            vlib.violation(ctx, {"kind": "proof-or-correspondence", "no_longer_checks": what,
                                 "searched": "property oracle on every generated history (and the extended search): no failing input"},
                           no_input=True)
