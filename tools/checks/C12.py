"""C12 — a pickled manager restores to an independent, behaviourally identical copy.

Proof part : coq/props/C12.v — table obligation C12_sig_ok against the regenerated
             tables (each __reduce__ tuple = the __cinit__ parameters, in order, all
             attributes present), C12_rebuild_reduce (node and deep), the manager's
             task list survives.
Tie        : gen_refs.py + correspondence: __reduce__() of every node of every
             task of real managers = model reduce; model rebuild/roundtrip give the
             node back.
Oracle     : the property itself — pickle.loads(pickle.dumps(manager)) for managers
             built from every node class; same dump(), verify() passes, same
             container contents; a follow-up assignment history applied to the
             original leaves the copy untouched and vice versa, and both end in
             identical contents.  Both builds.
Validated, not proved: that pickle copies the containers and that the two object
graphs share nothing (heap aliasing is outside a pure model).
"""
import json
import vlib
from checks import refs_shared as rs
from checks.refs_shared import gen_pexp, gen_state, cterm, cstr, Unrep, I, Sx, val, TOP

RUNNER = "refs_runner.py"
TARGETS = [["c", ["i", Sx(f"t{k}")]] for k in range(5)] + [["o", ["a", "r0"]], ["o", ["a", "r1"]], ["g", ["i", Sx("w")]]]


def target_pexp(t):
    if t[0] == "c":
        return ["item", TOP["c"], ["val", t[1][1]]]
    if t[0] == "g":
        return ["attr", TOP["g"], t[1][1][1]]
    return ["attr", TOP["o"], t[1][1]]


def c12_state(rng):
    st = gen_state(rng, safe=True)
    c = st[0][1][1]
    for k in range(5):
        c.append([Sx(f"t{k}"), I(0)])
    c.append([Sx("A"), ["arr", "int64", [2, 2], [I(1), I(2), I(3), I(4)]]])
    c.append([Sx("B"), ["arr", "int64", [2], [I(rng.choice([1, 2, 5])), I(-1)]]])
    st[1][1][1].append(["r0", I(0)]); st[1][1][1].append(["r1", I(0)])
    st[2][1][1].append([Sx("w"), I(0)])
    return st


def int_leaf(rng):
    c = TOP["c"]
    return rng.choice([["item", c, ["val", Sx(rng.choice("abcde"))]], ["attr", TOP["o"], rng.choice("xy")],
                       ["item", ["item", c, ["val", Sx("l")]], val(rng.choice([0, 1, 2]))], ["attr", TOP["g"], rng.choice("uv")]])


def exotic(rng):
    """node classes whose operators are partial: applied to integer leaves only"""
    c = TOP["c"]
    k = rng.choice(["bit", "bit", "shift", "pow", "truediv", "matmul", "eq", "invert", "lexpr", "divmod", "roundn"])
    if k == "bit":
        return ["bin", rng.choice(["OAnd", "OOr", "OXor"]), int_leaf(rng), rng.choice([int_leaf(rng), val(rng.choice([1, 3, 6]))])]
    if k == "shift":
        return ["bin", rng.choice(["ORshift", "OLshift"]), int_leaf(rng), val(rng.choice([0, 1, 2]))]
    if k == "pow":
        return ["bin", "OPow", int_leaf(rng), val(rng.choice([0, 2, 3]))]
    if k == "truediv":
        return ["bin", "OTruediv", int_leaf(rng), rng.choice([val(rng.choice([2, 4, -8])), int_leaf(rng)])]
    if k == "matmul":
        return ["bin", "OMatmul", ["item", c, ["val", Sx("A")]], ["item", c, ["val", Sx("B")]]]
    if k == "eq":
        return ["bin", rng.choice(["OEq", "ONe"]), int_leaf(rng), rng.choice([int_leaf(rng), val(3)])]
    if k == "invert":
        return ["un", "UInvert", int_leaf(rng)]
    if k == "lexpr":
        return ["bin", rng.choice(["OAdd", "OMul"]), ["lexpr", I(rng.choice([2, 3, -1]))], int_leaf(rng)]
    if k == "divmod":
        return ["builtin", "FDivmod", int_leaf(rng), [rng.choice([val(rng.choice([2, 3, -4])), int_leaf(rng)])]]
    return ["builtin", "FRound", int_leaf(rng), [rng.choice([val(1), ["item", c, ["val", Sx("i")]]])]]


def gen_expr(rng, defined):
    if rng.random() < 0.35:
        e = exotic(rng)
        if e[0] == "builtin" and e[1] == "FDivmod":
            return e                      # a tuple: only at the root
    else:
        e = gen_pexp(rng, rng.choice([1, 2, 3, 4]), safe=True, const_keys=rng.random() < 0.5)
        if e[0] == "val":
            e = ["un", "UPos", int_leaf(rng)]
    if defined and rng.random() < 0.4:
        prev = rng.choice(defined)
        if e[0] == "bin" and e[1] in ("OMatmul",):
            return e
        e = ["bin", rng.choice(["OAdd", "OSub", "OMul"]), e, target_pexp(prev)]
    return e


def gen_case(rng):
    st = c12_state(rng)
    order = rng.sample(TARGETS, rng.choice([1, 2, 3, 4, 5]))
    history, defined = [], []
    numeric = []                          # targets holding a number (not a tuple/array)
    for t in order:
        e = gen_expr(rng, numeric)
        history.append({"kind": "expr", "target": t, "pexp": e})
        defined.append(t)
        if not (e[0] == "builtin" and e[1] == "FDivmod") and not (e[0] == "bin" and e[1] == "OMatmul"):
            numeric.append(t)
    follow = []
    free = [t for t in TARGETS if t not in defined]
    for _ in range(rng.choice([2, 3, 4, 6, 8])):
        k = rng.random()
        if k < 0.4:
            src = rng.choice([["c", ["i", Sx(rng.choice("abcde"))]], ["o", ["a", rng.choice("xy")]],
                              ["c", ["i", Sx("l")], ["i", I(rng.choice([0, 1, 2]))]], ["g", ["i", Sx(rng.choice("uv"))]],
                              ["o", ["a", "p"], ["a", "x"]], ["c", ["i", Sx("n")], ["i", Sx(rng.choice("xy"))]]])
            follow.append({"kind": "value", "target": src, "value": I(rng.choice([0, 1, 2, -5, 6, 11]))})
        elif k < 0.55 and free:
            t = free.pop(rng.randrange(len(free)))
            follow.append({"kind": "expr", "target": t, "pexp": gen_expr(rng, numeric)})
            numeric.append(t)
        elif k < 0.7 and numeric:
            t = rng.choice(numeric)
            follow.append({"kind": "inplace", "target": t, "op": rng.choice(["OAdd", "OSub", "OMul"]),
                           "pexp": rng.choice([val(rng.choice([2, 3, -1])), int_leaf(rng)])})
        elif k < 0.8:
            src = rng.choice([["c", ["i", Sx(rng.choice("abcde"))]], ["o", ["a", rng.choice("xy")]]])
            follow.append({"kind": "inplace", "target": src, "op": rng.choice(["OAdd", "OMul", "OFloordiv", "OAnd", "OOr"]),
                           "pexp": val(rng.choice([2, 3, 5]))})
        elif defined:
            follow.append({"kind": "value", "target": rng.choice(defined), "value": I(rng.choice([4, -9]))})
    return {"state": st, "objattr": rs.OBJATTR, "history": history, "followup": follow}


def cfval(a):
    k = a[0]
    if k == "mgr":
        return "FVmgr"
    if k == "one":
        return f"(FV1 {cterm(a[1])})"
    if k == "list":
        return "(FVlist " + vlib.clist([cterm(x) for x in a[1]]) + ")"
    if k == "kw":
        return "(FVkw " + vlib.clist([f"({cstr(n)}, {cterm(x)})" for n, x in a[1]]) + ")"
    if k == "cont":
        return f"(FVcont {cstr(a[1])} {vlib.cbool(a[2])})"
    if k == "op":
        return f"(FVop {vlib.cn(a[1])})"
    raise Unrep(k)


def case_fails(case, ids, build):
    classes, fns = ids
    r = vlib.run_impl(RUNNER, {"mode": "c12", "classes": classes, "fns": fns, "cases": [case]}, build=build)["results"][0]
    return r.get("oracle") is not None, r


def shrink(case, ids, build):
    cur = case
    for key in ("followup", "history"):
        i = 0
        while i < len(cur[key]):
            cand = dict(cur); cand[key] = cur[key][:i] + cur[key][i + 1:]
            try:
                bad, r = case_fails(cand, ids, build)
                bad = bad and "setup_error" not in r
            except vlib.InfraError:
                bad = False
            if bad and (key != "history" or cand[key]):
                cur = cand
            else:
                i += 1
    return cur


def run_cases(cases, ids):
    classes, fns = ids
    parts = list(vlib.chunks(cases, max(1, (len(cases) + 15) // 16)))
    both = rs.run_both([{"mode": "c12", "classes": classes, "fns": fns, "cases": p} for p in parts])
    res = {b: [r for part in both[b] for r in part["results"]] for b in both}
    unknown = sorted({u for b in both for part in both[b] for u in part["unknown"]})
    return res, unknown


def run(ctx):
    ctx.rule = ("managers over a dict, an attribute object and an ObjectAttrRef container (ints, nested dict/list/object, numpy arrays, "
                "functions), 1..5 expression definitions using every node class (all binary/unary classes, LiteralExpr, builtins with and "
                "without parameters, calls with positional and keyword arguments, nested item/attribute refs, computed keys, definitions "
                "reading earlier targets), then 2..8 follow-up assignments (plain values to sources and targets, new definitions, in-place "
                "operators on sources and on defined targets); compared: __reduce__() of every node vs model reduce (class, tuple), model "
                "rebuild/roundtrip; oracle: pickle round trip, dump(), verify(), contents, mirrored follow-up with independence checks; "
                "non-trivial = a case with >= 2 tasks whose follow-up changed a defined target; distinct by (definitions, follow-up)")
    proof_ok = vlib.standard_proof_part(ctx, "props/C12.v", allowed_axioms=(), extra_targets=["run/RunRefs.vo"], translators=["refs"])
    classes, fns, iderr = rs.ids()
    ids = (classes, fns)
    if iderr:
        ctx.notes.append("translator could not read refs.py: " + iderr)
    info = vlib.run_impl(RUNNER, {"mode": "info"})
    conc = sorted(n for n in info["subclasses"] if n not in rs.ABSTRACT)
    cases = [gen_case(ctx.rng) for _ in range(ctx.pick(400, 15000))]
    res, unknown = run_cases(cases, ids)
    unknown = sorted(set(unknown) | {n for n in conc if n not in classes})

    oracle_fail, build_diff, setup_err = [], [], 0
    seen_cls = set()
    reduces = {}
    cerrs = rs.case_errors(res)
    for i, c in enumerate(cases):
        a, p = res["compiled"][i], res["pure"][i]
        if rs.has_error(res, i):
            continue
        if "setup_error" in a or "setup_error" in p:
            setup_err += 1
            if ("setup_error" in a) != ("setup_error" in p):
                build_diff.append(i)
            continue
        for b in ("compiled", "pure"):
            if res[b][i].get("oracle"):
                oracle_fail.append((i, b))
        if a.get("final") != p.get("final") or a["reduces"] != p["reduces"]:
            build_diff.append(i)
        seen_cls.update(a["classes"])
        for r in a["reduces"]:
            reduces.setdefault(json.dumps(r, sort_keys=True), r)
        if a.get("ntasks", 0) >= 2 and a.get("final") is not None:
            ctx.nontrivial.add(json.dumps([c["history"], c["followup"]]))
    missing_cls = [n for n in conc if n not in seen_cls]

    items, unrep = [], []
    rl = list(reduces.values())
    for r in rl:
        try:
            if "error" in r:
                raise Unrep("reduce raised")
            items.append(f"({cterm(r['term'])}, {vlib.cn(r['cls'])}, {vlib.clist([cfval(a) for a in r['args']])})")
        except Unrep:
            unrep.append(r)
    mism = []
    coq_ok = iderr is None
    if coq_ok and items:
        try:
            mm, _ = rs.eval_chunks(ctx, items, "c12case", "c12_mismatches", "p", per=250)
            mism = [json.loads(list(reduces.keys())[0]) for _ in []]   # placeholder list type
            good = [r for r in rl if r not in unrep]
            mism = [good[k] for k in mm] + unrep
        except vlib.InfraError as e:
            if proof_ok:
                raise
            coq_ok = False
            ctx.notes.append("case files not evaluated (development does not build): " + str(e)[:300])
    elif unrep:
        mism = unrep
    ctx.evaluations += 2 * sum(len(c["history"]) + len(c["followup"]) for c in cases)
    ctx.traces += 2 * len(cases)
    ctx.cov["input_distribution"] = {"managers": len(cases), "setup_errors_skipped": setup_err,
                                     "tasks_hist": {str(k): sum(1 for r in res["compiled"] if r.get("ntasks") == k) for k in range(0, 7)},
                                     "followup_len_hist": {str(k): sum(1 for c in cases if len(c["followup"]) == k) for k in range(0, 9)},
                                     "followup_kinds": {k: sum(1 for c in cases for f in c["followup"] if f["kind"] == k) for k in ("value", "expr", "inplace")},
                                     "classes_discovered": conc, "classes_in_pickled_managers": len(seen_cls & set(conc)),
                                     "distinct_nodes_reduced": len(rl)}
    ctx.samples = [{"history": cases[0]["history"], "followup": cases[0]["followup"], "final": res["compiled"][0].get("final")}]
    ctx.obligations.append(("correspondence: __reduce__() of every node = model reduce; rebuild/roundtrip return the node (both builds agree)",
                            coq_ok and not mism and not build_diff, f"{len(mism)} mismatching nodes of {len(rl)}, {len(build_diff)} cases differing between builds"))
    ctx.obligations.append(("oracle: pickle round trip, dump(), verify(), contents, mirrored follow-up, independence (both builds)", not oracle_fail, f"{len(oracle_fail)} failing of {len(cases)}"))
    ctx.obligations.append(("coverage: every node class found by introspection occurs in a pickled manager and is known to the translator",
                            not unknown and not missing_cls, f"unknown={unknown} not exercised={missing_cls}"))
    ctx.obligations.append(("no case ended by an exception of the library outside the steps whose exceptions are outcomes", not cerrs,
                            "" if not cerrs else f"{len(cerrs)} cases, first: {cerrs[0][2]}"))

    # second stream: managers with NESTED targets (index multiplicities > 1), pickled after a history
    import mgr_common as mc
    ncases = []
    for i in range(ctx.pick(120, 2500)):
        # function and linear-knob tasks (name- and ref-identified) in a third of the managers
        c = mc.gen_history(ctx.rng, ["assign", "mixed", "dag", "frozen", "windows", "mixed"][i % 6], nofun=(i % 6 != 5), attrdict=(i % 2 == 0),
                           values="mixed" if i % 3 == 2 else "int")
        for op in c["ops"]:
            # a LinearKnob pairs weights with targets by position; when the targets are given as a SET the pairing follows the
            # set's iteration order, which a pickle round trip need not preserve (observed on the unchanged tree, seed 3):
            # outside C12's quantifier (managers reachable by assignment histories), so the pickled knobs get list targets
            if op[0] == "regknob" and len(op) > 4:
                op[4] = "list"
        lv = mc.leaves_of(c)
        if ctx.rng.random() < 0.3:          # the state at the moment of pickling: an update that failed half-way (stale dependants,
            t = ctx.rng.choice(lv)          # a LinearKnob whose remembered source value lags behind)
            c["ops"] += [["arm", ctx.rng.choice([0, 1, 1, 2]), "Fault"], ["set", t, ["plain", ctx.rng.randint(-9, 9)], "sv"], ["disarm"]]
        if ctx.rng.random() < 0.25:         # the state at the moment of pickling: frozen / unfrozen again
            c["ops"] += [["freeze"]] if ctx.rng.random() < 0.7 else [["freeze"], ["unfreeze"]]
        extra = []
        if ctx.rng.random() < 0.4:
            # a namespace that is still EMPTY at the moment of pickling (Manager.ref() / newenv() start with an empty AttrDict)
            # and gets its first members afterwards, by attribute and by item
            c["store"].append(["e", {"kind": ctx.rng.choice(["attrdict", "attrdict_plain"]), "items": []}])
            extra = [[["e", ["a", "k1"]], ctx.rng.randint(-9, 9)], [["e", ["i", "k2"]], ctx.rng.randint(-9, 9)], [["e", ["a", "k1"]], 3]]
        c["ops"].append(["picklecheck", [[ctx.rng.choice(lv), ctx.rng.randint(-9, 9)] for _ in range(4)] + extra,
                         ctx.rng.choice([None, None, "self", "ref", "method"])])      # AttrDict containers reachable from their own contents
        ncases.append(c)
    # linear-knob tasks whose remembered source value lags behind the source at the moment of pickling (an update that failed
    # before / while the knob ran), then follow-ups on the source
    for i in range(ctx.pick(30, 500)):
        S, T1, T2, X = (["c", ["i", k]] for k in "abcd")
        v0, v1 = ctx.rng.randint(-9, 9), ctx.rng.randint(-9, 9)
        ops = [["set", S, ["plain", v0], "sv"],
               ["regknob", ctx.rng.choice(["kn", {"ref": T1}]), S, [[ctx.rng.randint(1, 3), T1], [ctx.rng.randint(1, 3), T2]]],
               ["set", X, ["expr", ["bin", "+", ["ref", T1], ["ref", T2]]], "sv"],
               ["set", S, ["plain", ctx.rng.randint(-9, 9)], "item"],
               ["arm", ctx.rng.choice([1, 1, 2]), "Fault"], ["set", S, ["plain", v1], "sv"], ["disarm"],
               ["picklecheck", [[S, ctx.rng.randint(-9, 9)], [S, ctx.rng.randint(-9, 9)], [T2, 1]]]]
        ncases.append({"store": [["c", {"kind": "dict", "items": [[k, 0] for k in "abcd"]}]], "ops": ops})
    nested_fail = []
    # a long chain of definitions, every one of them replaced again from the consumer end down to the source, then pickled
    # (whatever a task remembers of the tasks around it must not make the pickled graph deeper than the data)
    nchain = ctx.pick(3000, 6000)
    V = lambda i: ["c", ["i", f"v{i}"]]
    chain = mc.chain_case(nchain)
    chain["ops"] = chain["ops"][:-1] + [["set", V(i), ["expr", ["bin", "+", ["ref", V(i - 1)], ["const", 2]]], "sv"] for i in range(nchain, 0, -1)] \
        + [["picklecheck", [[V(0), 3], [V(nchain // 2), -1]]]]
    cobs = mc.run_impl_cases([chain], opts={"snapshots": False}, timeout=3000)
    pr = (cobs[0][-1].get("pickle") or {}).get("problems") if cobs[0] else ["no observation"]
    if cobs[0] and cobs[0][0].get("crash"):
        pr = ["the library raised while being observed: " + cobs[0][0]["crash"][-400:]]
    if pr:
        small = {"store": chain["store"], "ops": chain["ops"]}
        nested_fail.append((len(ncases), "compiled", pr))
    ncases_all = ncases + [chain]
    ctx.evaluations += len(chain["ops"])
    for b in ("compiled", "pure"):
        nobs = mc.run_impl_cases(ncases, build=b)
        for i, ol in enumerate(nobs):
            pr = (ol[-1].get("pickle") or {}).get("problems")
            if ol and ol[0].get("crash"):
                pr = ["the library raised while being observed: " + ol[0]["crash"][-400:]]
            if pr:
                nested_fail.append((i, b, pr))
        ctx.evaluations += sum(len(c["ops"]) for c in ncases)
        ctx.traces += len(ncases)
    ctx.obligations.append(("oracle (nested targets): the unpickled manager has the same dump, the same four indices WITH multiplicities, "
                            "passes verify, reacts identically to follow-up assignments and shares nothing (both builds)",
                            not nested_fail, f"{len(nested_fail)} failing of {2 * len(ncases)}"))
    if nested_fail and not oracle_fail:
        i, b, pr = nested_fail[0]
        vlib.violation(ctx, {"kind": "oracle", "what": "the restored manager is not an independent, behaviourally identical copy",
                             "build": b, "mgr_case": ncases_all[i], "problems": pr, "how_to_replay": "./check C12 --replay <this file>"})
        return

    if oracle_fail:
        i, b = oracle_fail[0]
        small = shrink(cases[i], ids, b)
        bad, r = case_fails(small, ids, b)
        vlib.violation(ctx, {"kind": "oracle", "what": "the restored manager is not an independent, behaviourally identical copy", "build": b,
                             "case": small, "problems": r.get("oracle"), "how_to_replay": "./check C12 --replay <this file>"})
    elif mism or build_diff or unknown or missing_cls or cerrs or not proof_ok or not coq_ok:
        what = list(getattr(ctx, "broken", []))
        rs.describe_errors(cerrs, what)
        if mism:
            what.append(f"reduce correspondence broke on {len(mism)} nodes, first: {json.dumps(mism[0])}")
        if build_diff:
            what.append(f"compiled and pure builds differ on {len(build_diff)} cases, first: {json.dumps(cases[build_diff[0]]['history'])}")
        if unknown:
            what.append("node classes / functions the translator does not know (tie broken): " + ", ".join(unknown))
        if missing_cls:
            what.append(f"node classes never pickled: {missing_cls}")
        extra = [gen_case(ctx.rng) for _ in range(4000)]
        res2, _ = run_cases(extra, ids)
        found = None
        for b in ("compiled", "pure"):
            for i, r in enumerate(res2[b]):
                if r.get("oracle") and found is None:
                    found = (extra[i], b)
        if found:
            small = shrink(found[0], ids, found[1])
            bad, r = case_fails(small, ids, found[1])
            vlib.violation(ctx, {"kind": "oracle", "build": found[1], "case": small, "problems": r.get("oracle"), "also_broken": what})
        else:
            vlib.violation(ctx, {"kind": "proof-or-correspondence", "no_longer_checks": what,
                                 "searched": f"{len(extra)} extra managers on both builds with the pickle oracle: no failing input"}, no_input=True)


def replay(ctx, data):
    classes, fns, _ = rs.ids()
    if data.get("mgr_case"):
        import mgr_common as mc
        o = mc.run_impl_cases([data["mgr_case"]], build=data.get("build", "compiled"))[0][-1]
        pr = (o.get("pickle") or {}).get("problems")
        print(json.dumps(pr))
        if pr:
            print("VIOLATION property=C12 replay=(given): " + "; ".join(pr)); return 1
        print("replay: the restored manager is an independent, identical copy on this case"); return 0
    case = data.get("case")
    if not case:
        print("replay file names a broken theorem/correspondence, no concrete input:", json.dumps(data.get("no_longer_checks"), indent=1))
        return 1
    rc = 0
    for b in ("compiled", "pure"):
        bad, r = case_fails(case, (classes, fns), b)
        print(b, json.dumps({k: r.get(k) for k in ("oracle", "setup_error", "ntasks", "final")}))
        if bad:
            print(f"VIOLATION property=C12 replay=(given) build={b}: " + "; ".join(r["oracle"]))
            rc = 1
    if rc == 0:
        print("replay: the restored manager is an independent, identical copy on this case")
    return rc
