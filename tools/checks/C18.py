"""C18 — a failure in the middle of an update is reported and fully recoverable.

Proof : coq/props/C18.v — definitions and all index counts do not depend on the
        fault; the tasks that ran are a prefix executed exactly as fault-free and
        nothing after the failing write ran; only the assigned location and targets
        of triggered tasks can change; a fault-free repeat re-establishes every
        definition (expression tasks, C01's hypotheses); refuted for LinearKnob
        (known finding).
Tie   : model vs implementation over fault-injecting containers: every history x
        fault position (the k-th container write of the update raises), several
        faulty updates in a row, then the repeat; oracles on the implementation.
"""
import json
import vlib, mgr_common as mc


def defs_key(o):
    return sorted(json.dumps([t[0], t[1], sorted(map(json.dumps, t[2])), sorted(map(json.dumps, t[3]))]) for t in o["tasks"])


def strip_faults(case):
    return dict(case, ops=[op for op in case["ops"] if op[0] not in ("arm", "arm_read", "disarm")])


def oracle(cases, obs, twin_obs):
    fails = []
    for i, (c, ol) in enumerate(zip(cases, obs)):
        taint = None
        armed = None
        j = 0      # index in the twin (fault-free) history
        tl = twin_obs[i]
        pending = set()    # locations whose faulty update awaits its repeat
        for k, (op, o) in enumerate(zip(c["ops"], ol)):
            tr = o["oracle"].get("trace")
            if tr and tr.get("cycle") and taint is None:
                taint = k
            if op[0] == "arm":
                armed = op[1]; continue
            if op[0] == "arm_read":
                armed = 10 ** 6; continue          # a read fault: the position among the writes is not known
            if op[0] == "disarm":
                armed = None; continue
            t = tl[j] if j < len(tl) else None
            j += 1
            if o["oracle"]["canon"]:
                fails.append((i, k, f"indices corrupted after the update: {o['oracle']['canon']}")); break
            if t is not None and defs_key(o) != defs_key(t):
                fails.append((i, k, "definitions differ from those of the fault-free run")); break
            if tr and any(x in tr for x in ("dup", "ran_untriggered")):
                fails.append((i, k, f"a task outside the triggered set ran, or one ran twice: {tr}")); break
            if op[0] == "set" and o.get("fault_fired") and o["err"] != "Fault" and not str(o["err"]).startswith("Masked:"):
                fails.append((i, k, f"an injected exception was raised inside the update but did not reach the caller (the call ended with {o['err']})")); break
            if op[0] == "set" and str(o["err"]).startswith("Masked:"):
                fails.append((i, k, f"the exception raised by the failing write did not reach the caller: it was caught and {o['err'][7:]} raised instead")); break
            if op[0] == "set" and armed is not None:
                # how many writes does the fault-free update perform?  (1 + triggered tasks, expression/function tasks)
                nwrites = 1 + (tr or {}).get("n_triggered", 0) if tr else None
                if o["err"] is None and tr and armed < nwrites and taint is None and not any(tk[1] == "knob" for tk in o["tasks"]):
                    fails.append((i, k, f"write {armed} of the update was to raise but the call returned normally")); break
                if o["err"] == "Fault":
                    pending.add(json.dumps(mc.flat(op[1])))
                    if armed == 0 and o["trace"]:
                        fails.append((i, k, "tasks ran although the initial write failed")); break
            if op[0] == "set" and armed is None and o["err"] is None and json.dumps(mc.flat(op[1])) in pending:
                pending.discard(json.dumps(mc.flat(op[1])))
                # definitions that a run that never faulted also leaves unevaluated (load/register do not run tasks) do not count
                ref = set(json.dumps(x[0]) for x in ((t or {}).get("oracle", {}).get("inconsistent") or []))
                mine = [x for x in (o["oracle"].get("inconsistent") or []) if json.dumps(x[0]) not in ref]
                if taint is None and not pending and mine:
                    fails.append((i, k, "after the fault-free repeat a definition does not hold the value of its expression: "
                                  + json.dumps(mine[:3]))); break
                if taint is None and not pending and t is not None and o["store"] != t["store"] and all(x["err"] in (None, "Fault") for x in ol[:k + 1]):
                    a = {json.dumps(p): v for p, v in o["store"]}; b = {json.dumps(p): v for p, v in t["store"]}
                    fails.append((i, k, "after the fault-free repeat the data differ from a run that never faulted: "
                                  + json.dumps([(p, a[p], b.get(p)) for p in a if a[p] != b.get(p)][:3]))); break
    return fails


def known_finding_status():
    out = []
    for e in vlib.known_findings("C18"):
        if e["kind"] != "known":
            continue
        w = e["witness"]
        o = mc.run_impl_cases([{"store": w["store"], "ops": w["ops"]}])[0]
        st = {p[-1]: v for p, v in o[-1]["store"]}
        bad = {k: st.get(k) for k, v in w["expected_final"].items() if st.get(k) != v}
        out.append((e, bad if o[2]["err"] == "Fault" else None))
    return out


def systematic_cases():
    """every crash position of an update over a diamond with a tail and over a nested chain"""
    R = lambda k: ["c", ["i", k]]
    N = lambda k: ["c", ["i", "n"], ["a", k]]
    out = []
    defs1 = [["set", R("b"), ["expr", ["bin", "+", ["ref", R("a")], ["const", 1]]]],
             ["set", R("c"), ["expr", ["bin", "*", ["ref", R("a")], ["const", 2]]]],
             ["set", R("d"), ["expr", ["bin", "+", ["ref", R("b")], ["ref", R("c")]]]],
             ["set", R("e"), ["expr", ["bin", "-", ["ref", R("d")], ["const", 3]]]],
             ["regfun", "fn", [R("f")], [R("e")], [[R("f"), ["bin", "*", ["ref", R("e")], ["const", 2]]]]]]
    store1 = [["c", {"kind": "dict", "items": [[k, 0] for k in "abcdef"]}]]
    defs2 = [["set", N("x"), ["expr", ["bin", "+", ["ref", R("a")], ["const", 1]]]],
             ["set", R("b"), ["expr", ["bin", "*", ["ref", N("x")], ["const", 3]]]],
             ["set", R("c"), ["expr", ["bin", "+", ["ref", R("b")], ["ref", R("a")]]]]]
    store2 = [["c", {"kind": "dict", "items": [["a", 0], ["b", 0], ["c", 0], ["n", {"kind": "obj", "items": [["x", 0], ["y", 5]]}]]}]]
    # every public route of the assignment (set_value, owner[key] = v, DepEnv proxy item / attribute style) x how the container
    # was handed to the manager (ref / refattr / newenv) x every injected exception class x crash positions
    for root, route in (("ref", "sv"), ("ref", "item"), ("refattr", "item"), ("env", "env"), ("env", "envattr")):
        st = [["c", dict(store1[0][1], root=root)]]
        for kind in sorted(set(mc.FAULT_KINDS)):
            for k in (0, 2, 5):
                out.append({"store": st, "ops": list(defs1) + [["arm", k, kind], ["set", R("a"), ["plain", 4], route], ["disarm"],
                                                                  ["set", R("a"), ["plain", 4], route]]})
    # a task fails while EVALUATING its expression: the k-th container read of the update raises, for every exception class,
    # below every kind of operator node (the guarded operators %, // catch ZeroDivisionError of the operation itself only)
    defs3 = [["set", R("b"), ["expr", ["bin", "%", ["ref", R("a")], ["const", 3]]]],
             ["set", R("c"), ["expr", ["bin", "//", ["bin", "+", ["ref", R("b")], ["ref", R("a")]], ["const", 2]]]],
             ["set", R("d"), ["expr", ["bin", "+", ["bin", "%", ["ref", R("c")], ["const", 5]], ["ref", R("b")]]]],
             ["set", R("e"), ["expr", ["bin", "*", ["ref", R("d")], ["proj", "real", ["bin", "-", ["ref", R("c")], ["const", 1]]]]]]]
    for kind in sorted(set(mc.FAULT_KINDS)):
        for k in range(0, 9):
            out.append({"store": store1, "ops": list(defs3) + [["arm_read", k, kind], ["set", R("a"), ["plain", 7], "sv"], ["disarm"],
                                                               ["set", R("a"), ["plain", 7], "item"]]})
    # a definition whose TARGET has a computed key (out[c['sel']] = ...): the update also reads the key location, and a fault
    # while the key is evaluated (every exception class, AttributeError among them) must reach the caller like any other
    O = lambda k: ["c", ["i", "out"], ["i", k]]
    store4 = [["c", {"kind": "dict", "items": [["a", 0], ["b", 0], ["d", 0], ["e", 0], ["sel", "\x02s:x"],
                                               ["out", {"kind": "dict", "items": [["x", 0], ["y", 0]]}]]}]]
    defs4 = [["set", R("b"), ["expr", ["bin", "+", ["ref", R("a")], ["const", 1]]]],
             ["set", ["c", ["i", "out"], ["k", R("sel")]], ["expr", ["bin", "*", ["ref", R("b")], ["const", 2]]]],
             ["set", R("d"), ["expr", ["bin", "+", ["ref", O("x")], ["ref", R("a")]]]],
             ["set", R("e"), ["expr", ["bin", "-", ["ref", R("d")], ["const", 1]]]]]
    for kind in sorted(set(mc.FAULT_KINDS)):
        for k in range(0, 12):
            out.append({"store": store4, "ops": list(defs4) + [["arm_read", k, kind], ["set", R("a"), ["plain", 7], "sv"], ["disarm"],
                                                               ["set", R("a"), ["plain", 7], "item"]]})
    for store, defs, nmax in ((store1, defs1, 7), (store2, defs2, 5)):
        for k in range(nmax):
            for k2 in (None, 0, k):
                kind = ["Fault", "StopIteration", "BaseFault", "KeyError"][(k + (k2 or 0) + (k2 is None)) % 4]
                ops = list(defs) + [["arm", k, kind], ["set", R("a"), ["plain", 4]]]
                if k2 is not None:
                    ops += [["arm", k2, kind], ["set", R("a"), ["plain", 4]]]
                ops += [["disarm"], ["set", R("a"), ["plain", 4]]]
                out.append({"store": store, "ops": ops})
    return out


def run(ctx):
    ctx.rule = ("random manager histories of expression and function tasks over fault-injecting containers: the k-th container write of an "
                "update raises (k = 0 is the assigned location itself) an exception of a random class (custom Exception, StopIteration, KeyError, "
                "ValueError, AttributeError, TypeError, ZeroDivisionError, RecursionError, BaseException subclasses), 1-3 faulty updates in a row, then the fault-free repeat; a twin "
                "fault-free run of the same history is the reference; non-trivial = a fault that fired after >= 1 task had run; distinct by op list")
    ctx.scale_if_changed()
    proof_ok = vlib.standard_proof_part(ctx, "props/C18.v", extra_targets=["run/RunManager.vo", "proofs/TasksSrc.vo", "proofs/TasksSrcData.vo", "proofs/TasksSrcRefresh.vo", "proofs/TasksSrcSorting.vo"], translators=["tasks"])
    cases = systematic_cases() + [mc.gen_history(ctx.rng, "fault", nops=ctx.rng.randint(5, 14), attrdict=False) for _ in range(ctx.pick(260, 5000))]
    obs = mc.run_impl_cases(cases)
    twins = [strip_faults(c) for c in cases]
    tobs = mc.run_impl_cases(twins)
    mism = mc.model_compare(ctx, cases, obs, "c18")
    fails = oracle(cases, obs, tobs)
    for e, bad in known_finding_status():
        if bad:
            vlib.known(ctx, f"LinearKnob double increment after a mid-task fault: repeat leaves {bad} (expected {e['witness']['expected_final']})")
        else:
            ctx.notes.append("known finding C18/linear-knob-partial: the listed witness no longer fails on this tree")
    fired = 0
    for c, ol in zip(cases, obs):
        for op, o in zip(c["ops"], ol):
            if o["err"] == "Fault":
                fired += 1
                if o["trace"]:
                    ctx.nontrivial.add(json.dumps(c["ops"]))
    ctx.evaluations = sum(len(c["ops"]) for c in cases) + sum(len(c["ops"]) for c in twins)
    ctx.traces = len(cases)
    ctx.samples = [{"ops": cases[0]["ops"], "errors": [o["err"] for o in obs[0]], "traces": [o["trace"] for o in obs[0]]}]
    ctx.cov["input_distribution"] = {"ops": mc.op_distribution(cases), "faults_fired": fired,
                                     "fault_positions": {str(k): sum(1 for c in cases for op in c["ops"] if op[0] == "arm" and op[1] == k) for k in range(7)},
                                     "tainted_by_order_cycle": sum(1 for ol in obs if mc.tainted_prefix(ol) is not None)}
    mc.decide(ctx, proof_ok, cases, obs, mism, fails)


def replay(ctx, data):
    case = data.get("case")
    if not case:
        print("no concrete input in this replay file:", data.get("no_longer_checks")); return 1
    obs = mc.run_impl_cases([case]); tobs = mc.run_impl_cases([strip_faults(case)])
    f = oracle([case], obs, tobs)
    print(json.dumps([(o["err"], o["trace"]) for o in obs[0]]))
    if f:
        print("VIOLATION property=C18 replay=(given):", f[0][2]); return 1
    print("replay: the implementation satisfies the C18 oracle on this case"); return 0
