"""C11 — printed expressions rebuild themselves: dump / load / copy_expr_from are faithful.

Proof part : coq/props/C11.v (parse (show_tokens e) = Some (subst ns e) for every node
             class; load(dump) and copy_expr_from at the level of task lists).
Tie        : py2v tables (gen_refsrepr.py: repr_tpl, dunder tables) interpreted by
             coq/model/RefsPrint.v; correspondences on generated expressions:
             model tokens = Python's tokenize(str(e)), model show = str(e) byte for byte,
             model parse = structure of eval(str(e)) (also under rebinding).
Oracle     : the property itself on the real code (tools/impl/refsprint_runner.py):
             eval(str(e), namespace) == e, same (symbolic) value, same dependencies;
             dump -> load -> same dump and same reaction to follow-up assignments;
             copy_expr_from with rebinding maps / overwrite flags against the expected
             definitions.
"""
import json, keyword
import vlib
from checks import refsrepr_common as rc
from checks.refsrepr_common import cps


LABELS = [["a", 0], ["b", 0], ["c", 0], ["d", 0], ["o", 1], ["f", 0], ["ref", 0]]
BIN_ARITH = ["AddExpr", "SubExpr", "MulExpr", "MatmulExpr", "TruedivExpr", "FloordivExpr", "ModExpr", "PowExpr",
             "BitwiseAndExpr", "BitwiseOrExpr", "XorExpr", "RshiftExpr", "LshiftExpr"]
BIN_CMP = ["LtExpr", "LeExpr", "GeExpr", "GtExpr"]
BIN_EQ = ["EqExpr", "NeExpr"]        # built by ref._eq(x) / ref._neq(x)
UN = ["NegExpr", "PosExpr", "InvertExpr"]
STR_KEYS = ["x", "y", "a", "ref_a", "ref", "a['x']", "f.sin", "o", "math", "x'", 'x"', "x'\"", "k]", "[", "a.b", "", " ", "\\", "a\\n", "a\n",
            "\x00", "\x7f", "\xe9", "͸", "\ud800", "\U0001F600", "c['t0']", "round(a, 2)", "(-3 ** a)", "1", "-1", "b['inner']", "=", "k=2", ", "]
ATTRS = ["x", "y", "real", "sin", "lin", "tan", "n1", "alpha", "inner", "a", "ref_a", "\xe9", "π", "floor", "abs"]
KWS = ["k", "y", "p", "a", "alpha", "ref_a", "x1"]
INTS = [0, 1, -1, 2, -3, 7, 10, -10, 10 ** 20, -(2 ** 70), 255]
FLOATS = [1.5, -2.5, 1e-05, 1e+22, 1e16, 1.7976931348623157e308, 5e-324, -0.0, 0.0, 0.1, 3.0, -1e-07, 2.5e+300, 123456789.125]


def c_int(z):
    return ["const", ["i", str(z)]]


def c_float(x):
    return ["const", ["f", float(x).hex()]]


def gen_const(rng):
    return c_int(rng.choice(INTS)) if rng.random() < 0.55 else c_float(rng.choice(FLOATS))


def gen_key(rng, depth):
    k = rng.random()
    if k < 0.55:
        if rng.random() < 0.2:
            alpha = "ab'\"[].\\ \n\x00\xe9\U0001F600=,()-1"
            return ["const", ["s", cps("".join(rng.choice(alpha) for _ in range(rng.randint(0, 5))))]]
        return ["const", ["s", cps(rng.choice(STR_KEYS))]]
    if k < 0.85:
        return c_int(rng.choice(INTS))
    if k < 0.9:
        return c_float(rng.choice(FLOATS))
    return gen_ref(rng, depth - 1)


def gen_ref(rng, depth):
    if depth <= 0 or rng.random() < 0.25:
        lab, kind = rng.choice(LABELS)
        return ["top", lab, kind]
    owner = gen_ref(rng, depth - 1) if rng.random() < 0.85 else gen_expr(rng, depth - 1, need_ref=True)
    if rng.random() < 0.65 or (owner[0] == "top" and owner[2] == 1):
        return ["item", owner, gen_key(rng, depth)]
    return ["attr", owner, cps(rng.choice(ATTRS))]


def gen_operand(rng, depth):
    k = rng.random()
    if k < 0.3:
        return gen_const(rng)
    if k < 0.7:
        return gen_ref(rng, min(depth, 2))
    return gen_expr(rng, depth - 1, need_ref=True)


def gen_expr(rng, depth, need_ref=False):
    """an expression node (never a plain constant)"""
    if depth <= 0:
        return gen_ref(rng, 1)
    k = rng.random()
    if k < 0.12:
        return gen_ref(rng, 2)
    if k < 0.55:
        cls = rng.choice(BIN_ARITH + BIN_CMP + BIN_EQ)
        l = gen_operand(rng, depth)
        r = gen_operand(rng, depth)
        if l[0] == "const" and r[0] == "const":
            r = gen_ref(rng, 2)
        if l[0] == "const" and cls in BIN_CMP + BIN_EQ:
            l, r = r, l            # a comparison with a constant on the left is built reflected by Python itself; _eq is a method of the reference
        return ["bin", cls, l, r]
    if k < 0.65:
        a = gen_operand(rng, depth)
        if a[0] == "const":
            a = gen_ref(rng, 2)
        return ["un", rng.choice(UN), a]
    if k < 0.8:
        fn = rng.choice(["abs", "round", "round", "divmod", "floor", "ceil", "trunc"])
        a = gen_operand(rng, depth)
        if a[0] == "const":
            a = gen_ref(rng, 2)
        ps = []
        if fn == "round" and rng.random() < 0.7:
            ps = [c_int(rng.choice([0, 1, 2, -1, -2, 5]))] if rng.random() < 0.7 else [gen_ref(rng, 1)]
        if fn == "divmod":
            ps = [gen_operand(rng, depth - 1)]
        return ["builtin", fn, a, ps]
    if k < 0.95:
        func = ["attr", ["top", "f", 0], cps(rng.choice(["sin", "lin", "tan", "sq"]))] if rng.random() < 0.7 else gen_ref(rng, 2)
        args = [gen_operand(rng, depth - 1) for _ in range(rng.choice([0, 1, 1, 2, 3]))]
        names = rng.sample(KWS, rng.choice([0, 0, 1, 2]))
        kw = [[n, gen_operand(rng, depth - 1)] for n in names]
        return ["call", func, args, kw]
    o = gen_expr(rng, depth - 1)
    return ["attr", o, cps(rng.choice(ATTRS))] if rng.random() < 0.5 else ["item", o, gen_key(rng, 1)]


def corpus():
    a, f, o = ["top", "a", 0], ["top", "f", 0], ["top", "o", 1]
    ax = ["item", a, ["const", ["s", cps("x")]]]
    ay = ["item", a, ["const", ["s", cps("y")]]]
    out = []
    for cls in BIN_ARITH:
        out += [["bin", cls, ax, ay], ["bin", cls, ax, c_int(-3)], ["bin", cls, c_int(-3), ax], ["bin", cls, c_float(-2.5), ax],
                ["bin", cls, c_int(3), ax], ["bin", cls, ["bin", cls, ax, ay], ["bin", "AddExpr", ay, ax]],
                ["bin", cls, ["bin", "AddExpr", ax, ay], ["bin", cls, ay, ax]]]
    for cls in BIN_CMP:
        out += [["bin", cls, ax, ay], ["bin", cls, ax, c_float(1e-05)], ["bin", cls, ["un", "NegExpr", ax], c_int(-1)]]
    for u in UN:
        out += [["un", u, ax], ["un", u, ["un", u, ay]], ["un", u, ["bin", "PowExpr", c_int(-3), ax]]]
    out += [["builtin", "abs", ax, []], ["builtin", "round", ax, []], ["builtin", "round", ax, [c_int(2)]], ["builtin", "round", ax, [c_int(-1)]],
            ["builtin", "round", ax, [ay]], ["builtin", "divmod", ax, [c_int(3)]], ["builtin", "divmod", ax, [ay]],
            ["builtin", "floor", ax, []], ["builtin", "ceil", ["bin", "TruedivExpr", ax, c_int(2)], []], ["builtin", "trunc", ["un", "NegExpr", ax], []],
            ["call", ["attr", f, cps("sin")], [ax], []], ["call", ["attr", f, cps("lin")], [ax, c_int(3)], [["k", c_float(2.5)]]],
            ["call", ["attr", f, cps("lin")], [], [["k", c_int(-2)], ["y", ay]]], ["call", ["attr", f, cps("tan")], [], []],
            ["call", ["item", f, ["const", ["s", cps("g")]]], [c_int(-1), c_float(-0.0)], []],
            ["call", ["call", ["attr", f, cps("mk")], [ax], []], [ay], [["a", c_int(1)]]],
            ["item", a, ["const", ["s", cps("ref_a")]]], ["item", ["top", "ref", 0], ["const", ["s", cps("a")]]],
            ["item", a, ["const", ["s", cps("a['x']")]]], ["item", a, ay], ["item", ["item", a, c_int(-1)], c_int(0)],
            ["attr", ["bin", "AddExpr", ax, c_int(1)], cps("real")], ["item", ["builtin", "divmod", ax, [c_int(3)]], c_int(0)],
            ["item", o, ["const", ["s", cps("k")]]], ["attr", ["item", o, ["const", ["s", cps("k")]]], cps("x")],
            ["bin", "PowExpr", c_int(-3), ["bin", "PowExpr", c_float(-1.5), ax]], ["bin", "PowExpr", ax, c_int(-3)],
            ["bin", "SubExpr", ax, c_int(-3)], ["bin", "MulExpr", c_float(1e+22), ax], ["bin", "AddExpr", ax, c_float(-0.0)],
            ["bin", "PowExpr", ["bin", "PowExpr", c_int(-2), ax], ["bin", "PowExpr", c_int(-2), ay]]]
    out += eq_family()
    return out


def eq_family():
    a = ["top", "a", 0]
    ax = ["item", a, ["const", ["s", cps("x")]]]
    ay = ["item", a, ["const", ["s", cps("y")]]]
    return [["bin", "EqExpr", ax, ay], ["bin", "NeExpr", ax, c_int(3)], ["bin", "AddExpr", ["bin", "EqExpr", ax, ax], c_int(1)],
            ["bin", "NeExpr", ["bin", "EqExpr", ax, c_float(-2.5)], ["un", "NegExpr", ay]], ["attr", ["bin", "EqExpr", ["bin", "AddExpr", ax, ay], ay], cps("real")],
            ["call", ["attr", ["top", "f", 0], cps("lin")], [["bin", "NeExpr", ay, ax]], [["k", ["bin", "EqExpr", ax, c_int(-1)]]]]]


def has_eq(t):
    if not isinstance(t, list):
        return False
    if t and t[0] == "bin" and t[1] in ("EqExpr", "NeExpr"):
        return True
    return any(has_eq(x) for x in t if isinstance(x, list))


def in_model_language(t):
    """the sub-language of the Coq parse model (wf of coq/model/RefsPrint.v): numeric
    constants as operands, str / numeric / reference keys"""
    k = t[0]
    if k == "const":
        return t[1][0] in ("i", "f")
    if k == "top":
        return True
    if k == "item":
        key = t[2]
        okk = (key[0] == "const" and key[1][0] in ("i", "f", "s")) or (key[0] != "const" and in_model_language(key))
        return t[1][0] != "const" and in_model_language(t[1]) and okk
    if k == "attr":
        return t[1][0] != "const" and in_model_language(t[1])
    if k == "bin":
        return (t[1] not in BIN_EQ or t[2][0] != "const") and in_model_language(t[2]) and in_model_language(t[3])
    if k == "un":
        return in_model_language(t[2])
    if k == "builtin":
        return in_model_language(t[2]) and all(in_model_language(p) for p in t[3])
    if k == "call":
        return in_model_language(t[1]) and all(in_model_language(a) for a in t[2]) and all(in_model_language(v) for _, v in t[3])
    return False


# ---- Coq emission ------------------------------------------------------------------------------

def emit_tokens(toks, ft):
    out = []
    for t in toks:
        if t[0] == "name":
            out.append(f"KName {rc.clistN(t[1])}")
        elif t[0] == "op":
            out.append(f"KOp {rc.clistN(t[1])}")
        elif t[0] == "str":
            out.append(f"KStr {rc.clistN(t[1])}")
        elif t[0] == "num":
            out.append(f"KNum {rc.emit_lit(t[1], ft)}")
        else:
            return None
    return "[" + "; ".join(out) + "]"


def model_correspondence(ctx, exprs, results, tag, rebind=None):
    """returns dict kind -> list of mismatching indices, or an error string"""
    cid = rc.class_ids()
    objattr = [l for l, k in LABELS if k]
    jobs = []   # (kind, ids, text)
    idx = [i for i, r in enumerate(results) if r.get("built") and r.get("text") is not None]
    for chunk in vlib.chunks(idx, 300):
        ft, chars = rc.FloatTokens(), set()
        show_items, tok_items, tok_ids, parse_items, parse_ids, reb_items, reb_ids = [], [], [], [], [], [], []
        for i in chunk:
            r = results[i]
            t = r["built"]
            rc.term_chars(t, chars)
            et = rc.emit_term(t, ft, cid)
            show_items.append(f"({et}, {rc.clistN(r['text'])})")
            if r.get("tokens") is not None:
                tk = emit_tokens(r["tokens"], ft)
                tok_items.append(f"({et}, {tk})" if tk else None)
                tok_ids.append(i)
            if in_model_language(t) and r.get("rebuilt"):
                parse_items.append(f"({et}, {rc.emit_term(r['rebuilt'], ft, cid)})")
                parse_ids.append(i)
            if rebind and in_model_language(t) and r.get("rebound"):
                reb_items.append(f"({et}, {rc.emit_term(r['rebound'], ft, cid)})")
                reb_ids.append(i)
        hdr = rc.COQ_HEADER.format(extra="model.RefsPrint run.RunRefsRepr run.RunRefsPrint")
        jobs.append(("show", chunk, hdr + "Definition cases : list (term * pystr) :=\n [" + ";\n  ".join(show_items) + "].\n"
                     + f"Eval vm_compute in (show_mismatches {rc.clistN(rc.printable_table(chars))} {ft.coq()} cases).\n"))
        bad_tok = [i for i, it in zip(tok_ids, tok_items) if it is None]
        good = [(i, it) for i, it in zip(tok_ids, tok_items) if it is not None]
        jobs.append(("tok", [i for i, _ in good], hdr + "Definition cases : list (term * list token) :=\n [" + ";\n  ".join(it for _, it in good) + "].\n"
                     + "Eval vm_compute in (tok_mismatches cases).\n", bad_tok))
        if parse_items:
            jobs.append(("parse", parse_ids, hdr + "Definition cases : list (term * term) :=\n [" + ";\n  ".join(parse_items) + "].\n"
                         + "Eval vm_compute in (parse_mismatches [" + "; ".join(rc.clistN(cps(l)) for l in objattr) + "] cases).\n"))
        if reb_items:
            binds = {l: ["top", l, k] for l, k in LABELS}
            binds.update({l: t for l, t in rebind})
            bl = "; ".join(f"({rc.clistN(cps(l))}, {rc.emit_term(t, ft, cid)})" for l, t in binds.items())
            jobs.append(("rebound", reb_ids, hdr + "Definition cases : list (term * term) :=\n [" + ";\n  ".join(reb_items) + "].\n"
                         + f"Eval vm_compute in (parse_ns_mismatches [{bl}] cases).\n"))
    mism = {"show": [], "tok": [], "parse": [], "rebound": []}
    counts = {"show": 0, "tok": 0, "parse": 0, "rebound": 0}
    outs = vlib.coq_eval_files(ctx, [j[2] for j in jobs], tag)
    for (rcode, so, se), j in zip(outs, jobs):
        lst = vlib.parse_nat_list(so) if rcode == 0 else None
        if lst is None:
            return None, counts, f"case evaluation failed ({j[0]}): rc={rcode} {se[-600:]} {so[-200:]}"
        mism[j[0]] += [j[1][k] for k in lst]
        counts[j[0]] += len(j[1])
        if len(j) > 3:
            mism["tok"] += j[3]
    return mism, counts, None


# ---- implementation side ---------------------------------------------------------------------

def run_exprs(exprs, build="compiled", rebind=None):
    parts = list(vlib.chunks(exprs, max(1, (len(exprs) + vlib.NPROC - 1) // vlib.NPROC)))
    impl = vlib.build_impl()
    from concurrent.futures import ThreadPoolExecutor
    with ThreadPoolExecutor(max_workers=vlib.NPROC) as ex:
        rs = list(ex.map(lambda p: vlib.run_impl("refsprint_runner.py", {"mode": "exprs", "labels": LABELS, "exprs": p, "rebind": rebind},
                                                 build=build, impl=impl), parts))
    out = []
    for r in rs:
        out += r["results"]
    return out


def expr_verdict(r, rebind=False):
    """None when the property holds on this expression, else what fails"""
    if "build_error" in r:
        return None     # the generator asked for something the API does not build: not a case
    if r.get("eval") != "ok":
        return "eval(str(e)) raises " + str(r.get("eval"))
    if not r.get("is_ref"):
        return "eval(str(e)) is not an expression"
    if not r.get("eq"):
        return "eval(str(e)) != e"
    if not r.get("value_same"):
        return "eval(str(e)) has another value"
    if not r.get("deps_same"):
        return "eval(str(e)) has other dependencies"
    if rebind and not r.get("rebound_ok"):
        return "evaluated in a rebinding namespace the text does not give the rebound expression"
    return None


def subterms(t):
    if not isinstance(t, list) or not t or t[0] in ("const", "top"):
        return []
    k = t[0]
    if k == "item":
        return [t[1], t[2]]
    if k == "attr":
        return [t[1]]
    if k == "bin":
        return [t[2], t[3]]
    if k == "un":
        return [t[2]]
    if k == "builtin":
        return [t[2]] + t[3]
    if k == "call":
        return [t[1]] + t[2] + [v for _, v in t[3]]
    return []


def shrink_expr(t, fails):
    """smallest failing sub-expression, then simplify children"""
    changed = True
    while changed:
        changed = False
        for s in subterms(t):
            if s[0] not in ("const", "top") and fails(s):
                t = s
                changed = True
                break
    return t


def expr_fails(build, rebind=None):
    def f(t):
        r = run_exprs([t], build, rebind)[0]
        return expr_verdict(r, bool(rebind)) is not None
    return f


# ---- manager histories ----------------------------------------------------------------------------

def L(v):
    if isinstance(v, str):
        return ["s", cps(v)]
    if isinstance(v, int):
        return ["i", str(v)]
    return ["f", float(v).hex()]


def D(d):
    return ["d", [[L(k), D(v) if isinstance(v, dict) else ["v", L(v)]] for k, v in d.items()]]


INPUT = {"x": 1.5, "y": 2, "ref_a": 7, "a": 3, "a['x']": 9, "c": 0.25, "f.lin": 4, 1: 2.5, -1: 8, "n": {"p": 4, "q": 0.5, "a": -3}}
IN_LEAVES = [["x"], ["y"], ["ref_a"], ["a"], ["a['x']"], ["c"], ["f.lin"], [1], [-1], ["n", "p"], ["n", "q"], ["n", "a"]]


def leaf(label, path):
    t = ["top", label, 0]
    for k in path:
        t = ["item", t, ["const", L(k)]]
    return t


def gen_num_expr(rng, in_label, tgt_label, navail, depth=2, earlier=None):
    """numeric expression over the input leaves and earlier targets t0..t{navail-1} (or the terms `earlier`)"""
    def operand(d):
        k = rng.random()
        if k < 0.25:
            return ["const", L(rng.choice([2, 3, -3, 0.5, -2.5, 10, 1e-05]))]
        if k < 0.6 or d <= 0:
            if earlier is not None:
                if earlier and rng.random() < 0.45:
                    return rng.choice(earlier)
            elif navail and rng.random() < 0.4:
                return leaf(tgt_label, [f"t{rng.randrange(navail)}"])
            return leaf(in_label, rng.choice(IN_LEAVES))
        return expr(d - 1)

    def expr(d):
        k = rng.random()
        if k < 0.55:
            cls = rng.choice(["AddExpr", "SubExpr", "MulExpr", "TruedivExpr", "AddExpr", "SubExpr", "MulExpr", "PowExpr", "ModExpr", "FloordivExpr"])
            l, r = operand(d), operand(d)
            if cls == "PowExpr":
                l = ["const", L(rng.choice([-3, 2, -1.5, 3]))] if rng.random() < 0.5 else l
                r = leaf(in_label, rng.choice([["y"], ["a"], ["n", "p"]])) if l[0] == "const" else ["const", L(rng.choice([2, 3, -1]))]
            if l[0] == "const" and r[0] == "const":
                r = leaf(in_label, rng.choice(IN_LEAVES))
            return ["bin", cls, l, r]
        if k < 0.6:
            a = operand(d)
            return ["bin", rng.choice(BIN_EQ), a if a[0] != "const" else leaf(in_label, ["y"]), operand(d)]
        if k < 0.65:
            a = operand(d)
            return ["un", "NegExpr", a if a[0] != "const" else leaf(in_label, ["x"])]
        if k < 0.8:
            a = operand(d)
            a = a if a[0] != "const" else leaf(in_label, ["x"])
            fn = rng.choice(["abs", "round", "round", "floor", "ceil", "trunc"])
            return ["builtin", fn, a, [["const", L(rng.choice([1, 2, -1]))]] if fn == "round" and rng.random() < 0.7 else []]
        fn = rng.choice(["lin", "sq", "tan"])
        args = [operand(d - 1) for _ in range(rng.choice([1, 1, 2]))]
        if all(x[0] == "const" for x in args):
            args[0] = leaf(in_label, ["y"])
        kws = {"lin": ["y", "k"], "sq": ["p"], "tan": ["y", "a"]}[fn]
        if len(args) > 1:
            kws = kws[1:]
        kw = [[n, operand(d - 1)] for n in rng.sample(kws, rng.randint(0, len(kws)))]
        return ["call", ["attr", ["top", "f", 0], cps(fn)], args, kw]
    return expr(depth)


def gen_manager_case(rng):
    data = {"a": D(INPUT), "c": D({"z": 0}), "g": D({"u": 0})}
    ntg = rng.randint(2, 6)
    history, defs = [], {}
    order = list(range(ntg)) + [rng.randrange(ntg) for _ in range(rng.randint(0, 3))]
    for k in order:
        tgt = leaf("c", [f"t{k}"])
        if rng.random() < 0.12 and k in defs:
            val = ["const", L(rng.choice([1, 2.5, -4]))]
            defs.pop(k, None)
        else:
            val = gen_num_expr(rng, "a", "c", k)
            defs.pop(k, None)
            defs[k] = val
        history.append([tgt, val])
    if rng.random() < 0.5:
        history.append([leaf("g", ["u"]), gen_num_expr(rng, "a", "c", ntg)])
    nodeps = rng.random() < 0.3
    if nodeps:
        # a definition without dependencies: the value is the container reference itself
        history.append([leaf("c", ["q"]), ["top", "a", 0]])
    followups = []
    for _ in range(rng.randint(2, 5)):
        if rng.random() < 0.75:
            followups.append([leaf("a", rng.choice(IN_LEAVES)), ["const", L(rng.choice([0, 1, -2, 3.5, 10, 0.125, -7]))]])
        elif rng.random() < 0.5:
            followups.append([leaf("c", [f"t{rng.randrange(ntg)}"]), ["const", L(rng.choice([5, -1.5]))]])
        else:
            k = rng.randrange(ntg)
            followups.append([leaf("c", [f"t{k}"]), gen_num_expr(rng, "a", "c", k)])
    case = {"data": data, "history": history, "followups": followups}
    # copy_expr_from
    mode = rng.choice(["same", "rebind_in", "rebind_in", "rebind_both"])
    src_tasks = [[leaf("c", [f"t{k}"]), defs[k]] for k in sorted(defs)]    # t_k only reads t_j with j < k
    if nodeps:
        src_tasks.append([leaf("c", ["q"]), ["top", "a", 0]])
    cp = {"name": "c", "overwrite": rng.random() < 0.5, "source_tasks": src_tasks}
    if mode == "same":
        cp["data"] = {"a": D(INPUT), "c": D({"z": 0})}
        cp["bindings"] = []
        in_new, tgt_new = ["top", "a", 0], ["top", "c", 0]
        cp["check_reaction"] = True
    elif mode == "rebind_in":
        cp["data"] = {"b": D({"inner": INPUT, "a": 1}), "c": D({"z": 0})}
        cp["bindings"] = [["a", leaf("b", ["inner"])]]
        in_new, tgt_new = leaf("b", ["inner"]), ["top", "c", 0]
        cp["check_reaction"] = True
    else:
        cp["data"] = {"b": D({"inner": INPUT}), "d": D({"inner": {"z": 0}, "c": 1})}
        cp["bindings"] = [["a", leaf("b", ["inner"])], ["c", leaf("d", ["inner"])]]
        in_new, tgt_new = leaf("b", ["inner"]), leaf("d", ["inner"])
        cp["check_reaction"] = False   # nested targets share their owner: ordering between siblings is C01/C03's known finding

    def nl(base, path):
        t = base
        for k in path:
            t = ["item", t, ["const", L(k)]]
        return t
    pre = []
    for k in rng.sample(range(ntg), rng.randint(0, min(2, ntg))):
        pre.append([nl(tgt_new, [f"t{k}"]), ["bin", "MulExpr", nl(in_new, rng.choice(IN_LEAVES)), ["const", L(rng.choice([3, -2, 0.5]))]]])
    cp["pre_history"] = pre
    cp["followups"] = [[nl(in_new, rng.choice(IN_LEAVES)), ["const", L(rng.choice([0, 1, -2, 3.5, 10]))]] for _ in range(rng.randint(1, 3))]
    case["copy"] = cp
    return case


def run_managers(cases, build="compiled", hashseed=0):
    parts = list(vlib.chunks(cases, max(1, (len(cases) + vlib.NPROC - 1) // vlib.NPROC)))
    impl = vlib.build_impl()
    from concurrent.futures import ThreadPoolExecutor
    with ThreadPoolExecutor(max_workers=vlib.NPROC) as ex:
        rs = list(ex.map(lambda p: vlib.run_impl("refsprint_runner.py", {"mode": "managers", "cases": p}, build=build, hashseed=hashseed, impl=impl), parts))
    out = []
    for r in rs:
        out += r["results"]
    return out


def shrink_manager_case(case, build):
    def fails(c):
        return run_managers([c], build)[0].get("fail") is not None
    cur = case
    for key in ("followups", "history"):
        i = 0
        while i < len(cur[key]):
            cand = dict(cur, **{key: cur[key][:i] + cur[key][i + 1:]})
            if key == "history":
                # keep copy.source_tasks consistent: drop the copy part if the history changes
                cand = dict(cand)
                cand.pop("copy", None)
            if fails(cand):
                cur = cand
            else:
                i += 1
    if "copy" in cur:
        cand = dict(cur)
        cand.pop("copy")
        if fails(cand):
            cur = cand
    return cur


# ---- histories of load / copy_expr_from / assignment on ONE target manager ------------------------

TKEYS = {**{f"t{k}": 0 for k in range(6)}, "q": 0, "z": 0}
B_INNER = leaf("b", ["inner"])
D_INNER = leaf("d", ["inner"])


def gen_source(rng):
    """a source manager: containers a (inputs), c (targets), g; returns its history and its final
    definitions in the order of the tasks dict"""
    ntg = rng.randint(2, 5)
    history, defs = [], {}

    def assign(tgt, val):
        history.append([tgt, val])
        key = json.dumps(tgt)
        defs.pop(key, None)
        if val[0] != "const":
            defs[key] = [tgt, val]
    for k in list(range(ntg)) + [rng.randrange(ntg) for _ in range(rng.randint(0, 2))]:
        tgt = leaf("c", [f"t{k}"])
        if rng.random() < 0.1 and json.dumps(tgt) in defs:
            assign(tgt, ["const", L(rng.choice([1, 2.5, -4]))])
        else:
            assign(tgt, gen_num_expr(rng, "a", "c", k))
    if rng.random() < 0.4:
        assign(leaf("g", ["u"]), gen_num_expr(rng, "a", "c", ntg))
    if rng.random() < 0.3:
        assign(leaf("c", ["q"]), ["top", "a", 0])
    return {"data": {"a": D(INPUT), "c": D(TKEYS), "g": D({"u": 0})}, "history": history, "defs": list(defs.values())}


def gen_multistep_case(rng):
    sources = [gen_source(rng) for _ in range(rng.choice([1, 2, 2]))]
    target = {"data": {"a": D(INPUT), "b": D({"inner": INPUT, "a": 1}), "c": D(TKEYS), "d": D({"inner": TKEYS, "c": 1}), "g": D({"u": 0})}}
    ops = []
    for _ in range(rng.randint(3, 6)):
        k = rng.random()
        si = rng.randrange(len(sources))
        ow = rng.random() < 0.6
        if k < 0.2:
            ops.append(["load", si, ow])
        elif k < 0.45:
            ops.append(["copy", si, "c", [], ow])
        elif k < 0.75:
            ops.append(["copy", si, "c", [["a", B_INNER]], ow])
        elif k < 0.85:
            ops.append(["copy", si, "c", [["a", B_INNER], ["c", D_INNER]], ow])
        else:
            kk = rng.randrange(5)
            val = ["const", L(rng.choice([5, -1.5, 0]))] if rng.random() < 0.4 else gen_num_expr(rng, "a", "c", kk)
            ops.append(["assign", leaf("c", [f"t{kk}"]), val])
    return {"sources": sources, "target": target, "ops": ops}


def multistep_corpus():
    """a rebinding copy followed by plain copies / loads that mention the rebound label"""
    mul = lambda k: ["bin", "MulExpr", leaf("a", [k]), ["const", L(2)]]
    src = {"data": {"a": D(INPUT), "c": D(TKEYS), "g": D({"u": 0})},
           "history": [[leaf("c", ["t0"]), ["bin", "AddExpr", leaf("a", ["x"]), leaf("a", ["y"])]], [leaf("c", ["t1"]), mul("x")]],
           "defs": [[leaf("c", ["t0"]), ["bin", "AddExpr", leaf("a", ["x"]), leaf("a", ["y"])]], [leaf("c", ["t1"]), mul("x")]]}
    target = {"data": {"a": D(INPUT), "b": D({"inner": INPUT, "a": 1}), "c": D(TKEYS), "d": D({"inner": TKEYS, "c": 1}), "g": D({"u": 0})}}
    return [{"sources": [src], "target": target,
             "ops": [["copy", 0, "c", [["a", B_INNER]], True], ["copy", 0, "c", [], True], ["load", 0, True],
                     ["assign", leaf("a", ["x"]), ["const", L(7)]]]},
            {"sources": [src], "target": target,
             "ops": [["copy", 0, "c", [["a", B_INNER], ["c", D_INNER]], True], ["load", 0, False], ["copy", 0, "c", [], False],
                     ["assign", leaf("c", ["t0"]), ["const", L(1)]], ["copy", 0, "c", [["a", B_INNER]], False]]}]


def run_multistep(cases, build="compiled", hashseed=0):
    parts = list(vlib.chunks(cases, max(1, (len(cases) + vlib.NPROC - 1) // vlib.NPROC)))
    impl = vlib.build_impl()
    from concurrent.futures import ThreadPoolExecutor
    with ThreadPoolExecutor(max_workers=vlib.NPROC) as ex:
        rs = list(ex.map(lambda p: vlib.run_impl("refsprint_runner.py", {"mode": "multistep", "cases": p}, build=build, hashseed=hashseed, impl=impl), parts))
    out = []
    for r in rs:
        out += r["results"]
    return out


def shrink_multistep(case, build):
    def fails(c):
        return run_multistep([c], build)[0].get("fail") is not None
    cur = case
    i = 0
    while i < len(cur["ops"]):
        cand = dict(cur, ops=cur["ops"][:i] + cur["ops"][i + 1:])
        if cand["ops"] and fails(cand):
            cur = cand
        else:
            i += 1
    return cur


MS_LABELS = [["a", 0], ["b", 0], ["c", 0], ["d", 0], ["g", 0], ["f", 0]]


def multistep_correspondence(ctx, cases, results, tag):
    """model mrun (coq/model/RefsPrint.v) against the dump() of the target manager after every operation"""
    cid = rc.class_ids()
    idx = [i for i, r in enumerate(results) if not r.get("skipped") and not r.get("generator_error") and r.get("dumps")]
    texts, ids = [], []
    for chunk in vlib.chunks(idx, 60):
        ft, chars = rc.FloatTokens(), set()
        items = []
        for i in chunk:
            c, r = cases[i], results[i]
            nsteps = len(r["dumps"])
            state_ops = [op for op in c["ops"] if op[0] != "iter"]
            def tm(t):
                rc.term_chars(t, chars)
                return rc.emit_term(t, ft, cid)
            def defs(lst):
                return "[" + "; ".join(f"({tm(t)}, {tm(e)})" for t, e in lst) + "]"
            ops = []
            for op in state_ops[:nsteps]:
                if op[0] == "load":
                    ops.append(f"MLoad {'true' if op[2] else 'false'} {defs(c['sources'][op[1]]['defs'])}")
                elif op[0] == "copy":
                    binds = "[" + "; ".join(f"({rc.clistN(cps(l))}, {tm(t)})" for l, t in op[3]) + "]"
                    # the model selects the definitions rooted in the requested container itself
                    ops.append(f"MCopy {'true' if op[4] else 'false'} (select_owner {rc.clistN(cps(op[2]))} {defs(c['sources'][op[1]]['defs'])}) {binds}")
                else:
                    ops.append(f"MAssign {tm(op[1])} " + ("None" if op[2][0] == "const" else f"(Some {tm(op[2])})"))
            cs = "[" + "; ".join(f"({rc.clistN(cps(l))}, (TTop {rc.clistN(cps(l))} {'true' if k else 'false'}))" for l, k in c.get("labels", MS_LABELS)) + "]"
            dumps = "[" + "; ".join("[" + "; ".join(f"({rc.clistN(a)}, {rc.clistN(b)})" for a, b in d) + "]" for d in r["dumps"]) + "]"
            items.append(f"({cs}, [" + "; ".join(ops) + f"], {dumps})")
        texts.append(rc.COQ_HEADER.format(extra="model.RefsPrint run.RunRefsRepr run.RunRefsPrint")
                     + "Definition cases : list (list (pystr * term) * list mop * list (list (pystr * pystr))) :=\n ["
                     + ";\n  ".join(items) + "].\n"
                     + f"Eval vm_compute in (hist_mismatches {rc.clistN(rc.printable_table(chars))} {ft.coq()} cases).\n")
        ids.append(chunk)
    mism = []
    for (rcode, so, se), chunk in zip(vlib.coq_eval_files(ctx, texts, tag), ids):
        lst = vlib.parse_nat_list(so) if rcode == 0 else None
        if lst is None:
            return None, len(idx), f"case evaluation failed (histories): rc={rcode} {se[-600:]} {so[-200:]}"
        mism += [chunk[k] for k in lst]
    return mism, len(idx), None


def root_label(t):
    while t[0] in ("item", "attr"):
        t = t[1]
    return t[1] if t[0] == "top" else None


# ---- source managers with several containers of mixed kinds --------------------------------------

MIXED_KINDS = {"c": "d", "ad": "ad", "ob": "obj", "li": "list", "v": "np", "er": "eqraise", "eo": "eqodd"}


def mixed_slots(label, rng):
    kind = MIXED_KINDS[label]
    top = ["top", label, 0]
    if kind in ("list", "np"):
        return [["item", top, ["const", L(i)]] for i in range(4)]
    if kind == "obj":
        return [["attr", top, cps(f"t{i}")] for i in range(3)]
    if kind == "ad":
        return [(["attr", top, cps(f"t{i}")] if rng.random() < 0.5 else ["item", top, ["const", L(f"t{i}")]]) for i in range(3)]
    return [["item", top, ["const", L(f"t{i}")]] for i in range(3)]


def mixed_data(labels):
    data = {"a": D(INPUT)}
    for lab in labels:
        kind = MIXED_KINDS[lab]
        if kind in ("list", "np"):
            data[lab] = [kind, [L(0.0) for _ in range(4)]]
        else:
            data[lab] = [kind, [[L(f"t{i}"), ["v", L(0)]] for i in range(3)]]
    return data


def gen_mixed_case(rng, labels=None):
    """a source manager with 2-4 target containers of different kinds, definitions in each of them; the
    definitions of each container are asked for in turn (iter_expr_tasks_owner, copy_expr_from), then a load"""
    labels = labels or rng.sample(sorted(MIXED_KINDS), rng.randint(2, 4))
    slots = [s for lab in labels for s in mixed_slots(lab, rng)]
    rng.shuffle(slots)
    slots = slots[:rng.randint(len(labels) + 1, min(len(slots), 8))]
    for lab in labels:       # every container gets at least one definition
        if not any(root_label(s) == lab for s in slots):
            slots.append(mixed_slots(lab, rng)[0])
    history, defs, earlier = [], {}, []
    for sl in slots:
        val = gen_num_expr(rng, "a", None, 0, depth=rng.choice([1, 2]), earlier=list(earlier))
        history.append([sl, val])
        defs[json.dumps(sl)] = [sl, val]
        earlier.append(sl)
    src = {"data": mixed_data(labels), "history": history, "defs": list(defs.values())}
    order = list(labels)
    rng.shuffle(order)
    ops = []
    for lab in order:
        ops.append(["iter", 0, lab])
        ops.append(["copy", 0, lab, [], rng.random() < 0.7])
    ops.append(["iter", 0, "a"])
    ops.append(["load", 0, True])
    for _ in range(rng.randint(1, 2)):
        ops.append(["assign", leaf("a", rng.choice(IN_LEAVES)), ["const", L(rng.choice([0, 1, -2, 3.5, 10]))]])
    return {"sources": [src], "target": {"data": mixed_data(labels)}, "ops": ops, "labels": [["a", 0]] + [[l, 0] for l in labels] + [["f", 0]]}


def mixed_corpus():
    import random
    r = random.Random(38)
    return [gen_mixed_case(r, ["c", "v"]), gen_mixed_case(r, ["v", "c", "er"]), gen_mixed_case(r, ["eo", "c"]),
            gen_mixed_case(r, ["li", "ob", "ad", "v"]), gen_mixed_case(r, ["er", "eo", "v", "c"])]


NODEPS_WITNESS = {
    "data": {"a": D({"x": 1.5}), "c": D({"z": 0})},
    "history": [[leaf("c", ["q"]), ["top", "a", 0]], [leaf("c", ["p"]), ["bin", "MulExpr", leaf("a", ["x"]), ["const", L(2)]]]],
    "followups": [],
    "copy": {"name": "c", "overwrite": True, "data": {"a": D({"x": 1.5}), "c": D({"z": 0})}, "bindings": [], "pre_history": [],
             "source_tasks": [[leaf("c", ["q"]), ["top", "a", 0]], [leaf("c", ["p"]), ["bin", "MulExpr", leaf("a", ["x"]), ["const", L(2)]]]],
             "check_reaction": False, "followups": []},
}


# ---- the check --------------------------------------------------------------------------------------

def run(ctx):
    ctx.rule = ("random expressions (depth <= 4) over every node class: 13 arithmetic/bitwise/shift and 4 comparison operators with "
                "references or int/float constants of either sign and exponent forms on either side, the deferred comparisons _eq / _neq, unary - + ~, abs / round(x[, n]) / "
                "divmod / math.floor / ceil / trunc, calls through references with positional and keyword arguments, item keys of any "
                "content (quotes, brackets, control characters, non-ASCII, lone surrogates, text containing container labels or printed "
                "expressions), int / float / computed keys, attribute and item access on expressions; containers a b c d f ref (Ref) and "
                "o (ObjectAttrRef) with symbolic values; plus assignment histories on numeric data for dump/load/copy_expr_from; "
                "non-trivial = an expression with an operator, builtin or call node / a history with >= 2 dependent definitions; "
                "distinct by printed text / by case")
    proof_ok = vlib.standard_proof_part(ctx, "props/C11.v", allowed_axioms=(),
                                        extra_targets=["run/RunRefsRepr.vo", "run/RunRefsPrint.vo"], translators=["refsrepr"])
    rng = ctx.rng
    n = ctx.pick(1500, 60000)
    exprs = corpus() + [gen_expr(rng, rng.choice([1, 2, 2, 3, 3, 4])) for _ in range(n)]
    seen, uniq = set(), []
    for t in exprs:
        s = json.dumps(t)
        if s not in seen:
            seen.add(s); uniq.append(t)
    exprs = uniq
    rebind = [["a", ["item", ["top", "b", 0], ["const", ["s", cps("inner")]]]],
              ["o", ["attr", ["top", "c", 0], cps("sub")]],
              ["ref", ["item", ["item", ["top", "d", 0], ["const", ["i", "0"]]], ["const", ["s", cps("ref_a")]]]]]
    res = {b: run_exprs(exprs, b, rebind if b == "compiled" else None) for b in ("compiled", "pure")}
    # -- oracle verdicts
    viol = []
    for b in ("compiled", "pure"):
        for i, r in enumerate(res[b]):
            v = expr_verdict(r, rebind=(b == "compiled"))
            if v:
                viol.append((b, i, v))
    ncase = sum(1 for r in res["compiled"] if "build_error" not in r)
    ctx.evaluations += 2 * ncase
    ctx.traces += ncase
    for t, r in zip(exprs, res["compiled"]):
        if "text" in r and t[0] in ("bin", "un", "builtin", "call"):
            ctx.nontrivial.add(rc.from_cps(r["text"]).encode("utf-8", "backslashreplace").decode())
    kinds = {}
    def count(t):
        if isinstance(t, list) and t:
            if t[0] in ("bin", "un"):
                kinds[t[1]] = kinds.get(t[1], 0) + 1
            elif t[0] == "builtin":
                kinds["builtin:" + t[1] + (f"/{len(t[3])}" if t[3] else "")] = kinds.get("builtin:" + t[1] + (f"/{len(t[3])}" if t[3] else ""), 0) + 1
            elif t[0] in ("item", "attr", "call", "top"):
                kinds[t[0]] = kinds.get(t[0], 0) + 1
            elif t[0] == "const":
                kinds["const:" + t[1][0]] = kinds.get("const:" + t[1][0], 0) + 1
            for x in t:
                if isinstance(x, list):
                    count(x)
    for t in exprs:
        count(t)
    ctx.samples = [{"expr": exprs[i], "text": rc.from_cps(res["compiled"][i].get("text", [])).encode("utf-8", "backslashreplace").decode()}
                   for i in (0, len(exprs) // 3, len(exprs) - 1)]
    ctx.obligations.append(("compiled and pure builds print every expression alike",
                            [r.get("text") for r in res["compiled"]] == [r.get("text") for r in res["pure"]], ""))
    ctx.obligations.append(("oracle: eval(str(e)) == e, same value, same dependencies (also under rebinding), both builds",
                            not viol, f"{len(viol)} failing of {ncase}"))
    # -- manager histories
    ncases = ctx.pick(250, 12000)
    mcases = [NODEPS_WITNESS] + [gen_manager_case(rng) for _ in range(ncases)]
    mres = {("compiled", 0): run_managers(mcases, "compiled", 0), ("pure", 1): run_managers(mcases, "pure", 1)}
    mviol = [(b, i, r["fail"]) for (b, hs), rs in mres.items() for i, r in enumerate(rs) if r.get("fail")]
    skipped = sum(1 for r in mres[("compiled", 0)] if r.get("skipped"))
    ctx.evaluations += 2 * sum(len(c["history"]) + len(c["followups"]) + len(c["copy"].get("followups", [])) for c in mcases)
    ctx.traces += 2 * (len(mcases) - skipped)
    for i, c in enumerate(mcases):
        if len(c["copy"]["source_tasks"]) >= 2:
            ctx.nontrivial.add(("mgr", i))
    ctx.obligations.append(("oracle: dump -> load -> same dump, same reaction to follow-ups; copy_expr_from gives the expected definitions "
                            "(rebinding, overwrite) and reactions", not mviol, f"{len(mviol)} failing of {2 * len(mcases)} (history raised in {skipped})"))
    # -- histories on one target manager (repeated load / copy_expr_from / assignment)
    hcases = multistep_corpus() + mixed_corpus() + [gen_multistep_case(rng) for _ in range(ctx.pick(150, 5000))] \
        + [gen_mixed_case(rng) for _ in range(ctx.pick(120, 4000))]
    hres = {("compiled", 0): run_multistep(hcases, "compiled", 0), ("pure", 1): run_multistep(hcases, "pure", 1)}
    generr = [r["generator_error"] for rs in hres.values() for r in rs if r.get("generator_error")]
    if generr:
        raise vlib.InfraError("multistep generator: simulated order of the source definitions differs from dump(): " + json.dumps(generr[0])[:800])
    hviol = [(b, i, r["fail"]) for (b, hs), rs in hres.items() for i, r in enumerate(rs) if r.get("fail")]
    hsteps = sum(len(r.get("dumps", [])) for r in hres[("compiled", 0)])
    ctx.evaluations += 2 * hsteps
    ctx.traces += 2 * sum(1 for r in hres[("compiled", 0)] if r.get("dumps"))
    for i, c in enumerate(hcases):
        seen_bind = False
        for op in c["ops"]:
            if op[0] == "copy" and op[3]:
                seen_bind = True
            elif seen_bind and op[0] in ("load", "copy"):
                ctx.nontrivial.add(("hist", i))
    ctx.obligations.append(("oracle: after EVERY operation of a history on one target manager (load | copy_expr_from plain / rebinding | assignment | "
                            "iter_expr_tasks_owner; sources with 2-4 containers of mixed kinds: dict, AttrDict, object, list, numpy array, == raising, == non-bool): "
                            "expected definitions, values equal to a manager defined directly, containers map untouched (identity, no new labels)",
                            not hviol, f"{len(hviol)} failing of {2 * len(hcases)} histories, {2 * hsteps} operations"))
    hmism, hcount, herr = multistep_correspondence(ctx, hcases, hres[("compiled", 0)], "h")
    ctx.obligations.append(("correspondence: model mrun (container map kept by every operation) = dump() after every operation",
                            herr is None and not hmism, herr or f"{len(hmism)} mismatching of {hcount} histories"))
    ctx.cov["input_distribution"] = {"expressions": len(exprs), "node_counts": dict(sorted(kinds.items())),
                                     "manager_cases": len(mcases), "multistep_histories": len(hcases), "multistep_operations": hsteps,
                                     "multistep_ops_by_kind": {k: sum(1 for c in hcases for op in c["ops"] if op[0] == k and (k != "copy" or bool(op[3]) == rb)) for k, rb in (("load", False), ("copy", False), ("assign", False))},
                                     "mixed_container_histories": sum(1 for c in hcases if "labels" in c),
                                     "mixed_container_kinds": {k: sum(1 for c in hcases if "labels" in c and any(l == k for l, _ in c["labels"])) for k in MIXED_KINDS},
                                     "iter_expr_tasks_owner_calls": sum(1 for c in hcases for op in c["ops"] if op[0] == "iter"),
                                     "multistep_rebinding_copies": sum(1 for c in hcases for op in c["ops"] if op[0] == "copy" and op[3]),
                                     "multistep_histories_with_a_plain_load_or_copy_after_a_rebinding_copy": sum(1 for k in ctx.nontrivial if isinstance(k, tuple) and k[0] == "hist"), "histories_skipped_because_the_history_itself_raised": skipped,
                                     "copy_modes": {m: sum(1 for c in mcases if len(c["copy"]["bindings"]) == k) for m, k in (("same", 0), ("rebind_input", 1), ("rebind_input_and_target", 2))},
                                     "copy_overwrite_true": sum(1 for c in mcases if c["copy"]["overwrite"])}
    # -- model correspondence
    mism, counts, err = model_correspondence(ctx, exprs, res["compiled"], "e", rebind)
    corr_ok = err is None and not any(mism.values()) and herr is None and not hmism
    for k, name in (("show", "model show = str(e) byte for byte"), ("tok", "model show_tokens = Python tokenize(str(e))"),
                    ("parse", "model parse = structure of eval(str(e))"), ("rebound", "model parse in a rebinding namespace = structure of eval")):
        ctx.obligations.append((f"correspondence: {name}", err is None and not (mism or {}).get(k),
                                err or f"{len(mism[k])} mismatching of {counts[k]}"))
    # -- decision
    if viol:
        b, i, v = viol[0]
        rb = rebind if b == "compiled" else None
        small = shrink_expr(exprs[i], expr_fails(b, rb))
        r = run_exprs([small], b, rb)[0]
        vlib.violation(ctx, {"kind": "oracle-expr", "what": v, "build": b, "expr": small, "rebind": rb,
                             "text": rc.from_cps(r.get("text", [])).encode("utf-8", "backslashreplace").decode(),
                             "result": {k: r.get(k) for k in ("eval", "is_ref", "eq", "value_same", "deps_same", "values", "deps", "rebound_ok", "rebound_error")},
                             "how_to_replay": "./check C11 --replay <this file>"})
    elif mviol:
        b, i, f = mviol[0]
        small = shrink_manager_case(mcases[i], b)
        r = run_managers([small], b)[0]
        vlib.violation(ctx, {"kind": "oracle-manager", "build": b, "case": small, "failure": r.get("fail") or f,
                             "how_to_replay": "./check C11 --replay <this file>"})
    elif hviol:
        b, i, f = hviol[0]
        small = shrink_multistep(hcases[i], b)
        r = run_multistep([small], b)[0]
        vlib.violation(ctx, {"kind": "oracle-history", "build": b, "case": small, "failure": r.get("fail") or f,
                             "how_to_replay": "./check C11 --replay <this file>"})
    elif not proof_ok or not corr_ok:
        what = list(getattr(ctx, "broken", []))
        if err:
            what.append(err)
        if herr:
            what.append(herr)
        if hmism:
            what.append(f"model mrun differs from dump() after some operation on {len(hmism)} histories, first: {json.dumps(hcases[hmism[0]]['ops'])[:600]}")
        first = None
        for k in ("show", "tok", "parse", "rebound"):
            if mism and mism.get(k):
                i = mism[k][0]
                allx = exprs
                allr = res["compiled"]
                first = first or {"kind": k, "expr": allx[i], "text": rc.from_cps(allr[i].get("text", [])).encode("utf-8", "backslashreplace").decode(),
                                  "rebuilt": allr[i].get("rebuilt")}
                what.append(f"correspondence '{k}' broke on {len(mism[k])} expressions")
        extra = [gen_expr(rng, rng.choice([2, 3, 4, 5])) for _ in range(6000)]
        found = None
        for b in ("compiled", "pure"):
            rs = run_exprs(extra, b)
            for t, r in zip(extra, rs):
                if expr_verdict(r):
                    found = (b, t)
                    break
            if found:
                break
        if found:
            b, t = found
            small = shrink_expr(t, expr_fails(b))
            r = run_exprs([small], b)[0]
            vlib.violation(ctx, {"kind": "oracle-expr", "build": b, "expr": small, "what": expr_verdict(r),
                                 "text": rc.from_cps(r.get("text", [])).encode("utf-8", "backslashreplace").decode(), "also_broken": what})
        else:
            vlib.violation(ctx, {"kind": "proof-or-correspondence", "no_longer_checks": what, "first_model_mismatch": first,
                                 "searched": f"{len(extra)} extra random expressions (depth <= 5) on both builds and {len(mcases)} manager histories: no failing input"},
                           no_input=True)


def replay(ctx, data):
    b = data.get("build", "compiled")
    if data.get("kind") == "oracle-expr" and data.get("expr"):
        r = run_exprs([data["expr"]], b, data.get("rebind"))[0]
        v = expr_verdict(r, bool(data.get("rebind")))
        print(json.dumps({"text": rc.from_cps(r.get("text", [])).encode("utf-8", "backslashreplace").decode(),
                          "result": {k: r.get(k) for k in ("eval", "is_ref", "eq", "value_same", "deps_same", "values", "deps", "rebound_ok")}}, indent=1))
        if v:
            print(f"VIOLATION property=C11 replay=(given) : {v}")
            return 1
        print("replay: the expression round-trips on this input")
        return 0
    if data.get("kind") == "oracle-manager" and data.get("case"):
        r = run_managers([data["case"]], b)[0]
        print(json.dumps(r.get("fail"), indent=1)[:3000])
        if r.get("fail"):
            print(f"VIOLATION property=C11 replay=(given) : {r['fail']['what']}")
            return 1
        print("replay: dump/load/copy_expr_from are faithful on this case")
        return 0
    if data.get("kind") == "oracle-history" and data.get("case"):
        r = run_multistep([data["case"]], b)[0]
        print(json.dumps(r.get("fail"), indent=1)[:3000])
        if r.get("fail"):
            print(f"VIOLATION property=C11 replay=(given) : {r['fail']['what']}")
            return 1
        print("replay: every operation of the history leaves the expected definitions, values and container map")
        return 0
    print("replay file names a broken theorem/correspondence, no concrete input:", data.get("no_longer_checks"))
    return 1
