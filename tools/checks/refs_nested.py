"""Nested layouts for C04/C05: containers with locations at every level (root
entries, members, members of members), some of which get definitions; probes of
the manager-consulting properties of MutableRef; in-place statements on
locations whose relatives (owners, members, siblings) have or lack definitions.
All randomness from the caller's rng."""
import json
import vlib
from checks import refs_shared as rs
from checks.refs_shared import I, Sx, val, cterm, clit, czv, cxres, cpexp, Unrep

OBJATTR = ["g"]


def arr(vals, dtype="int64"):
    if dtype == "float64":
        return ["arr", dtype, [len(vals)], [["f", float(v).hex()] for v in vals]]
    return ["arr", dtype, [len(vals)], [I(v) for v in vals]]


def layout(rng):
    iv = lambda: rng.choice([1, 2, 3, 4, 5, 7, 9, -2, -6])
    fl = rng.random() < 0.5
    c = [[Sx("k"), I(iv())], [Sx("n"), I(iv())], [Sx("z"), I(0)],
         [Sx("s"), Sx(rng.choice(["ab", "xyz"]))], [Sx("tp"), ["t", [I(iv()), I(iv())]]],
         [Sx("arr"), arr([iv(), iv(), iv()], "float64" if fl else "int64")],
         [Sx("lst"), ["l", [I(iv()), I(iv()), I(iv())]]],
         [Sx("d"), ["d", [[Sx("x"), I(iv())], [Sx("y"), I(iv())], [Sx("v"), ["l", [I(iv()), I(iv())]]],
                          [Sx("w"), arr([iv(), iv()])], [Sx("s2"), Sx("pq")]]]],
         [Sx("mm"), ["l", [["l", [I(iv()), I(iv())]], ["l", [I(iv()), I(iv())]]]]],
         [Sx("oo"), ["o", [["x", I(iv())], ["l", ["l", [I(iv()), I(iv())]]], ["a", arr([iv(), iv()])]]]]]
    o = [["x", I(iv())], ["y", I(iv())], ["p", ["o", [["x", I(iv())], ["q", ["l", [I(iv()), I(iv())]]]]]],
         ["arr", arr([iv(), iv(), iv()])], ["lst", ["l", [I(iv()), I(iv())]]]]
    g = [[Sx("u"), I(iv())], [Sx("gl"), ["l", [I(iv()), I(iv())]]]]
    return [["c", ["d", c]], ["o", ["o", o]], ["g", ["d", g]]]


def P(top, *steps):
    out = [top]
    for s in steps:
        if isinstance(s, int):
            out.append(["i", I(s)])
        elif s.startswith("."):
            out.append(["a", s[1:]])
        else:
            out.append(["i", Sx(s)])
    return out


# (path, kind of the value held)
LOCATIONS = [
    (P("c", "k"), "int"), (P("c", "n"), "int"), (P("o", ".x"), "int"), (P("o", ".y"), "int"), (P("g", "u"), "int"),
    (P("c", "s"), "str"), (P("c", "tp"), "tuple"), (P("c", "arr"), "arr"), (P("c", "lst"), "list"), (P("c", "d"), "dict"),
    (P("c", "mm"), "list"), (P("c", "oo"), "obj"), (P("o", ".p"), "obj"), (P("o", ".arr"), "arr"), (P("o", ".lst"), "list"),
    (P("g", "gl"), "list"),
    (P("c", "arr", 0), "num"), (P("c", "arr", 2), "num"), (P("c", "lst", 0), "int"), (P("c", "lst", 2), "int"),
    (P("c", "d", "x"), "int"), (P("c", "d", "y"), "int"), (P("c", "d", "v"), "list"), (P("c", "d", "v", 1), "int"),
    (P("c", "d", "w"), "arr"), (P("c", "d", "w", 0), "num"), (P("c", "d", "s2"), "str"),
    (P("c", "mm", 0), "list"), (P("c", "mm", 0, 1), "int"), (P("c", "mm", 1), "list"),
    (P("c", "oo", ".x"), "int"), (P("c", "oo", ".l"), "list"), (P("c", "oo", ".l", 0), "int"), (P("c", "oo", ".a"), "arr"),
    (P("c", "oo", ".a", 1), "num"),
    (P("o", ".p", ".x"), "int"), (P("o", ".p", ".q"), "list"), (P("o", ".p", ".q", 0), "int"), (P("o", ".arr", 1), "num"),
    (P("o", ".lst", 0), "int"), (P("g", "gl", 1), "int"), (P("c", "tp", 0), "int"),
]
SCALAR_SOURCES = [P("c", "k"), P("c", "n"), P("o", ".x"), P("o", ".y")]


def path_pexp(path):
    p = ["top", path[0], path[0] in OBJATTR]
    for kind, k in path[1:]:
        p = ["item", p, ["val", k]] if kind == "i" else ["attr", p, k]
    return p


def scalar_expr(rng):
    """an expression over the root scalars only (never over a member of a
    container that may be the target of an in-place statement)"""
    a, b = path_pexp(rng.choice(SCALAR_SOURCES)), path_pexp(rng.choice(SCALAR_SOURCES))
    k = rng.random()
    if k < 0.35:
        return ["bin", rng.choice(["OMul", "OAdd", "OSub"]), a, val(rng.choice([2, 3, 10]))]
    if k < 0.6:
        return ["bin", rng.choice(["OAdd", "OSub", "OMul"]), a, b]
    if k < 0.75:
        return ["un", rng.choice(["UNeg", "UPos"]), a]
    if k < 0.9:
        return ["builtin", "FAbs", ["bin", "OSub", a, b], []]
    return ["bin", "OAdd", val(rng.choice([1, 5])), ["bin", "OMul", a, b]]


# new root entries defined by a container-valued expression: (path, expression, kind, member paths)
def container_defs():
    lst, arr_, olst = path_pexp(P("c", "lst")), path_pexp(P("c", "arr")), path_pexp(P("o", ".lst"))
    return [
        (P("c", "e1"), ["bin", "OAdd", lst, lst], "list", [(P("c", "e1", 0), "int"), (P("c", "e1", 4), "int")]),
        (P("c", "e2"), ["bin", "OMul", arr_, val(2)], "arr", [(P("c", "e2", 1), "num")]),
        (P("o", ".e3"), ["bin", "OAdd", olst, lst], "list", [(P("o", ".e3", 1), "int")]),
        (P("c", "d", "e4"), ["bin", "OMul", path_pexp(P("c", "tp")), val(2)], "tuple", []),
        (P("c", "e5"), ["bin", "OAdd", path_pexp(P("c", "s")), path_pexp(P("c", "d", "s2"))], "str", []),
    ]


def is_prefix(a, b):
    return len(a) < len(b) and b[:len(a)] == a


def operand_for(rng, kind, own, target=None):
    """an operator and an operand that make sense (or raise) for the kind of value held;
    a reference operand is never the target itself (x op= x defines x by itself)"""
    lit_ref = lambda: path_pexp(rng.choice([p for p in SCALAR_SOURCES if p != target]))
    if kind in ("int", "num"):
        op = rng.choice(rs.INPLACE)
        if op in ("OPow", "OLshift", "ORshift"):
            return op, val(rng.choice([0, 1, 2, 3]))
        if op == "OMatmul":
            return op, val(2)
        if rng.random() < 0.3 and kind == "int":
            return op, lit_ref()
        return op, val(rng.choice([0, 1, 2, 3, 5, -2]))
    if kind == "arr":
        op = rng.choice(["OAdd", "OSub", "OMul", "OPow", "OTruediv", "OFloordiv", "OMod", "OAdd", "OMul", "OAnd", "OLshift"])
        return op, val(rng.choice([1, 2, 3]))
    if kind == "list":
        k = rng.random()
        if k < 0.35 and not own:
            return "OAdd", ["val", ["l", [I(7)]]]            # a list operand: plain Python on plain values
        if k < 0.7:
            return "OMul", val(rng.choice([0, 2, 3]))
        if k < 0.85:
            return "OAdd", ["val", ["t", [I(3)]]]            # list + tuple: TypeError either way
        return rng.choice(["OSub", "OAdd", "OFloordiv"]), val(1)
    if kind == "tuple":
        return rng.choice([("OAdd", ["val", ["t", [I(3), I(4)]]]), ("OMul", val(2)), ("OSub", val(1))])
    if kind == "str":
        return rng.choice([("OAdd", ["val", Sx("c")]), ("OMul", val(2)), ("OMod", val(3)), ("OAdd", val(1))])
    return rng.choice([("OAdd", val(1)), ("OMul", val(2)), ("OOr", val(1))])       # dict / object: raises


EVAL_NAMES = {"c": (P("c"), ["k", "n", "z"]), "d": (P("c", "d"), ["x", "y"]), "g": (P("g"), ["u"])}


def gen_eval(rng):
    where = rng.choice(list(EVAL_NAMES))
    at, names = EVAL_NAMES[where]
    nm = lambda: rng.choice(names)

    def e(d):
        if d == 0 or rng.random() < 0.3:
            if rng.random() < 0.7:
                n = nm()
                return n, ["item", path_pexp(at), ["val", Sx(n)]]
            v = rng.choice([1, 2, 3, 7])
            return str(v), val(v)
        if rng.random() < 0.2:
            t, p = e(d - 1)
            if p[0] == "val":
                n = nm(); t, p = n, ["item", path_pexp(at), ["val", Sx(n)]]
            return f"(-{t})", ["un", "UNeg", p]
        sym, op = rng.choice([("+", "OAdd"), ("-", "OSub"), ("*", "OMul"), ("//", "OFloordiv"), ("%", "OMod"), ("<", "OLt"), (">=", "OGe"), ("**", "OPow"), ("&", "OAnd")])
        (t1, p1), (t2, p2) = e(d - 1), e(d - 1)
        if p1[0] == "val" and p2[0] == "val":
            n = nm(); t1, p1 = n, ["item", path_pexp(at), ["val", Sx(n)]]
        return f"({t1} {sym} {t2})", ["bin", op, p1, p2]
    t, p = e(rng.choice([1, 2, 3]))
    if p[0] == "val":
        n = nm(); t, p = n, ["item", path_pexp(at), ["val", Sx(n)]]
    return {"at": at, "text": t, "pexp": p}


def gen_case(rng, with_stmts=True):
    st = layout(rng)
    locs = list(LOCATIONS)
    defs, defined = [], []
    cds = rng.sample(container_defs(), rng.choice([0, 1, 1, 2, 3]))
    for path, pexp, kind, members in cds:
        defs.append({"target": path, "pexp": pexp}); defined.append(path)
        locs.append((path, kind)); locs += members
    scalars = [(p, k) for p, k in locs if k in ("int", "num") and p not in SCALAR_SOURCES and p[:2] != P("c", "tp")]
    for path, kind in rng.sample(scalars, rng.choice([1, 2, 3, 4, 5])):
        defs.append({"target": path, "pexp": scalar_expr(rng)}); defined.append(path)
    if rng.random() < 0.3:       # a root scalar defined from other root scalars
        defs.append({"target": P("c", "r0"), "pexp": scalar_expr(rng)}); defined.append(P("c", "r0")); locs.append((P("c", "r0"), "int"))
    case = {"state": st, "objattr": OBJATTR, "defs": defs, "probes": [p for p, _ in locs], "evals": [gen_eval(rng) for _ in range(2)],
            "stmts": [], "assign_last": False}
    if with_stmts:
        # prefer locations whose relatives have definitions: owners of defined members,
        # members/siblings of defined locations, the defined locations themselves
        related = [(p, k) for p, k in locs if any(is_prefix(p, d) or is_prefix(d, p) or (d[:-1] == p[:-1] and d != p) or d == p for d in defined)]
        pool = related * 3 + locs
        stmts = []
        for path, kind in rng.sample(pool, min(len(pool), 14)):
            own = path in defined
            op, operand = operand_for(rng, kind, own, path)
            stmts.append({"target": path, "op": op, "operand": operand, "kind": kind})
        # the last statement is really assigned; it must not write into a tuple
        stmts = [s for s in stmts if s["target"][:2] != P("c", "tp")] + []
        case["stmts"] = stmts
        case["assign_last"] = bool(stmts)
    return case


def relation_of(case, stmt):
    """how the target of a statement relates to the defined locations"""
    t = stmt["target"]
    ds = [d["target"] for d in case["defs"]]
    tags = []
    if t in ds:
        tags.append("own")
    if any(is_prefix(t, d) for d in ds):
        tags.append("owner-of-defined")
    if any(is_prefix(d, t) for d in ds):
        tags.append("member-of-defined")
    if any(d[:-1] == t[:-1] and d != t for d in ds):
        tags.append("sibling-of-defined")
    return "+".join(tags) or "unrelated"


def czv_any(v):
    try:
        return czv(v)
    except Unrep:
        return "(ZOpaque 0%N)"


def emit(case, rec):
    """Coq text of a c04ncase, or None"""
    try:
        m = vlib.clist([f"({cterm(t)}, {cterm(e)})" for t, e in rec["tasks"]])
        ps = []
        for pr in rec["probes"]:
            if "error" in pr:
                return None
            ex = "None" if pr["expr"] is None else f"(Some {cterm(pr['expr'])})"
            ps.append(f"({cterm(pr['ref'])}, {ex}, {vlib.clist([cterm(x) for x in pr['tasks']])}, {vlib.clist([cterm(x) for x in pr['dependants']])})")
        ss = []
        for st, r in zip(case["stmts"], rec["stmts"]):
            if "skipped" in r or "returned" not in r:
                continue
            try:
                try:
                    ol = f"(Some {clit(r['old_lit'])})"
                except Unrep:
                    ol = "None"
                ret = f"(OExpr {cterm(r['returned'][1])})" if r["returned"][0] == "expr" else f"(OVal {cxres(r['returned'][1])})"
                ss.append(f"({st['op']}, {cterm(r['target_term'])}, {czv_any(r['old'])}, {ol}, {cterm(r['other_term'])}, {ret})")
            except Unrep:
                continue       # e.g. a list operand: not a literal of the term syntax (judged by the Python oracle)
        return f"({m}, {vlib.clist(ps)}, {vlib.clist(ss)})", len(ps), len(ss)
    except Unrep:
        return None


def run_stream(ctx, ids, cases, tag):
    """runs the cases on both builds; returns (results per build, oracle failures, build diffs,
    coq mismatching case indices, counts)"""
    classes, fns = ids
    parts = list(vlib.chunks(cases, max(1, (len(cases) + 15) // 16)))
    both = rs.run_both([{"mode": "c04nested", "classes": classes, "fns": fns, "cases": p} for p in parts])
    res = {b: [r for part in both[b] for r in part["results"]] for b in both}
    oracle_fail, build_diff = [], []
    for i, c in enumerate(cases):
        if rs.has_error(res, i):
            continue          # reported by the caller through rs.case_errors(res)
        for b in ("compiled", "pure"):
            if res[b][i].get("oracle"):
                oracle_fail.append((i, b))
        a, p = res["compiled"][i], res["pure"][i]
        if ("setup_error" in a) != ("setup_error" in p):
            build_diff.append(i)
        elif "setup_error" not in a:
            strip = lambda r: json.dumps([r["tasks"], [sorted(map(json.dumps, x.get("tasks", []))) for x in r["probes"]],
                                          [x.get("expr") for x in r["probes"]], [x.get("returned") for x in r["stmts"]]], sort_keys=True)
            if strip(a) != strip(p):
                build_diff.append(i)
    items, idx, nprobes, nstmts = [], [], 0, 0
    eval_items = []
    for i, c in enumerate(cases):
        r = res["compiled"][i]
        if "setup_error" in r or rs.has_error(res, i):
            continue
        e = emit(c, r)
        if e is not None:
            items.append(e[0]); idx.append(i); nprobes += e[1]; nstmts += e[2]
        for ev, t in zip(c.get("evals", []), r.get("evals", [])):
            if t is not None:
                try:
                    eval_items.append(f"({cpexp(ev['pexp'])}, {cterm(t)}, [])")
                except Unrep:
                    pass
    return res, oracle_fail, build_diff, items, idx, eval_items, nprobes, nstmts


def case_fails(case, ids, build):
    classes, fns = ids
    r = vlib.run_impl("refs_runner.py", {"mode": "c04nested", "classes": classes, "fns": fns, "cases": [case]}, build=build)["results"][0]
    return bool(r.get("oracle")), r


def shrink(case, ids, build):
    cur = case
    for key in ("stmts", "evals", "probes", "defs"):
        i = 0
        while i < len(cur[key]):
            cand = dict(cur); cand[key] = cur[key][:i] + cur[key][i + 1:]
            if key == "stmts" and cur.get("assign_last") and i == len(cur[key]) - 1:
                cand["assign_last"] = False
            try:
                bad, r = case_fails(cand, ids, build)
                bad = bad and "setup_error" not in r
            except vlib.InfraError:
                bad = False
            if bad:
                cur = cand
            else:
                i += 1
    return cur
