#!/bin/sh
# usage: tools/seedtest.sh (revert:<commit> | <patch file>) <check id>...
# Runs the given checks against a scratch copy of /repo with one fix reverted or a
# seeded patch applied (VERIF_REPO), prints each exit code, removes the copy.
set -u
what="$1"; shift
case "$what" in revert:*) ;; /*) ;; *) what="$(pwd)/$what" ;; esac
d=$(mktemp -d /tmp/seedrepo.XXXXXX)
git -C /repo worktree add -q --detach "$d/repo" HEAD || exit 2
case "$what" in
  revert:*) git -C "$d/repo" revert --no-edit "${what#revert:}" >/dev/null 2>&1 || { echo "revert failed"; git -C /repo worktree remove --force "$d/repo"; exit 2; } ;;
  *) git -C "$d/repo" apply "$what" || { echo "patch failed"; git -C /repo worktree remove --force "$d/repo"; exit 2; } ;;
esac
for id in "$@"; do
  VERIF_REPO="$d/repo" /verif/check "$id" --tier "${TIER:-quick}" > "$d/out.$id" 2>&1
  rc=$?
  echo "== $id rc=$rc  $(grep -c '^VIOLATION' "$d/out.$id") violation line(s)"
  grep '^VIOLATION\|INFRASTRUCTURE\|^KNOWN' "$d/out.$id" | head -3
done
git -C /repo worktree remove --force "$d/repo"; rm -rf "$d"
