"""C06 runner: builds access paths on the REAL xdeps twice, independently
(version A through the public operators `ref[key]` / `getattr(ref, name)` on one
manager; version B through the constructors ItemRef/AttrRef on another manager
with its own container refs) and reports

  * repr(ref) of every path as code points (compared with the Coq model);
  * the verdict of the property's own oracle on pairs (A_i, B_j):
        same path      =>  A_i == B_j, hash(A_i) == hash(B_j), {A_i: 1}.get(B_j) == 1
        different path =>  not (A_i == B_j), {A_i: 1}.get(B_j) is None,
                           and hash(A_i) != hash(B_j) unless the differing keys
                           themselves have equal Python hashes (e.g. -1 / -2)
    "same path" = same label and the same sequence of steps with equal keys,
    decided on the generating descriptions (never on the objects).

stdin : {"paths": [pathdesc], "mode": "allpairs" | "dict" | "repr", "sample_eq": [[i, j], ...]}
stdout: {"reprs": [[cp]], "failures": [...], "counts": {...}, "eq": [bool]}
"""
import sys, json
import xdeps as xd
from xdeps.refs import Ref, ObjectAttrRef, ItemRef, AttrRef


def mk_key(l):
    k = l[0]
    if k == "i":
        return int(l[1])
    if k == "f":
        return float.fromhex(l[1])
    if k == "s":
        return "".join(chr(c) for c in l[1])
    if k == "t":
        return tuple(mk_key(x) for x in l[1])
    if k == "b":
        return bool(l[1])
    if k == "n":
        return None
    raise ValueError(l)


class Builder:
    def __init__(self, style):
        self.style = style
        self.mgr = xd.Manager()
        self.roots = {}

    def root(self, label, kind):
        if label not in self.roots:
            if self.style == "api":
                self.roots[label] = self.mgr.refattr({}, label) if kind else self.mgr.ref({}, label)
            else:
                self.roots[label] = (ObjectAttrRef if kind else Ref)({}, label, self.mgr)
        return self.roots[label]

    def build(self, p):
        r = self.root(p["l"], p["k"])
        for st in p["s"]:
            if st[0] == "i":
                key = mk_key(st[1])
                r = r[key] if self.style == "api" else ItemRef(r, key, self.mgr)
            else:
                name = "".join(chr(c) for c in st[1])
                r = getattr(r, name) if self.style == "api" else AttrRef(r, name, self.mgr)
        return r


def canon(p):
    return json.dumps(p, sort_keys=True)


def explained_collision(p, q):
    """distinct paths may share a hash only when they differ in keys whose own
    Python hashes coincide"""
    if p["l"] != q["l"] or p["k"] != q["k"] or len(p["s"]) != len(q["s"]):
        return False
    for a, b in zip(p["s"], q["s"]):
        if a == b:
            continue
        if a[0] != b[0]:
            return False
        if a[0] == "a":
            ka, kb = "".join(map(chr, a[1])), "".join(map(chr, b[1]))
        else:
            ka, kb = mk_key(a[1]), mk_key(b[1])
        if hash(ka) != hash(kb):
            return False
    return True


def main():
    inp = json.load(sys.stdin)
    paths = inp["paths"]
    A, B = Builder("api"), Builder("ctor")
    ra = [A.build(p) for p in paths]
    rb = [B.build(p) for p in paths]
    out = {"reprs": [[ord(c) for c in repr(r)] for r in ra], "failures": [], "counts": {}, "eq": []}
    # the two construction styles must print alike (else "same path" objects differ already)
    mode = inp.get("mode", "repr")
    can = [canon(p) for p in paths]
    fails, n_pairs, n_same, n_coll = [], 0, 0, 0
    if mode == "allpairs":
        for i, a in enumerate(ra):
            d = {a: 1}
            ha = hash(a)
            for j, b in enumerate(rb):
                same = can[i] == can[j]
                eq = bool(a == b)
                heq = ha == hash(b)
                sel = d.get(b) == 1
                n_pairs += 1
                n_same += same
                if same:
                    ok = eq and heq and sel
                else:
                    ok = (not eq) and (not sel)
                    if heq:
                        n_coll += 1
                        if not explained_collision(paths[i], paths[j]):
                            ok = False
                if not ok and len(fails) < 200:
                    fails.append({"i": i, "j": j, "same": same, "eq": eq, "hash_eq": heq, "dict_hit": sel})
    elif mode == "dict":
        # large family: one dictionary keyed by version A, looked up with version B
        d = {}
        for i, a in enumerate(ra):
            d[a] = i
        n_pairs = len(ra)
        first = {}
        for i, c in enumerate(can):
            first.setdefault(c, i)
        if len(d) != len(first) and len(fails) < 200:
            fails.append({"kind": "dict-size", "entries": len(d), "distinct_paths": len(first)})
        for j, b in enumerate(rb):
            got = d.get(b)
            want = max(i for i, c in enumerate(can) if c == can[j]) if len(first) != len(can) else j
            if got != want and len(fails) < 200:
                fails.append({"kind": "dict-lookup", "j": j, "got": got, "want": want})
            if hash(b) != hash(ra[j]) and len(fails) < 200:
                fails.append({"kind": "hash", "j": j})
        n_same = len(ra)
        n_coll = len(ra) - len({hash(a) for a in ra})
    for i, j in inp.get("sample_eq", []):
        out["eq"].append(bool(ra[i] == rb[j]))
    out["failures"] = fails
    out["counts"] = {"pairs": n_pairs, "same": n_same, "hash_collisions_between_distinct": n_coll}
    json.dump(out, sys.stdout)


if __name__ == "__main__":
    main()
