"""C16 runner: SVD.lstsq, the first Jacobian step / solve() on linear problems,
weights and rescale_x round trips, and view Jacobians on the REAL xdeps, each
with the verdict of an independent numerical oracle.  Everything here is
floating point: validated, not proved.

stdin : {"cases": [...], "code": <gen_opt.py --json or null>}
stdout: {"results": [...]}   result = {"obs": {...}, "fails": [[tag, text, numbers...], ...]}
"""
import sys, json, math, io, contextlib
import numpy as np
import xdeps as xd
from xdeps.optimize.matrixutils import SVD
from xdeps.optimize.optimize import Optimize, Vary, Target, ActionCall

EPS = float(np.finfo(float).eps)


def arr(x):
    """nested lists of float.hex() strings -> ndarray"""
    if isinstance(x, str):
        return float.fromhex(x)
    return np.array([arr(v) for v in x], dtype=float)


def hx(a):
    a = np.asarray(a, dtype=float)
    if a.ndim == 0:
        return float(a).hex()
    return [hx(v) for v in a]


def quiet(f, *a, **k):
    buf = io.StringIO()
    with contextlib.redirect_stdout(buf):
        return f(*a, **k)


# ---- interpretation of the ASTs extracted by tools/py2v/gen_opt.py (validates the translator) ----
def aeval(e, env, fenv=None):
    k = e[0]
    if k == "var":
        return env[e[1]]
    if k == "num":
        return float(e[1])
    if k == "first":
        return env[e[1]][0]
    if k == "add":
        return aeval(e[1], env, fenv) + aeval(e[2], env, fenv)
    if k == "sub":
        return aeval(e[1], env, fenv) - aeval(e[2], env, fenv)
    if k == "mul":
        return aeval(e[1], env, fenv) * aeval(e[2], env, fenv)
    if k == "div":
        return aeval(e[1], env, fenv) / aeval(e[2], env, fenv)
    if k == "app":
        return fenv[e[1]](aeval(e[2], env, fenv))
    if k == "dot":
        return np.dot(env[e[1]], env[e[2]])
    raise ValueError(e)


def meval(e, env):
    k = e[0]
    if k == "v":
        return env[e[1]]
    if k == "tr":
        return meval(e[1], env).T
    if k == "diag":
        return np.diag(meval(e[1], env))
    return meval(e[1], env) @ meval(e[2], env)


def interp_lstsq(code, svd, b, rcond, cutoff):
    """the extracted lstsq code run on the factors of this SVD object"""
    vals = {"rcond": rcond, "sing_val_cutoff": cutoff}
    for name, attr in code["defaults"]:
        if vals[name] is None:
            vals[name] = getattr(svd, attr)
    env = {"b": b}
    for name, src, axis, stop in code["slices"]:
        a = getattr(svd, src)
        env[name] = a[:vals[stop]] if axis == 0 else a[:, :vals[stop]]
    s = env["s"]
    s_inv = np.zeros_like(s)
    with np.errstate(all="ignore"):
        for mk in code["masks"]:
            if mk["guard"] is not None and vals[mk["guard"]] is None:
                continue
            menv = {"s": s, "rcond": vals["rcond"]}
            lhs, rhs = aeval(mk["lhs"], menv), aeval(mk["rhs"], menv)
            mask = {"lt": lhs < rhs, "le": lhs <= rhs, "gt": lhs > rhs, "ge": lhs >= rhs}[mk["op"]]
            val = aeval(mk["value"], menv)
            s_inv[mask] = val[mask] if isinstance(val, np.ndarray) else val
    env["s_inv"] = s_inv
    return meval(code["formula"], env)


# ---- SVD.lstsq ----------------------------------------------------------------------------------
def relerr(a, b):
    a, b = np.asarray(a, float), np.asarray(b, float)
    d = float(np.linalg.norm(a - b))
    return d / max(float(np.linalg.norm(b)), 1e-300) if d > 0 else 0.0


def case_lstsq(c, code):
    A, b = arr(c["A"]), arr(c["b"])
    r0, c0, r1, c1 = c["ctor_rcond"], c["ctor_cutoff"], c["rcond"], c["cutoff"]
    r1 = None if r1 is None else float.fromhex(r1)
    kw = {}
    if r0 != "default":
        kw["rcond"] = None if r0 is None else float.fromhex(r0)
    if c0 is not None:
        kw["sing_val_cutoff"] = c0
    svd = SVD(A, **kw)
    for pr, pc in c.get("pre_calls", []):          # earlier calls on the same object, other settings
        svd.lstsq(b, rcond=None if pr is None else float.fromhex(pr), sing_val_cutoff=pc)
    x = np.asarray(svd.lstsq(b, rcond=r1, sing_val_cutoff=c1), dtype=float)
    fails, obs = [], {"x": hx(x), "s": hx(svd.s)}
    U, s, Vh = svd.U, svd.s, svd.Vh
    k = len(s)
    scale = max(float(np.linalg.norm(A)), 1e-300)
    # numpy.linalg.svd really returned a decomposition
    e_rec = float(np.linalg.norm((U * s) @ Vh - A)) / scale
    e_u = float(np.linalg.norm(U.T @ U - np.eye(k)))
    e_v = float(np.linalg.norm(Vh @ Vh.T - np.eye(k)))
    sorted_ok = bool(np.all(s[:-1] >= s[1:])) and bool(np.all(s >= 0))
    obs.update({"svd_reconstruction": e_rec, "svd_orth_u": e_u, "svd_orth_v": e_v})
    if e_rec > 1e-12 * max(A.shape) or e_u > 1e-12 * k or e_v > 1e-12 * k or not sorted_ok or U.shape != (A.shape[0], k) or Vh.shape != (k, A.shape[1]):
        fails.append(["svd", "numpy.linalg.svd factors are not a decomposition with orthonormal columns", e_rec, e_u, e_v])
    # the retained singular values, by the documented rules
    rc = r1 if r1 is not None else svd.rcond
    cut = c1 if c1 is not None else svd.sing_val_cutoff
    idx = list(range(k))[:cut]
    keep, ambiguous = [], False
    for i in idx:
        if not s[i] > 0:
            continue
        if rc is not None:
            thr = rc * s[idx[0]]
            if c.get("exact_s") is None and abs(s[i] - thr) <= 1e-9 * s[0] and thr > 1e-200:
                ambiguous = True       # the decision depends on the last bits of the decomposition
            if s[i] < thr:
                continue
        keep.append(i)
    if c.get("exact_s") is not None and [float(v).hex() for v in s] != c["exact_s"]:
        ambiguous = True               # the tie case only counts when the singular values are exactly as constructed
    obs["keep"] = keep
    obs["ambiguous_threshold"] = ambiguous
    if not ambiguous:
        Uk, sk, Vk = U[:, keep], s[keep], Vh[keep, :]
        sk_div = sk if b.ndim == 1 else sk[:, None]          # b may hold several right-hand sides (m, p)
        x_ref = Vk.T @ ((Uk.T @ b) / sk_div) if keep else np.zeros((A.shape[1],) + b.shape[1:])
        cond_keep = float(sk[0] / sk[-1]) if keep else 1.0
        tol = 1e-9 + 64 * EPS * cond_keep
        e = relerr(x, x_ref) if float(np.linalg.norm(x_ref)) > 0 else float(np.linalg.norm(x))
        obs["err_vs_reference"] = e
        if x.shape != x_ref.shape or not np.all(np.isfinite(x)) or e > tol:
            fails.append(["lstsq", "SVD.lstsq differs from the minimum-norm least-squares solution restricted to the retained singular values",
                          hx(x), hx(x_ref), e])
        # numpy's own pseudo-inverse of the restricted system (when it is well enough conditioned for pinv's own cutoff)
        if keep and cond_keep < 1e6:
            Ak = (Uk * sk) @ Vk
            x_pinv = np.linalg.pinv(Ak, rcond=1e-13) @ b
            e2 = relerr(x, x_pinv) if float(np.linalg.norm(x_pinv)) > 0 else float(np.linalg.norm(x))
            obs["err_vs_pinv"] = e2
            if e2 > 1e-6:      # sanity check only: pinv runs its own SVD with its own cutoff on a nearly rank-deficient product
                fails.append(["pinv", "SVD.lstsq differs from numpy.linalg.pinv of the restricted system", hx(x), hx(x_pinv), e2])
            # normal equations and minimum norm, numerically
            r = Ak @ x - b
            ne = float(np.linalg.norm(Ak.T @ r)) / max(float(np.linalg.norm(Ak)) * max(float(np.linalg.norm(b)), 1e-300), 1e-300)
            out = float(np.linalg.norm(x - Vk.T @ (Vk @ x))) / max(float(np.linalg.norm(x)), 1e-300)
            obs["normal_eq"] = ne
            obs["outside_row_space"] = out
            if ne > 1e-7 or out > 1e-9:
                fails.append(["normal-eq", "normal equations / minimum norm violated numerically", ne, out])
    if code is not None:
        xi = np.asarray(interp_lstsq(code["lstsq"], svd, b, r1, c1), dtype=float)
        same = xi.shape == x.shape and (np.array_equal(xi, x) or relerr(xi, x) <= 1e-12)
        obs["translator_agrees"] = bool(same)
        if not same:
            fails.append(["translator", "the extracted lstsq code, interpreted with numpy, differs from SVD.lstsq", hx(x), hx(xi)])
    return {"obs": obs, "fails": fails}


# ---- linear problems -----------------------------------------------------------------------------
def mk_opt(c, x0=None):
    A, t = arr(c["A"]), arr(c["t"])
    n = A.shape[1]
    w = arr(c["weights"])
    lim = arr(c["limits"])
    steps = arr(c["steps"])
    tw = arr(c["target_weights"])
    cont = {f"k{i}": float(v) for i, v in enumerate(arr(c["x0"]) if x0 is None else x0)}
    vary = [Vary(f"k{i}", cont, limits=(float(lim[i][0]), float(lim[i][1])), step=float(steps[i]), weight=float(w[i])) for i in range(n)]
    kind = c.get("fun", "linear")

    def fun(x):
        x = np.array(x, dtype=float)
        if kind == "linear":
            return A @ x
        return A @ x + 0.1 * np.sin(A @ x)
    act = ActionCall(fun, vary)
    targets = act.get_targets(list(t))
    for i, tt in enumerate(targets):
        tt.tol = float.fromhex(c["tol"])
        tt.weight = float(tw[i])
    opt = quiet(Optimize, vary=vary, targets=targets, show_call_counter=False, n_steps_max=c.get("n_steps_max", 20))
    return opt, cont, fun


def case_newton(c, code):
    A, t, xs = arr(c["A"]), arr(c["t"]), arr(c["xstar"])
    n = A.shape[1]
    fails, obs = [], {}
    opt, cont, fun = mk_opt(c)
    x0 = arr(c["x0"])
    quiet(opt.step, 1)
    x1 = np.array([cont[f"k{i}"] for i in range(n)])
    s = np.linalg.svd(A * arr(c["target_weights"])[:, None] * arr(c["weights"])[None, :], compute_uv=False)
    cond = float(s[0] / s[-1])
    hmin = float(np.min(np.abs(arr(c["steps"]) / arr(c["weights"]))))
    # finite-difference rounding: each entry of J carries about eps*|f|/h
    fscale = float(np.linalg.norm(A @ x0 - t) + np.linalg.norm(t) + np.linalg.norm(A) * np.linalg.norm(x0))
    jerr = 16 * EPS * fscale / hmin / max(float(s[-1]) / float(np.max(arr(c["weights"]))) , 1e-300)
    tol = (1e-9 + 50 * jerr * cond) * (1 + float(np.linalg.norm(x0 - xs)))
    e = float(np.linalg.norm(x1 - xs))
    obs.update({"x1": hx(x1), "err_after_one_step": e, "tol": tol, "cond": cond})
    if not np.all(np.isfinite(x1)) or e > tol:
        fails.append(["newton", "the first Jacobian step does not land on the solution of the linear problem", hx(x1), hx(xs), e, tol])
    for bro in (False, True):
        opt2, cont2, _ = mk_opt(c)
        try:
            quiet(opt2.solve, broyden=bro)
            ok = bool(opt2._err.last_point_within_tol)
            xe = np.array([cont2[f"k{i}"] for i in range(n)])
            res = float(np.max(np.abs(A @ xe - t)))
            obs[f"solve_broyden_{bro}"] = [ok, res, len(opt2._log["penalty"])]
            if not ok or res > 10 * float.fromhex(c["tol"]):
                fails.append(["solve", f"solve(broyden={bro}) returned without reaching the tolerance", res])
        except Exception as ex:
            obs[f"solve_broyden_{bro}"] = ["exception", type(ex).__name__, str(ex)[:120]]
            fails.append(["solve", f"solve(broyden={bro}) raised {type(ex).__name__}: {str(ex)[:120]}"])
    return {"obs": obs, "fails": fails}


def ulps(a, b, scale):
    return float(np.max(np.abs(np.asarray(a) - np.asarray(b)) / (EPS * np.maximum(scale, 1e-300))))


def case_roundtrip(c, code):
    fails, obs = [], {}
    opt, cont, fun = mk_opt(c)
    mf = opt._err
    w = arr(c["weights"])
    k = arr(c["knobs"])
    x = mf._knobs_to_x(k)
    k2 = mf._x_to_knobs(x)
    x2 = mf._knobs_to_x(mf._x_to_knobs(k))      # k read as an x vector
    u1 = ulps(k2, k, np.abs(k))
    u2 = ulps(x2, k, np.abs(k))
    obs["weights_ulps"] = [u1, u2]
    if u1 > 2 or u2 > 2:
        fails.append(["weights", "_x_to_knobs / _knobs_to_x are not inverse to each other within 2 ulp", hx(k), hx(k2), hx(x2), u1, u2])
    if not np.allclose(x * w, k, rtol=4 * EPS, atol=0):
        fails.append(["weights", "_knobs_to_x is not knob / weight", hx(k), hx(x)])
    s0, s1 = float.fromhex(c["scaled_range"][0]), float.fromhex(c["scaled_range"][1])
    view = opt.get_merit_function(rescale_x=(s0, s1), check_limits=False)
    bounds = mf._get_x_limits()
    lo, hi = bounds[:, 0], bounds[:, 1]
    xs = arr(c["xs"])
    nat = view._scaled_to_native(xs)
    back = view._scaled_from_native(nat)
    amp = 1 + (np.abs(lo) + np.abs(hi)) / np.abs(hi - lo)
    ua = ulps(back, xs, (abs(s0) + abs(s1) + np.abs(xs)) * amp)
    xn = arr(c["xn"])
    sc = view._scaled_from_native(xn)
    back2 = view._scaled_to_native(sc)
    amp2 = 1 + (abs(s0) + abs(s1)) / abs(s1 - s0)
    ub = ulps(back2, xn, (np.abs(lo) + np.abs(hi) + np.abs(xn)) * amp2)
    obs["rescale_ulps"] = [ua, ub]
    if ua > 16 or ub > 16 or not np.all(np.isfinite(back)) or not np.all(np.isfinite(back2)):
        fails.append(["rescale", "_scaled_to_native / _scaled_from_native are not inverse to each other within 16 (condition-scaled) ulp",
                      hx(xs), hx(back), hx(xn), hx(back2), ua, ub])
    # end points: s0 -> lo, s1 -> hi
    e0 = view._scaled_to_native(np.full(len(lo), s0))
    e1 = view._scaled_to_native(np.full(len(lo), s1))
    if ulps(e0, lo, np.abs(lo) + np.abs(hi)) > 8 or ulps(e1, hi, np.abs(lo) + np.abs(hi)) > 8:
        fails.append(["rescale", "the ends of the scaled range do not map to the limits", hx(e0), hx(lo), hx(e1), hx(hi)])
    if code is not None:
        env = {"x": xs, "lo": lo, "hi": hi, "s0": s0, "s1": s1}
        ti = aeval(code["scaled_to_native"], env)
        fi = aeval(code["scaled_from_native"], dict(env, x=xn))
        wi = aeval(code["knobs_to_x"]["update"], {"elem": k, "weight": w})
        wk = aeval(code["x_to_knobs"]["update"], {"elem": k, "weight": w})
        same = np.array_equal(ti, nat) and np.array_equal(fi, sc) and np.array_equal(wi, x) and np.array_equal(wk, mf._x_to_knobs(k))
        obs["translator_agrees"] = bool(same)
        if not same:
            fails.append(["translator", "the extracted scaling formulas, interpreted with numpy, differ from the implementation"])
    return {"obs": obs, "fails": fails}


def case_view(c, code):
    fails, obs = [], {}
    s0, s1 = float.fromhex(c["scaled_range"][0]), float.fromhex(c["scaled_range"][1])
    xk = arr(c["x0"])
    for scalar in (False, True):
        for resc in (None, (s0, s1)):
            opt, cont, fun = mk_opt(c)
            mf = opt.get_merit_function(return_scalar=scalar, rescale_x=resc, check_limits=False)
            x0 = np.array(mf.get_x(), dtype=float)
            J = np.atleast_2d(np.array(quiet(mf.get_jacobian, x0), dtype=float))
            # central differences of the same view, in its own coordinates
            rng_ = (abs(s1 - s0) if resc else 1.0)
            F = []
            for j in range(len(x0)):
                e = float.fromhex(c["fd_step"]) * (rng_ if resc else max(1.0, abs(x0[j])))
                xp, xm = x0.copy(), x0.copy()
                xp[j] += e
                xm[j] -= e
                fp = np.atleast_1d(np.array(quiet(mf, xp), dtype=float))
                fm = np.atleast_1d(np.array(quiet(mf, xm), dtype=float))
                F.append((fp - fm) / (xp[j] - xm[j]))
            F = np.array(F).T
            scale = max(float(np.max(np.abs(F))), 1e-300)
            err = float(np.max(np.abs(J - F))) / scale if J.shape == F.shape else float("inf")
            tol = float.fromhex(c["jac_tol"])
            key = f"scalar={scalar},rescale={'yes' if resc else 'no'}"
            obs[key] = err
            if not (err <= tol):
                fails.append(["view", f"get_jacobian of the view ({key}) differs from finite differences of the same view", hx(J), hx(F), err, tol])
    return {"obs": obs, "fails": fails}


# ---- sequences of calls on ONE optimizer: every step uses this call's arguments only ----------------
def case_sequence(c, code):
    """step / solve / solver.step calls on one Optimize object with per-call rcond, sing_val_cutoff,
    broyden.  After each call the knobs must be where the model puts them: every Newton step taken in
    a call = the minimum-norm least-squares solution over the singular values retained by THAT call's
    rcond / cutoff (None: SVD's default 1e-14, all values), computed here from an independent numpy
    decomposition of the exact Jacobian of the linear problem."""
    A, t = arr(c["A"]), arr(c["t"])
    w, tw = arr(c["weights"]), arr(c["target_weights"])
    n = A.shape[1]
    tol = float.fromhex(c["tol"])
    fails, obs = [], {"calls": []}
    opt, cont, fun = mk_opt(c)
    J = (A * tw[:, None]) * w[None, :]                     # d(weighted residual)/dx, x = knob / weight
    U, s, Vh = np.linalg.svd(J, full_matrices=False)
    k = len(s)
    x_init = arr(c["x0"]) / w
    x = x_init.copy()
    cache_x = None                                         # where the solver's Jacobian cache was taken
    synced = False                                         # solver.x equals the knobs

    def resid(xx):
        return A @ (xx * w) - t

    def within(xx):
        e = float(np.max(np.abs(resid(xx))))
        return True if e < 0.5 * tol else (False if e > 2 * tol else None)

    def model_step(xx, rc, cut):
        rc_eff = 1e-14 if rc is None else rc
        idx = list(range(k))[:(k if cut is None else cut)]
        keep, amb = [], False
        for i in idx:
            thr = rc_eff * s[idx[0]]
            if abs(s[i] - thr) <= 1e-3 * s[0]:
                amb = True
            if s[i] > 0 and not s[i] < thr:
                keep.append(i)
        r = tw * resid(xx)
        step = Vh[keep, :].T @ ((U[:, keep].T @ r) / s[keep]) if keep else np.zeros(n)
        return xx - step, amb, len(keep)

    for ci, call in enumerate(c["calls"]):
        api = call["api"]
        rc = None if call["rcond"] is None else float.fromhex(call["rcond"])
        cut, bro, nst = call["cutoff"], bool(call["broyden"]), int(call["n"])
        rec = {"api": api}
        if api == "reload0":
            quiet(opt.reload, 0)
            x = x_init.copy()
            synced = False
        else:
            if api == "solver.step" and not synced:
                api = "step"                                # the solver has no current point of its own yet
            if bro and (cache_x is None or float(np.linalg.norm(x - cache_x)) < 1e-3):
                bro = False                                 # a Broyden update over a (nearly) zero move is noise / 0/0
            # the model: steps of this call, from this call's arguments only
            xm, stop_judging, moved, moved_small = x.copy(), False, 0, False
            for i in range(nst):
                wi = within(xm)
                if wi is None:
                    stop_judging = True
                    break
                if wi:
                    break
                if bro and i > 0 and moved_small:
                    stop_judging = True                     # later Broyden updates over tiny moves: not predicted
                    break
                xn, amb, nkeep = model_step(xm, rc, cut)
                if amb:
                    stop_judging = True
                    break
                moved_small = float(np.linalg.norm(xn - xm)) < 1e-3
                cache_x = xm.copy()
                xm = xn
                moved += 1
            rec.update({"steps_modelled": moved, "broyden": bro})
            exp_fail = None
            if not stop_judging:
                wi = within(xm)
                if api == "solve":
                    if wi is None:
                        stop_judging = True
                    else:
                        exp_fail = not wi
            kw = {"rcond": rc, "sing_val_cutoff": cut, "broyden": bro}
            raised = None
            try:
                if api == "step":
                    quiet(opt.step, nst, **kw)
                elif api == "solve":
                    quiet(opt.solve, n_steps=nst, **kw)
                else:
                    quiet(opt.solver.step, nst, **kw)
            except Exception as ex:
                raised = f"{type(ex).__name__}: {str(ex)[:100]}"
            synced = raised is None
            if stop_judging:
                rec["not_predicted"] = True
                obs["calls"].append(rec)
                obs["stopped_at"] = ci
                break
            if api == "solve" and exp_fail:
                x = x_init.copy()                           # restore_if_fail: back to iteration 0 of the log
                synced = False
            else:
                x = xm
            got = np.array([cont[f"k{i}"] for i in range(n)], dtype=float)
            err = float(np.linalg.norm(got - x * w))
            lim = 1e-6 * (1 + float(np.linalg.norm(x * w)) + float(np.linalg.norm(x_init * w)))
            rec.update({"err": err, "raised": raised, "expected_failure": exp_fail})
            if api == "solve" and (raised is not None) != bool(exp_fail):
                fails.append(["sequence", f"call {ci} solve(rcond={rc}, sing_val_cutoff={cut}, broyden={bro}): "
                              + ("raised " + str(raised) if raised else "succeeded") + " but the least-squares steps of this call's arguments "
                              + ("do not reach" if exp_fail else "reach") + " the tolerance", ci])
            elif api != "solve" and raised is not None:
                fails.append(["sequence", f"call {ci} {api} raised {raised}", ci])
            elif not np.all(np.isfinite(got)) or err > lim:
                fails.append(["sequence", f"call {ci} {api}(n={nst}, rcond={rc}, sing_val_cutoff={cut}, broyden={bro}): the knobs are not where the "
                              "minimum-norm least-squares steps over the singular values retained by THIS call's arguments lead",
                              hx(got), hx(x * w), err, lim, ci])
        obs["calls"].append(rec)
        if fails:
            break
    obs["judged_calls"] = sum(1 for r in obs["calls"] if "err" in r)
    obs["plain_after_truncating"] = c.get("plain_after_truncating", False)
    return {"obs": obs, "fails": fails}


KINDS = {"lstsq": case_lstsq, "newton": case_newton, "roundtrip": case_roundtrip, "view": case_view, "sequence": case_sequence}


def main():
    inp = json.load(sys.stdin)
    code = inp.get("code")
    out = []
    for c in inp["cases"]:
        try:
            with np.errstate(all="ignore"):
                out.append(KINDS[c["kind"]](c, code))
        except Exception as ex:                               # an exception of the implementation is an observation
            import traceback
            out.append({"obs": {"exception": f"{type(ex).__name__}: {str(ex)[:200]}"},
                        "fails": [["exception", f"{type(ex).__name__}: {str(ex)[:200]}", traceback.format_exc()[-600:]]]})
    json.dump({"results": out}, sys.stdout)


if __name__ == "__main__":
    main()
