"""C11 runner: the property's own oracle on the REAL xdeps.

mode "exprs": for every expression description, build it through the public
  operators (as a user would: `l + r`, `round(x, n)`, `f.g(x, k=2)`, `a._eq(b)` ...)
  over containers whose values are SYMBOLIC (class Sym: every operation returns
  the trace of what was computed), then
     text = str(e); r = eval(text, {"math": math}, manager.containers)
  and report: r == e, value(r) == value(e) (the symbolic traces, so any change of
  structure that changes what is computed is seen), dependencies equal, the
  tokens of text by Python's tokenize, the structure of r.
  With "rebind": eval in a namespace where labels are bound to other (nested)
  references, the structure of the result is reported.

mode "managers": assignment histories on real data (dicts of numbers):
  dump -> load into a fresh manager over a deep copy of the current data ->
  same dump(), and the same container contents after every follow-up
  assignment; copy_expr_from with rebinding maps and overwrite flags against
  the expected definitions (built independently through the operators in the
  destination namespace).

stdin/stdout: JSON.
"""
import sys, json, math, io, tokenize, ast, copy, operator
import xdeps as xd
from xdeps import refs as R

BIN = {"AddExpr": operator.add, "SubExpr": operator.sub, "MulExpr": operator.mul, "MatmulExpr": operator.matmul,
       "TruedivExpr": operator.truediv, "FloordivExpr": operator.floordiv, "ModExpr": operator.mod, "PowExpr": operator.pow,
       "BitwiseAndExpr": operator.and_, "BitwiseOrExpr": operator.or_, "XorExpr": operator.xor, "LtExpr": operator.lt,
       "LeExpr": operator.le, "GeExpr": operator.ge, "GtExpr": operator.gt, "RshiftExpr": operator.rshift,
       "LshiftExpr": operator.lshift,
       "EqExpr": lambda a, b: a._eq(b), "NeExpr": lambda a, b: a._neq(b)}
UN = {"NegExpr": operator.neg, "PosExpr": operator.pos, "InvertExpr": operator.invert}
BUILTIN = {"abs": abs, "round": round, "divmod": divmod, "floor": math.floor, "ceil": math.ceil, "trunc": math.trunc}


class Sym:
    """symbolic value: every operation returns the trace of the computation"""
    __slots__ = ("_t",)

    def __init__(self, t):
        object.__setattr__(self, "_t", t)

    def __repr__(self):
        return f"Sym{self._t!r}"

    def __hash__(self):
        return hash(self._t)

    def __getattr__(self, name):
        if name.startswith("__"):
            raise AttributeError(name)
        return Sym(("attr", self, name))

    def __getitem__(self, key):
        return Sym(("item", self, key))

    def __call__(self, *args, **kw):
        return Sym(("call", self, args, tuple(sorted(kw.items()))))


def _bin(name):
    def f(self, other):
        return Sym((name, self, other))
    return f


def _rbin(name):
    def f(self, other):
        return Sym((name, other, self))
    return f


for _n in ("add", "sub", "mul", "matmul", "truediv", "floordiv", "mod", "pow", "and", "or", "xor", "lshift", "rshift"):
    setattr(Sym, f"__{_n}__", _bin(_n))
    setattr(Sym, f"__r{_n}__", _rbin(_n))
for _n in ("lt", "le", "gt", "ge"):
    setattr(Sym, f"__{_n}__", _bin(_n))
for _n in ("neg", "pos", "invert", "abs", "trunc", "floor", "ceil"):
    setattr(Sym, f"__{_n}__", (lambda nm: (lambda self: Sym((nm, self))))(_n))
Sym.__round__ = lambda self, n=None: Sym(("round", self) if n is None else ("round", self, n))
Sym.__divmod__ = lambda self, o: Sym(("divmod", self, o))
Sym.__eq__ = lambda self, o: isinstance(o, Sym) and canon_val(self) == canon_val(o)
Sym.__ne__ = lambda self, o: not (self == o)


def canon_val(v):
    if isinstance(v, Sym):
        return ["Sym"] + [canon_val(x) for x in v._t]
    if isinstance(v, tuple):
        return ["tuple"] + [canon_val(x) for x in v]
    if isinstance(v, bool):
        return ["bool", v]
    if isinstance(v, int):
        return ["int", str(v)]
    if isinstance(v, float):
        return ["float", v.hex()]
    if isinstance(v, str):
        return ["str", [ord(c) for c in v]]
    if v is None:
        return ["None"]
    return ["other", type(v).__name__, repr(v)]


def mk_lit(l):
    k = l[0]
    if k == "i":
        return int(l[1])
    if k == "f":
        return float.fromhex(l[1])
    if k == "s":
        return "".join(chr(c) for c in l[1])
    if k == "t":
        return tuple(mk_lit(x) for x in l[1])
    if k == "b":
        return bool(l[1])
    if k == "n":
        return None
    raise ValueError(l)


def build(t, ns):
    """term description -> object, through the public operators"""
    k = t[0]
    if k == "const":
        return mk_lit(t[1])
    if k == "top":
        return ns[t[1]]
    if k == "item":
        return build(t[1], ns)[build(t[2], ns)]
    if k == "attr":
        return getattr(build(t[1], ns), "".join(chr(c) for c in t[2]))
    if k == "bin":
        return BIN[t[1]](build(t[2], ns), build(t[3], ns))
    if k == "un":
        return UN[t[1]](build(t[2], ns))
    if k == "builtin":
        return BUILTIN[t[1]](build(t[2], ns), *[build(p, ns) for p in t[3]])
    if k == "call":
        return build(t[1], ns)(*[build(a, ns) for a in t[2]], **{kw: build(v, ns) for kw, v in t[3]})
    raise ValueError(t)


def lit_struct(v):
    if isinstance(v, bool):
        return ["b", int(v)]
    if isinstance(v, int):
        return ["i", str(v)]
    if isinstance(v, float):
        return ["f", v.hex()]
    if isinstance(v, str):
        return ["s", [ord(c) for c in v]]
    if v is None:
        return ["n"]
    if isinstance(v, tuple):
        return ["t", [lit_struct(x) for x in v]]
    raise ValueError(f"unrepresentable constant {type(v).__name__}")


def struct(o):
    """structure of an object built by eval, as a term description"""
    if not isinstance(o, R.BaseRef):
        return ["const", lit_struct(o)]
    if isinstance(o, R.ObjectAttrRef):
        return ["top", o._key, 1]
    if isinstance(o, R.Ref):
        return ["top", o._key, 0]
    if isinstance(o, R.ItemRef):
        return ["item", struct(o._owner), struct(o._key)]
    if isinstance(o, R.AttrRef):
        if not isinstance(o._key, str):
            raise ValueError("attribute key is not a str")
        return ["attr", struct(o._owner), [ord(c) for c in o._key]]
    if isinstance(o, R.BinOpExpr):
        return ["bin", type(o).__name__, struct(o._lhs), struct(o._rhs)]
    if isinstance(o, R.UnaryOpExpr):
        return ["un", type(o).__name__, struct(o._arg)]
    if isinstance(o, R.BuiltinRef):
        return ["builtin", o._op.__name__, struct(o._arg), [struct(p) for p in o._params]]
    if isinstance(o, R.CallRef):
        return ["call", struct(o._func), [struct(a) for a in o._args], [[k, struct(v)] for k, v in o._kwargs]]
    raise ValueError(f"unrepresentable object {type(o).__name__}")


def py_tokens(text):
    out = []
    for tok in tokenize.generate_tokens(io.StringIO(text).readline):
        if tok.type == tokenize.NAME:
            out.append(["name", [ord(c) for c in tok.string]])
        elif tok.type == tokenize.NUMBER:
            v = ast.literal_eval(tok.string)
            if isinstance(v, bool) or not isinstance(v, (int, float)):
                out.append(["other", tok.string])
            else:
                out.append(["num", lit_struct(v)])
        elif tok.type == tokenize.STRING:
            v = ast.literal_eval(tok.string)
            out.append(["str", [ord(c) for c in v]] if isinstance(v, str) else ["other", tok.string])
        elif tok.type == tokenize.OP:
            out.append(["op", [ord(c) for c in tok.string]])
        elif tok.type in (tokenize.NEWLINE, tokenize.NL, tokenize.ENDMARKER):
            continue
        else:
            out.append(["other", tok.string])
    return out


def deps_of(e):
    try:
        d = e._get_dependencies()
    except Exception as ex:  # noqa
        return ["err", type(ex).__name__]
    if d is None:
        return ["none"]
    return sorted(str(x) for x in d)


def value_of(e):
    try:
        return ["ok", canon_val(e._get_value())]
    except Exception as ex:  # noqa
        return ["err", type(ex).__name__]


def mk_sym_manager(labels):
    m = xd.Manager()
    ns = {}
    for lab, kind in labels:
        ns[lab] = (m.refattr if kind else m.ref)(Sym(("root", lab)), lab)
    return m, ns


def run_exprs(inp):
    m, ns = mk_sym_manager(inp["labels"])
    out = []
    rebind = inp.get("rebind")
    ns2 = None
    if rebind:
        ns2 = dict(m.containers)
        for lab, t in rebind:
            ns2[lab] = build(t, ns)
    for t in inp["exprs"]:
        rec = {}
        try:
            e = build(t, ns)
        except Exception as ex:  # noqa
            out.append({"build_error": f"{type(ex).__name__}: {ex}"})
            continue
        if not isinstance(e, R.BaseRef):
            out.append({"build_error": "not a reference"})
            continue
        text = str(e)
        rec["text"] = [ord(c) for c in text]
        try:
            rec["built"] = struct(e)
        except Exception as ex:  # noqa
            rec["built"] = None
        try:
            rec["tokens"] = py_tokens(text)
        except Exception as ex:  # noqa
            rec["tokens"] = None
            rec["token_error"] = f"{type(ex).__name__}: {ex}"
        try:
            r = eval(text, {"math": math}, dict(m.containers))
            rec["eval"] = "ok"
        except Exception as ex:  # noqa
            rec["eval"] = f"{type(ex).__name__}: {ex}"
            out.append(rec)
            continue
        rec["is_ref"] = isinstance(r, R.BaseRef)
        try:
            rec["eq"] = bool(r == e)
        except Exception as ex:  # noqa
            rec["eq"] = False
        rec["hash_eq"] = isinstance(r, R.BaseRef) and hash(r) == hash(e)
        va, vb = value_of(e), (value_of(r) if isinstance(r, R.BaseRef) else ["plain", canon_val(r)])
        rec["value_same"] = va == vb
        if va != vb:
            rec["values"] = [va, vb]
        da, db = deps_of(e), (deps_of(r) if isinstance(r, R.BaseRef) else ["plain"])
        rec["deps_same"] = da == db
        if da != db:
            rec["deps"] = [da, db]
        try:
            rec["rebuilt"] = struct(r)
        except Exception as ex:  # noqa
            rec["rebuilt"] = None
        if ns2 is not None:
            try:
                rr = eval(text, {"math": math}, ns2)
                rec["rebound"] = struct(rr)
                want = build(rec["built"], ns2)      # the structure of e, constructed over the rebound containers
                rec["rebound_ok"] = bool(rr == want) and value_of(rr) == value_of(want) and deps_of(rr) == deps_of(want) \
                    and struct(rr) == struct(want)
            except Exception as ex:  # noqa
                rec["rebound"] = None
                rec["rebound_ok"] = False
                rec["rebound_error"] = f"{type(ex).__name__}: {ex}"
        out.append(rec)
    return {"results": out}


# ---- managers on real data ---------------------------------------------------------------

class Funcs:
    """function container: plain numeric functions with positional and keyword arguments"""
    @staticmethod
    def lin(x, y=1, k=2):
        return x * k + y

    @staticmethod
    def sq(x, p=2):
        return x * x * p

    @staticmethod
    def tan(x, y=0, a=1):
        return x - y * a


def snapshot(data):
    """canonical content of the data containers (floats bit-exact)"""
    def c(v):
        if isinstance(v, EqRaises):
            return ["itemobj", c(v._d)]
        if isinstance(v, PlainObj):
            return ["obj", c(vars(v))]
        if type(v).__module__ == "numpy":
            if hasattr(v, "tolist") and getattr(v, "ndim", 0) > 0:
                return ["array"] + [c(x) for x in v.tolist()]
            v = v.item()
        if isinstance(v, list):
            return ["list"] + [c(x) for x in v]
        if isinstance(v, dict):
            return {repr(k): c(x) for k, x in sorted(v.items(), key=lambda kv: repr(kv[0]))}
        if isinstance(v, bool):
            return ["bool", v]
        if isinstance(v, int):
            return ["int", str(v)]
        if isinstance(v, float):
            return ["float", v.hex() if v == v else "nan"]
        if isinstance(v, complex):
            return ["complex", repr(v)]
        if isinstance(v, tuple):
            return ["tuple"] + [c(x) for x in v]
        return ["other", type(v).__name__]
    return {k: c(v) for k, v in data.items() if k != "f"}


class PlainObj:
    """a plain object container: attributes"""


class EqRaises:
    """an item container whose == raises (nothing in the manager may compare container objects)"""
    def __init__(self, d):
        self._d = dict(d)

    def __getitem__(self, k):
        return self._d[k]

    def __setitem__(self, k, v):
        self._d[k] = v

    def __eq__(self, other):
        raise RuntimeError("container objects are not to be compared")

    __hash__ = object.__hash__


class EqOdd(EqRaises):
    """an item container whose == returns a (truthy) non-bool"""
    def __eq__(self, other):
        return "maybe"

    def __ne__(self, other):
        return "maybe"

    __hash__ = object.__hash__


def mk_data(desc):
    """["d", [[key literal, desc], ...]] -> dict ; ["v", literal] -> value; other container kinds:
    ["ad", pairs] AttrDict, ["obj", pairs] plain object, ["list", [lit]], ["np", [lit]] numpy array,
    ["eqraise", pairs], ["eqodd", pairs]"""
    k = desc[0]
    if k == "d":
        return {mk_lit(a): mk_data(v) for a, v in desc[1]}
    if k == "ad":
        from xdeps.utils import AttrDict
        return AttrDict({mk_lit(a): mk_data(v) for a, v in desc[1]})
    if k == "obj":
        o = PlainObj()
        for a, v in desc[1]:
            setattr(o, mk_lit(a), mk_data(v))
        return o
    if k == "list":
        return [mk_lit(x) for x in desc[1]]
    if k == "np":
        import numpy as np
        return np.array([float(mk_lit(x)) for x in desc[1]])
    if k == "eqraise":
        return EqRaises({mk_lit(a): mk_data(v) for a, v in desc[1]})
    if k == "eqodd":
        return EqOdd({mk_lit(a): mk_data(v) for a, v in desc[1]})
    return mk_lit(desc[1])


def mk_all_data(descs):
    return {lab: mk_data(d) for lab, d in descs.items()}


def mk_data_manager(data, kinds):
    m = xd.Manager()
    ns = {}
    for lab, obj in data.items():
        ns[lab] = (m.refattr if kinds.get(lab) else m.ref)(obj, lab)
    return m, ns


def apply_assign(ns, target, value):
    """target: term description of an item/attr reference; value: term description"""
    owner = build(target[1], ns)
    v = build(value, ns)
    if target[0] == "item":
        owner[build(target[2], ns)] = v
    else:
        setattr(owner, "".join(chr(c) for c in target[2]), v)


def safe(f):
    try:
        f()
        return None
    except Exception as ex:  # noqa
        return type(ex).__name__


def run_manager_case(case):
    kinds = case.get("kinds", {})
    data1 = mk_all_data(case["data"])
    data1["f"] = Funcs
    m1, ns1 = mk_data_manager(data1, kinds)
    res = {"fail": None}
    for tgt, val in case["history"]:
        err = safe(lambda: apply_assign(ns1, tgt, val))
        if err:
            res["skipped"] = "history raised " + err
            return res
    d1 = m1.dump()
    res["dump"] = d1
    # --- copy_expr_from
    cp = case.get("copy")
    if cp:
        data3 = mk_all_data(cp["data"])
        data3["f"] = Funcs
        m3, ns3 = mk_data_manager(data3, cp.get("kinds", {}))
        for tgt, val in cp.get("pre_history", []):
            err = safe(lambda: apply_assign(ns3, tgt, val))
            if err:
                res["copy_skipped"] = "pre-history raised " + err
                return res
        before = dict(m3.dump())
        bindings = {ns1[lab]: build(t, ns3) for lab, t in cp["bindings"]}
        nsb = dict(ns3)
        for lab, t in cp["bindings"]:
            nsb[lab] = build(t, ns3)
        # expected definitions: the source tasks of the container, rebuilt through the operators in the
        # destination namespace
        expected = {}
        for tgt, val in cp["source_tasks"]:
            expected[str(build(tgt, nsb))] = str(build(val, nsb))
        err = safe(lambda: m3.copy_expr_from(m1, cp["name"], bindings, overwrite=cp["overwrite"]))
        if err:
            res["fail"] = {"what": "copy_expr_from raised", "error": err, "source_dump": d1}
            return res
        after = dict(m3.dump())
        want = dict(before)
        for k, v in expected.items():
            if cp["overwrite"] or k not in before:
                want[k] = v
        if after != want:
            res["fail"] = {"what": "definitions after copy_expr_from differ from the expected ones",
                           "overwrite": cp["overwrite"], "before": before, "after": after, "expected": want, "source_dump": d1}
            return res
        # reaction of the copied definitions, compared with a manager defined directly
        if cp.get("check_reaction"):
            data4 = mk_all_data(cp["data"])
            data4["f"] = Funcs
            m4, ns4 = mk_data_manager(data4, cp.get("kinds", {}))
            ns4b = dict(ns4)
            for lab, t in cp["bindings"]:
                ns4b[lab] = build(t, ns4)
            def direct():
                for tgt, val in cp.get("pre_history", []):
                    apply_assign(ns4, tgt, val)
                for tgt, val in cp["source_tasks"]:
                    k = str(build(tgt, ns4b))
                    if cp["overwrite"] or k not in before:
                        m4.set_value(build(tgt, ns4b), build(val, ns4b))
            err = safe(direct)
            if err:
                res["reaction_skipped"] = "defining the expected manager directly raised " + err
                cp = dict(cp, followups=[])
            # bring both to the same data state: run every task once
            def run_all(mm):
                order = mm.find_tasks()
                mm.run_tasks([t for t in mm.tasks.values() if t not in order])   # definitions without dependencies
                mm.run_tasks(order)
            for mm in (m3, m4):
                safe(lambda: run_all(mm))
            for i, (tgt, val) in enumerate(cp.get("followups", [])):
                e3 = safe(lambda: apply_assign(ns3, tgt, val))
                e4 = safe(lambda: apply_assign(ns4, tgt, val))
                if e3 != e4:
                    res["fail"] = {"what": "after copy_expr_from: follow-up raises differently", "step": i, "errors": [e3, e4]}
                    return res
                if e3:
                    break
                s3, s4 = snapshot(data3), snapshot(data4)
                if s3 != s4:
                    res["fail"] = {"what": "after copy_expr_from: containers differ after a follow-up assignment", "step": i,
                                   "copied": s3, "direct": s4, "after": after}
                    return res
    # --- dump -> load into a fresh manager over equivalent containers
    data2 = copy.deepcopy({k: v for k, v in data1.items() if k != "f"})   # one deepcopy: aliasing between containers is kept
    data2["f"] = Funcs
    m2, ns2 = mk_data_manager(data2, kinds)
    err = safe(lambda: m2.load(d1))
    if err:
        res["fail"] = {"what": "load(dump()) raised", "error": err, "dump": d1}
        return res
    d2 = m2.dump()
    if d2 != d1:
        res["fail"] = {"what": "dump() of the loaded manager differs", "dump": d1, "loaded_dump": d2}
        return res
    # a second load with overwrite=True must replace every definition by itself
    err = safe(lambda: m2.load(d1, overwrite=True))
    if err or sorted(m2.dump()) != sorted(d1):
        res["fail"] = {"what": "reloading the dump with overwrite=True changed the definitions", "error": err,
                       "dump": d1, "loaded_dump": m2.dump()}
        return res
    for i, (tgt, val) in enumerate(case["followups"]):
        e1 = safe(lambda: apply_assign(ns1, tgt, val))
        e2 = safe(lambda: apply_assign(ns2, tgt, val))
        if e1 != e2:
            res["fail"] = {"what": "follow-up assignment raises differently", "step": i, "errors": [e1, e2]}
            return res
        if e1:
            break
        s1, s2 = snapshot(data1), snapshot(data2)
        if s1 != s2:
            res["fail"] = {"what": "containers differ after a follow-up assignment", "step": i,
                           "original": s1, "loaded": s2, "dump": d1}
            return res
    return res

# ---- histories of load / copy_expr_from / assignment on ONE target manager -----------------

def root_and_depth(t):
    d = 0
    while t[0] in ("item", "attr"):
        t = t[1]
        d += 1
    return (t[1] if t[0] == "top" else None), d


def run_all(mm):
    order = mm.find_tasks()
    mm.run_tasks([t for t in mm.tasks.values() if t not in order])   # definitions without dependencies
    mm.run_tasks(order)


def run_multistep_case(case):
    from xdeps.tasks import ExprTask
    res = {"fail": None, "dumps": []}
    # sources
    srcs = []
    for sd in case["sources"]:
        data = mk_all_data(sd["data"])
        data["f"] = Funcs
        m, ns = mk_data_manager(data, sd.get("kinds", {}))
        for tgt, val in sd["history"]:
            err = safe(lambda: apply_assign(ns, tgt, val))
            if err:
                res["skipped"] = "source history raised " + err
                return res
        want = [(str(build(t, ns)), str(build(e, ns))) for t, e in sd["defs"]]
        if m.dump() != want:
            res["generator_error"] = {"dump": m.dump(), "simulated": want}
            return res
        srcs.append((m, ns))
    td = case["target"]
    data = mk_all_data(td["data"])
    data["f"] = Funcs
    mt, nst = mk_data_manager(data, td.get("kinds", {}))
    orig = dict(mt.containers)
    labels0 = list(mt.containers)
    expected = []      # [tstr, estr, target term, value term, bindings] in dict order

    def put(tterm, eterm, binds, overwrite=True):
        nsb = dict(orig)
        for lab, t in binds:
            nsb[lab] = build(t, orig)
        ts, es = str(build(tterm, nsb)), str(build(eterm, nsb))
        for i, x in enumerate(expected):
            if x[0] == ts:
                if not overwrite:
                    return
                del expected[i]
                break
        expected.append([ts, es, tterm, eterm, binds])

    for step, op in enumerate(case["ops"]):
        kind = op[0]
        if kind == "iter":
            # iter_expr_tasks_owner of one container of the source: exactly the definitions rooted in it
            m, ns = srcs[op[1]]
            want = [(str(build(t, ns)), str(build(e, ns))) for t, e in case["sources"][op[1]]["defs"] if root_and_depth(t)[0] == op[2]]
            try:
                got = list(m.iter_expr_tasks_owner(m.containers[op[2]]))
            except Exception as ex:  # noqa
                res["fail"] = {"what": "iter_expr_tasks_owner raised", "step": step, "op": op, "error": f"{type(ex).__name__}: {ex}"}
                return res
            if sorted(got) != sorted(want):
                res["fail"] = {"what": "iter_expr_tasks_owner does not yield exactly the definitions rooted in the container",
                               "step": step, "op": op, "got": got, "expected": want}
                return res
            continue
        if kind == "load":
            m, ns = srcs[op[1]]
            err = safe(lambda: mt.load(m.dump(), overwrite=op[2]))
            for t, e in case["sources"][op[1]]["defs"]:
                put(t, e, [], op[2])
        elif kind == "copy":
            m, ns = srcs[op[1]]
            bindings = {ns[lab]: build(t, orig) for lab, t in op[3]}
            err = safe(lambda: mt.copy_expr_from(m, op[2], bindings if bindings else None, overwrite=op[4]))
            for t, e in case["sources"][op[1]]["defs"]:
                if root_and_depth(t)[0] == op[2]:
                    put(t, e, op[3], op[4])
        else:
            tterm, vterm = op[1], op[2]
            err = safe(lambda: apply_assign(orig, tterm, vterm))
            ts = str(build(tterm, orig))
            if vterm[0] == "const":
                for i, x in enumerate(expected):
                    if x[0] == ts:
                        del expected[i]
                        break
            else:
                put(tterm, vterm, [], True)
        if err:
            if kind == "assign":
                res["stopped"] = f"assignment raised {err} at step {step}"
                return res
            res["fail"] = {"what": f"{kind} raised", "step": step, "error": err}
            return res
        # frame: the label -> container map is untouched
        if list(mt.containers) != labels0 or any(mt.containers[l] is not orig[l] for l in labels0):
            res["fail"] = {"what": "the manager's label -> container map changed", "step": step, "op": op,
                           "containers": {l: str(r) + " (" + type(r).__name__ + ")" for l, r in mt.containers.items()}}
            return res
        d = mt.dump()
        res["dumps"].append([[[ord(c) for c in a], [ord(c) for c in b]] for a, b in d])
        if dict(d) != {x[0]: x[1] for x in expected} or len(d) != len(expected):
            res["fail"] = {"what": "definitions after the operation differ from the expected ones", "step": step, "op": op,
                           "dump": d, "expected": [[x[0], x[1]] for x in expected]}
            return res
        # values: a manager defined directly (register, no eval) over a copy of the current data
        if any(root_and_depth(x[2])[1] + sum(1 for lab, _ in x[4] if lab == root_and_depth(x[2])[0]) > 1 for x in expected):
            res["values_skipped_from_step"] = res.get("values_skipped_from_step", step)
            continue
        data_s = copy.deepcopy({k: v for k, v in data.items() if k != "f"})
        data_s["f"] = Funcs
        ms, nss = mk_data_manager(data_s, td.get("kinds", {}))
        for x in expected:
            nsb = dict(nss)
            for lab, t in x[4]:
                nsb[lab] = build(t, nss)
            ms.register(ExprTask(build(x[2], nsb), build(x[3], nsb)))
        e1, e2 = safe(lambda: run_all(mt)), safe(lambda: run_all(ms))
        if e1 != e2:
            res["fail"] = {"what": "running the definitions raises differently", "step": step, "errors": [e1, e2]}
            return res
        if e1:
            res["stopped"] = f"running the definitions raised {e1} at step {step}"
            return res
        s1, s2 = snapshot(data), snapshot(data_s)
        if s1 != s2:
            res["fail"] = {"what": "container contents differ from a manager defined directly", "step": step, "op": op,
                           "target": s1, "direct": s2, "dump": d}
            return res
    return res


def main():
    inp = json.load(sys.stdin)
    if inp["mode"] == "exprs":
        json.dump(run_exprs(inp), sys.stdout)
    elif inp["mode"] == "multistep":
        json.dump({"results": [run_multistep_case(c) for c in inp["cases"]]}, sys.stdout)
    elif inp["mode"] == "managers":
        json.dump({"results": [run_manager_case(c) for c in inp["cases"]]}, sys.stdout)
    else:
        raise SystemExit("unknown mode")


if __name__ == "__main__":
    main()
