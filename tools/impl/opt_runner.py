"""Runs operation sequences on real xdeps.optimize.Optimize objects built over
generated deterministic merit functions, records every oracle interaction
(user function, JacobianSolver.eval penalties, SVD.lstsq, Broyden updates) by
monkeypatching, and evaluates the property oracles of C09 / C10 / C15 directly
on the implementation.

stdin : JSON {"cases": [case, ...]}            (see tools/optlib.py: gen_case)
stdout: JSON {"results": [result, ...]}
Every float in the output is a C99 hex string (float.hex()): exact.
"""
import os, sys, json, math, signal, copy
import numpy as np
import xdeps
import xdeps.general
from xdeps.optimize import optimize as xo
from xdeps.optimize import jacobian as xj
from xdeps.optimize import matrixutils as xm

xdeps.general._print.suppress = True
np.seterr(all="ignore")
import warnings
warnings.simplefilter("ignore")

EPS = 2.0 ** -52


class UserFault(Exception):
    pass


class CaseTimeout(BaseException):
    pass


def _alarm(signum, frame):
    raise CaseTimeout()


def H(v):
    return float(v).hex()


def HL(vs):
    return [float(v).hex() for v in vs]


# ---------------------------------------------------------------------------
# merit function families
# ---------------------------------------------------------------------------

def singular(kind, kj, c, amp):
    """terms that are undefined (NaN) at a point or on a half line, computed with
    numpy scalars (no Python exceptions): sinc 0/0, 0/0, sqrt and log outside their domain"""
    u = np.float64(kj) - np.float64(c)
    if kind == "sinc":
        return float(np.float64(amp) * np.sin(u) / u)
    if kind == "zero_over":
        return float(np.float64(amp) * (u * np.float64(0.0)) / u)
    if kind == "sqrt":
        return float(np.float64(amp) * np.sqrt(u))
    if kind == "log":
        return float(np.float64(amp) * np.log(u) if u != 0 else np.float64("nan"))
    raise ValueError(kind)


def make_function(spec, rec=None, twin=None):
    """r_i = sum_j A_ij k_j + b_i + sum_j Q_ij k_j^2 + T_i sin(sum_j U_ij k_j + P_i);
    raises UserFault inside the fault region.  `twin` = (j, amp): component j is
    replaced by a different function (used for the disabled-target experiment)."""
    A, b, Q, T, U, P = spec["A"], spec["b"], spec["Q"], spec["T"], spec["U"], spec["P"]
    fault = spec.get("fault")
    m, n = len(b), len(A[0]) if A else 0

    def g(k):
        k = [float(v) for v in k]
        if fault is not None:
            j, thr, d = fault
            if d * (k[j] - thr) > 0:
                if rec is not None and rec.get("on", True):
                    rec["f"].append((tuple(k), None))
                raise UserFault("fault region")
        out = []
        for i in range(m):
            v = b[i]
            for j in range(n):
                v += A[i][j] * k[j]
            for j in range(n):
                if Q[i][j] != 0.0:
                    v += Q[i][j] * (k[j] * k[j])
            if T[i] != 0.0:
                ph = P[i]
                for j in range(n):
                    ph += U[i][j] * k[j]
                v += T[i] * math.sin(ph)
            out.append(v)
        for kind, i, j, c, amp in spec.get("S", []):
            out[i] = out[i] + singular(kind, k[j], c, amp)
        for i in spec.get("pos", []):          # strictly positive results (for optimize_log targets)
            out[i] = 0.5 + out[i] * out[i]
        if twin is not None:
            j, amp = twin
            out[j] = out[j] * (1.0 + amp) + amp * math.cos(3.0 * k[0]) + 7.0 * amp
        if rec is not None and rec.get("on", True):
            rec["f"].append((tuple(k), tuple(out)))
        return out
    return g


# ---------------------------------------------------------------------------
# monkeypatched recorders (installed once; they write into CUR, the record of
# the optimizer currently under test)
# ---------------------------------------------------------------------------

CUR = {"rec": None}

_orig_eval = xj.JacobianSolver.eval
_orig_jstep = xj.JacobianSolver.step
_orig_svd_init = xm.SVD.__init__
_orig_lstsq = xm.SVD.lstsq
_orig_call = xo.MeritFunctionForMatch.__call__
_orig_getjac = xo.MeritFunctionForMatch.get_jacobian


def _eval_w(self, x):
    y, p = _orig_eval(self, x)
    r = CUR["rec"]
    if r is not None:
        r["pen"].append((tuple(float(v) for v in np.atleast_1d(y)), float(p)))
    return y, p


def _cols(matrix):
    mat = np.asarray(matrix, dtype=float)
    return tuple(tuple(float(v) for v in mat[:, j]) for j in range(mat.shape[1]))


def _svd_init_w(self, matrix, *a, **k):
    r = CUR["rec"]
    try:
        _orig_svd_init(self, matrix, *a, **k)
    except np.linalg.LinAlgError:
        if r is not None:
            r["svdfail"].append(_cols(matrix))
        raise


def _lstsq_w(self, b, rcond=None, sing_val_cutoff=None):
    x = _orig_lstsq(self, b, rcond=rcond, sing_val_cutoff=sing_val_cutoff)
    r = CUR["rec"]
    if r is not None:
        r["newton"].append((_cols(self.matrix), tuple(float(v) for v in b), tuple(float(v) for v in x)))
    return x


def _jstep_w(self, n_steps=1, rcond=None, sing_val_cutoff=None, broyden=False):
    r = CUR["rec"]
    had = hasattr(self, "_last_jac")
    prev = (self._last_jac, self._last_jac_x, self._last_y) if had else None
    try:
        return _orig_jstep(self, n_steps=n_steps, rcond=rcond, sing_val_cutoff=sing_val_cutoff, broyden=broyden)
    finally:
        if r is not None:
            r["jsteps"] += 1
            if broyden and had and hasattr(self, "_last_jac") and self._last_jac is not prev[0]:
                key = (_cols(prev[0]), tuple(float(v) for v in prev[1]), tuple(float(v) for v in prev[2]),
                       tuple(float(v) for v in self._last_jac_x), tuple(float(v) for v in self._last_y))
                r["bro"].append((key, _cols(self._last_jac)))


def _call_w(self, x=None, check_limits=None, return_scalar=None, zero_if_met=None):
    r = CUR["rec"]
    if r is not None:
        r["mcalls"] += 1
    return _orig_call(self, x, check_limits=check_limits, return_scalar=return_scalar, zero_if_met=zero_if_met)


def _getjac_w(self, x, f0=None):
    r = CUR["rec"]
    if r is not None:
        r["jaccalls"] += 1
    return _orig_getjac(self, x, f0=f0)


_orig_log10 = np.log10


def _log10_w(x, *a, **k):
    y = _orig_log10(x, *a, **k)
    r = CUR["rec"]
    if r is not None and np.ndim(x) == 0:
        r["log10"].append((float(x), float(y)))
    return y


np.log10 = _log10_w
xj.JacobianSolver.eval = _eval_w
xj.JacobianSolver.step = _jstep_w
xm.SVD.__init__ = _svd_init_w
xm.SVD.lstsq = _lstsq_w
xo.MeritFunctionForMatch.__call__ = _call_w
xo.MeritFunctionForMatch.get_jacobian = _getjac_w


def new_rec():
    return {"f": [], "pen": [], "newton": [], "svdfail": [], "bro": [], "log10": [], "mcalls": 0, "jaccalls": 0, "jsteps": 0}


# ---------------------------------------------------------------------------
# building and observing an optimizer
# ---------------------------------------------------------------------------

class Cont(dict):
    """a container: a dict that may carry a `vary_default` attribute (limits / step defaults)"""


class Knobs:
    """the knob locations in order: (container, name) pairs - names may repeat across containers"""
    def __init__(self, locs):
        self.locs = locs

    def values(self):
        return [float(c[nm]) for c, nm in self.locs]


class Box:
    """a target value given as an object with a `_value` attribute (read at every call)"""
    def __init__(self, v):
        self._value = v

    def __gt__(self, other):
        return self._value > other


def transform_fn(spec):
    """the duck-typed `transform` hook of a target object"""
    kind = spec[0]
    if kind == "abs":
        return lambda v: abs(v)
    if kind == "square":
        return lambda v: v * v
    if kind == "scale":
        c = spec[1]
        return lambda v: v * c
    if kind == "floor":
        a = spec[1]
        return lambda v: v if v > a else a
    if kind == "ceil":
        b = spec[1]
        return lambda v: v if v < b else b
    raise ValueError(kind)


def apply_tr(spec, v):
    return v if not spec else transform_fn(spec)(v)


class Act(xo.Action):
    def __init__(self, fun, cont, names):
        self.fun, self.cont, self.names = fun, cont, names

    def run(self):
        return self.fun(self.cont.values())


def build(case, rec, twin=None):
    """case["ctor"] selects rarely used constructor forms: VaryList / TargetList wrappers, scale= instead of
    weight=, weight=None, a single Vary instead of a list, solver=, solver_options=, name=, show_call_counter="""
    n = len(case["x0"])
    names = list(case.get("names") or [f"k{i}" for i in range(n)])
    cidx = list(case.get("containers") or [0] * n)
    conts = [Cont() for _ in range(max(cidx) + 1)]
    for i in range(n):
        conts[cidx[i]][names[i]] = float(case["x0"][i])
    cont = Knobs([(conts[cidx[i]], names[i]) for i in range(n)])
    g = make_function(case["fun"], rec, twin)
    cx = case.get("ctor", {})
    used = set()
    if len(conts) > 1:
        used.add("several containers" + (" with equal knob names" if len(set(names)) < n else ""))
    vary = []
    for i, v in enumerate(case["vary"]):
        kw = dict(limits=(None if v["limits"] is None else tuple(v["limits"])), step=v["step"], weight=v["weight"],
                  max_step=v["max_step"], tag=v["tag"], active=v["active"])
        if v.get("max_step_np") and v["max_step"] is not None:
            kw["max_step"] = np.float64(v["max_step"]); used.add("Vary(max_step=<numpy scalar>)")
        if cx.get("vary_default") and v["limits"] is not None and v["step"] is not None:
            c_ = conts[cidx[i]]
            if not hasattr(c_, "vary_default"):
                c_.vary_default = {}
            c_.vary_default[names[i]] = {"limits": tuple(v["limits"]), "step": v["step"]}
            kw["limits"] = None; kw["step"] = None; used.add("container.vary_default")
        if cx.get("vary_weight_none") and v["weight"] == 1.0:
            kw["weight"] = None; used.add("Vary(weight=None)")
        if cx.get("varylist"):
            vary.append(xo.VaryList([names[i]], conts[cidx[i]], **kw)); used.add("VaryList")
        else:
            vary.append(xo.Vary(names[i], container=conts[cidx[i]], **kw))
    act = Act(g, cont, names)
    targets = []
    for i, t in enumerate(case["targets"]):
        kw = dict(tol=t["tol"], tag=t["tag"], optimize_log=bool(t.get("optimize_log", False)))
        if t.get("optimize_log"):
            used.add("Target(optimize_log=True)")
        if cx.get("scale"):
            kw["scale"] = t["weight"]; used.add("Target(scale=)")
        elif cx.get("target_weight_none") and t["weight"] == 1.0:
            kw["weight"] = None; used.add("Target(weight=None)")
        else:
            kw["weight"] = t["weight"]
        val = t["value"]
        if cx.get("boxed_value") and not t.get("optimize_log"):
            val = Box(t["value"]); used.add("Target(value=<object with _value>)")
        if cx.get("targetlist"):
            targets.append(xo.TargetList([i], value=val, action=act, **kw)); used.add("TargetList")
            tobj = targets[-1].targets[0]
        elif cx.get("action_target"):
            targets.append(act.target(i, val, **kw)); used.add("Action.target()")
            tobj = targets[-1]
        else:
            targets.append(xo.Target(i, val, action=act, **kw))
            tobj = targets[-1]
        if t.get("transform"):
            tobj.transform = transform_fn(t["transform"]); used.add("target.transform hook")
    o = case["opts"]
    okw = {}
    if cx.get("solver"):
        okw["solver"] = "jacobian"; used.add("Optimize(solver='jacobian')")
    if cx.get("solver_options"):
        okw["solver_options"] = {"n_steps_max": 20}; used.add("Optimize(solver_options=)")
    if cx.get("name"):
        okw["name"] = "opt"; used.add("Optimize(name=)")
    if cx.get("single_vary") and n == 1 and not cx.get("varylist"):
        vary = vary[0]; used.add("Optimize(vary=<single Vary>)")
    CUR["rec"] = rec
    opt = xo.Optimize(vary=vary, targets=targets, restore_if_fail=o["restore_if_fail"],
                      assert_within_tol=o["assert_within_tol"], n_steps_max=o["n_steps_max"],
                      check_limits=o.get("check_limits", True), show_call_counter=bool(cx.get("show_call_counter", False)),
                      verbose=False, **okw)
    if cx.get("show_call_counter"):
        used.add("Optimize(show_call_counter=True)")
    if rec is not None:
        rec["ctor_used"] = sorted(used)
    return opt, cont, names, make_function(case["fun"], None, twin)


ERRMAP = [(UserFault, "EUser"), (np.linalg.LinAlgError, "ELinAlg"), (AssertionError, "EAssert"),
          (RuntimeError, "ERuntime"), (ValueError, "EValue")]


def err_class(e):
    for cls, nm in ERRMAP:
        if isinstance(e, cls):
            return nm
    return "other:" + type(e).__name__


def s2b(s):
    return [c == "y" for c in s]


def log_rows(opt, start):
    L = opt._log
    n = min(len(L[k]) for k in L)
    rows = []
    for i in range(start, n):
        rows.append({"knobs": HL(L["knobs"][i]), "va": s2b(L["vary_active"][i]), "ta": s2b(L["target_active"][i]),
                     "pen": H(L["penalty"][i]), "targets": HL(L["targets"][i]), "tolmet": s2b(L["tol_met"][i]),
                     "hit": s2b(L["hit_limits"][i]),
                     "alpha": -2 if L["alpha"][i] is None else int(L["alpha"][i]), "tag": L["tag"][i]})
    return rows, n, any(len(L[k]) != n for k in L)


def observe(opt, cont, names, start):
    e = opt._err
    s = opt.solver
    rows, n, ragged = log_rows(opt, start)
    return {"knobs": HL(cont.values()),
            "va": [bool(v.active) for v in e.vary], "ta": [bool(t.active) for t in e.targets],
            "sx": None if s._x is None else HL(s._x),
            "mfl": [bool(b) for b in getattr(s, "mask_from_limits", [])],
            "lpwt": bool(getattr(e, "last_point_within_tol", False)),
            "lres": HL(getattr(e, "last_res_values", [])),
            "ltw": [bool(b) for b in getattr(e, "last_targets_within_tol", [])],
            "pen_after": H(getattr(s, "penalty_after_last_step", 0.0)),
            "alpha_last": -2 if s.alpha_last_step is None else int(s.alpha_last_step),
            "ncall": int(e.call_counter), "loglen": n, "ragged": ragged, "newrows": rows}


def mk_sel(x):
    """JSON selector -> argument of enable/disable: None, True, False or a list of int / str"""
    return x


def ulps(a, b):
    a, b = float(a), float(b)
    if a == b or (math.isnan(a) and math.isnan(b)):
        return 0.0
    if not (math.isfinite(a) and math.isfinite(b)):
        return float("inf")
    return abs(a - b) / (EPS * max(abs(a), abs(b), 2.0 ** -1000))


def independent(g, case, knobs, ta, targets=None):
    """targets, per-target |err| (linear residual: what the tolerances are about), penalty of the
    point (log10 residual for active optimize_log targets), evaluated from scratch"""
    targets = case["targets"] if targets is None else targets
    r = g(knobs)
    errs = [apply_tr(targets[i].get("transform"), r[i]) - targets[i]["value"] for i in range(len(r))]
    pen2 = 0.0
    scale2 = 0.0
    for i, t in enumerate(targets):
        if ta[i]:
            e = errs[i]
            if t.get("optimize_log"):
                e = (math.log10(r[i]) - math.log10(t["value"])) if (r[i] > 0 and t["value"] > 0) else float("nan")
            pen2 += (e * t["weight"]) * (e * t["weight"])
            sc = (abs(r[i]) + abs(t["value"])) * t["weight"]
            if math.isfinite(sc):
                scale2 += sc * sc
    return r, errs, math.sqrt(pen2), math.sqrt(scale2)


FD_SIG = "fd-perturbation-left-by-a-raising-step"


def fd_leftover(case, knobs, bad):
    """every violation in [bad] is at most the finite-difference step of that
    knob beyond the limit (get_jacobian's last perturbation left in the container)"""
    for i in bad:
        v = case["vary"][i]
        h = abs(1e-10 if v["step"] is None else v["step"])
        lo, hi = v["limits"]
        exc = (lo - knobs[i]) if (lo is not None and knobs[i] < lo) else (knobs[i] - hi)
        if not exc <= h * (1 + 1e-6) + 16 * EPS * max(abs(knobs[i]), 2.0 ** -1000):
            return False
    return True


def within_limits(case, knobs):
    """knobs outside a given (not None) side of their closed limits.  With
    check_limits=False and non-unit weights the solver polices x = knob/weight:
    the knob may overshoot a limit by the rounding of the weight scaling."""
    bad = []
    strict = case["opts"].get("check_limits", True)
    for i, v in enumerate(case["vary"]):
        if v["limits"] is None:
            continue
        lo, hi = v["limits"]
        slack = 0.0 if (strict or v["weight"] == 1.0) else 8 * EPS * max(abs(knobs[i]), 2.0 ** -1000)
        if lo is not None and knobs[i] < lo - slack:
            bad.append(i)
        elif hi is not None and knobs[i] > hi + slack:
            bad.append(i)
    return bad


def apply_op(opt, op):
    k = op[0]
    if k == "step":
        _, n, tb, a, bro = op
        kw = {}
        for nm in ("enable_target", "enable_vary", "enable_vary_name", "disable_target", "disable_vary", "disable_vary_name"):
            if a.get(nm) is not None:
                kw[nm] = a[nm]
        opt.step(n, take_best=tb, broyden=bro, **kw)
    elif k == "solve":
        _, n, tb, bro = op
        opt.solve(n_steps=n, take_best=tb, broyden=bro)
    elif k == "reload":
        opt.reload(iteration=op[1])
    elif k == "reload_tag":
        opt.reload(tag=op[1])
    elif k == "tag":
        opt.tag(op[1])
    elif k == "clear":
        opt.clear_log()
    elif k == "enable":
        opt.enable(target=op[1], vary=op[2], vary_name=op[3])
    elif k == "disable":
        opt.disable(target=op[1], vary=op[2], vary_name=op[3])
    elif k == "run_jacobian":
        opt.run_jacobian(op[1])
    elif k == "add_point":
        opt.add_point_to_log(op[1])
    elif k == "set":
        _, what, i, attr, val = op
        obj = (opt.targets if what == "target" else opt.vary)[i]
        if attr == "limits" and val is not None:
            val = tuple(val)
        setattr(obj, attr, val)
    elif k == "foreign":
        foreign_call(opt, op[1], op[2])
    else:
        raise RuntimeError("unknown op " + k)


MODELLED = {"step", "solve", "reload", "tag", "clear_log", "enable", "disable", "add_point_to_log", "run_jacobian"}
NOT_CALLED = {"from_callable": "alternative constructor, not a call on a live optimizer",
              "solve_homotopy": "re-assigns the target values itself while it runs (outside the properties)"}


def foreign_call(opt, name, kw):
    """any other public entry point of Optimize, with a tiny budget"""
    if name == "get_merit_function":
        view = opt.get_merit_function(**{k: (tuple(v) if k == "rescale_x" and v is not None else v) for k, v in kw.items()})
        x = view.get_x()
        view(x)
        if not kw.get("return_scalar"):
            view.get_jacobian(x)
        view.get_x_limits()
        return
    if name == "set_knobs_from_x":
        opt.set_knobs_from_x(opt._err._get_x())
        return
    if name in ("target_status", "vary_status", "target_mismatch"):
        getattr(opt, name)(ret=True)
        return
    if name == "show":
        import io, contextlib
        with contextlib.redirect_stdout(io.StringIO()):
            opt.show()
        return
    getattr(opt, name)(**kw)


def public_api():
    """public callables of Optimize, by introspection (so that the list stays current)"""
    return sorted(n for n in dir(xo.Optimize) if not n.startswith("_") and callable(getattr(xo.Optimize, n)))


def sim_set_state(flags, attrs, state, entries):
    """what enable/disable must do, from the documented semantics: None = nothing, True = all,
    False = all with the opposite state, an int = that index, a string = a regular expression
    that must match the WHOLE tag / name (re.fullmatch)"""
    import re
    if entries is None:
        return
    if entries is True or entries is False:
        for i in range(len(flags)):
            flags[i] = state if entries else (not state)
        return
    for en in ([entries] if isinstance(entries, (int, str)) else entries):
        if isinstance(en, int):
            flags[en] = state
        else:
            for i, a in enumerate(attrs):
                if re.fullmatch(en, a) is not None:
                    flags[i] = state


def expected_flags(case, names, op, status, va, ta):
    """active flags after enable / disable / step, computed from the flags before"""
    va, ta = list(va), list(ta)
    vt = [v["tag"] for v in case["vary"]]
    tt = [t["tag"] for t in case["targets"]]
    def able(state, target=None, vary=None, vary_name=None):
        sim_set_state(ta, tt, state, target)
        sim_set_state(va, vt, state, vary)
        sim_set_state(va, names, state, vary_name)
    k = op[0]
    if k in ("enable", "disable"):
        able(k == "enable", op[1], op[2], op[3])
    elif k == "step":
        a = op[3]
        able(True, target=a.get("enable_target")); able(True, vary=a.get("enable_vary"))
        able(False, target=a.get("disable_target")); able(False, vary=a.get("disable_vary"))
        able(False, vary_name=a.get("disable_vary_name")); able(True, vary_name=a.get("enable_vary_name"))
        if status == "ok":
            able(False, target=a.get("enable_target")); able(False, vary=a.get("enable_vary"))
            able(True, target=a.get("disable_target")); able(True, vary=a.get("disable_vary"))
            able(True, vary_name=a.get("disable_vary_name")); able(False, vary_name=a.get("enable_vary_name"))
    else:
        return None
    return va, ta


def temp_disabled(opt, a):
    """indices of knobs / targets named by the disable_* arguments of step()"""
    e = opt._err
    def idx(lst, entries, attr):
        out = set()
        if entries is None:
            return out
        if entries is True:
            return set(range(len(lst)))
        if entries is False:
            return out
        import re
        for en in ([entries] if isinstance(entries, (int, str)) else entries):
            if isinstance(en, int):
                out.add(en % len(lst))
            else:
                out |= {i for i, v in enumerate(lst) if re.fullmatch(en, getattr(v, attr))}
        return out
    dv = idx(e.vary, a.get("disable_vary"), "tag") | idx(e.vary, a.get("disable_vary_name"), "name")
    dt = idx(e.targets, a.get("disable_target"), "tag")
    return dv, dt


# ---------------------------------------------------------------------------
# one case
# ---------------------------------------------------------------------------

def run_sequence(case, rec, twin=None, with_oracles=True):
    case = copy.deepcopy(case)      # "set" operations edit the configuration the oracles judge against
    unit = all(v["weight"] == 1.0 for v in case["vary"])
    out = {"status": "ok", "steps": [], "C09": [], "C10": [], "C15": [], "foreign": [],
           "observations": {"temporary_flags_left_changed_by_raising_step": 0,
                            "container_outside_limits_after_raising_step": 0,
                            "container_left_on_unlogged_point_by_raising_step": 0}}
    try:
        opt, cont, names, g = build(case, rec, twin)
    except Exception as e:
        out["status"] = "ctor_error"
        out["ctor_error"] = err_class(e)
        return out, None
    n = len(names)
    out["init"] = observe(opt, cont, names, 0)
    prev_len = out["init"]["loglen"]
    tainted = False       # a step()/solve() raised without restoring: containers may hold an unaccepted point
    reconf = False        # attributes of Target / Vary objects were re-assigned
    no_limits = False     # the user (new limits) or a foreign call left a knob outside its limits: premise of C10 gone
    row_cfg = [copy.deepcopy(case["targets"]) for _ in range(prev_len)]   # target configuration when each row was logged
    # the vary weights in force during the operation that logged a row (all 1: its knobs are exact; otherwise the
    # evaluation behind the row was at the round trip (k/w)*w of these weights)
    w_at_log = [1.0 if v["weight"] is None else v["weight"] for v in case["vary"]]
    row_unit = [list(w_at_log) for _ in range(prev_len)]
    if with_oracles:
        out["C15"] += public_log_check(opt, -1)
        bad = within_limits(case, cont.values())
        if bad:
            out["C10"].append({"what": "start point outside limits accepted by the constructor", "knobs": bad})
    for iop, op in enumerate(case["ops"]):
        kind = op[0]
        exec_op = op
        if kind == "run_jacobian":        # run_jacobian(n) is step(n): judged as such
            op, kind = ["step", op[1], True, {}, False], "step"
        elif kind == "add_point":         # add_point_to_log(tag) is tag(tag)
            op, kind = ["tag", op[1]], "tag"
        e = opt._err
        kn_before = cont.values()
        va_before = [bool(v.active) for v in e.vary]
        ta_before = [bool(t.active) for t in e.targets]
        len_before = min(len(opt._log[k]) for k in opt._log)
        row0 = None
        if len_before > 0:
            row0 = ([float(v) for v in opt._log["knobs"][0]], s2b(opt._log["vary_active"][0]), s2b(opt._log["target_active"][0]))
        if kind == "clear" and with_oracles:
            out["C15"] += rows_oracle(opt, cont, names, g, case, unit, iop, row_cfg, reconf, row_unit)
            len_before = 0
        status = "ok"
        try:
            apply_op(opt, exec_op)
        except CaseTimeout:
            raise
        except Exception as ex:
            status = err_class(ex)
        if kind == "clear":
            prev_len = 0
            row_cfg = []
            row_unit = []
        if kind == "set" and status == "ok":
            reconf = True
            _, what, i_, attr, val = op
            (case["targets"] if what == "target" else case["vary"])[i_][attr] = val
            unit = all(v["weight"] == 1.0 for v in case["vary"])
        if with_oracles and status.startswith("other:") and kind == "step" and op[3]:
            out["C10"].append({"what": "step() with temporary enable_*/disable_* arguments raised " + status[6:] +
                                       " (the argument cannot be used)", "op": iop, "args": op[3]})
        ob = observe(opt, cont, names, prev_len)
        prev_len = ob["loglen"]
        out["steps"].append({"out": status, "obs": ob})
        if with_oracles and not ob["ragged"] and not any(f["what"].startswith("Optimize.log()") for f in out["C15"]):
            out["C15"] += public_log_check(opt, iop)
        kn_after = cont.values()
        va_after = [bool(v.active) for v in e.vary]
        ta_after = [bool(t.active) for t in e.targets]
        L = opt._log
        nrows = ob["loglen"]
        while len(row_cfg) < nrows:
            row_cfg.append(copy.deepcopy(case["targets"]))
        while len(row_unit) < nrows:
            row_unit.append(list(w_at_log))
        w_at_log = [1.0 if v["weight"] is None else v["weight"] for v in case["vary"]]
        if kind in ("set", "foreign"):
            # not an operation of the properties' histories: only what it leaves behind matters
            if within_limits(case, kn_after):
                no_limits = True
            # new limits that exclude a point already in the log: reload() / the restore of solve() bring it back as it was
            if kind == "set" and op[3] == "limits" and any(within_limits(case, [float(v) for v in L["knobs"][i]]) for i in range(nrows)):
                no_limits = True
            if kind == "foreign":
                out["foreign"].append([op[1], status])
            if ob["ragged"]:
                out["status"] = "ragged"
                break
            continue
        if with_oracles and not status.startswith("other:"):
            # ---- C10: the active set is the one the full-match selector semantics defines ----
            exp = expected_flags(case, names, op, status, va_before, ta_before)
            if exp is not None and (exp[0] != va_after or exp[1] != ta_after):
                out["C10"].append({"what": "active flags after " + kind + "() differ from the selection by full match of tags / names",
                                   "op": iop, "expected": [exp[0], exp[1]], "got": [va_after, ta_after],
                                   "names": names, "vary_tags": [v["tag"] for v in case["vary"]],
                                   "target_tags": [t["tag"] for t in case["targets"]]})
        if with_oracles and not ob["ragged"]:
            # ---- C10: rows and containers inside the closed limits ----------------
            for i in range(len_before if kind != "clear" else 0, nrows):
                bad = [] if no_limits else within_limits(case, [float(v) for v in L["knobs"][i]])
                if bad:
                    f = {"what": "log row outside limits", "op": iop, "row": i, "knobs": bad, "values": HL(L["knobs"][i])}
                    if tainted and fd_leftover(case, [float(v) for v in L["knobs"][i]], bad):
                        f["signature"] = FD_SIG
                    out["C10"].append(f)
            restored = kind == "solve" and status != "ok" and case["opts"]["restore_if_fail"]
            if (status == "ok" or restored) and not no_limits:
                bad = within_limits(case, kn_after)
                if bad:
                    f = {"what": "containers outside limits after the call", "op": iop, "knobs": bad, "values": HL(kn_after)}
                    if tainted and fd_leftover(case, kn_after, bad):
                        f["signature"] = FD_SIG
                    out["C10"].append(f)
            if kind in ("step", "solve"):
                # ---- C10: max_step between consecutive Jacobian-step rows ----------
                for i in range(max(len_before, 1), nrows):
                    if L["alpha"][i] == -1:
                        continue
                    for j, v in enumerate(case["vary"]):
                        if v["max_step"] is None:
                            continue
                        a, b = float(L["knobs"][i - 1][j]), float(L["knobs"][i][j])
                        if math.isnan(a) or math.isnan(b):
                            continue        # a foreign call left a NaN knob: nothing to compare
                        d = abs(b - a)
                        bound = v["max_step"] * (1 + 4 * EPS) + 4 * EPS * max(abs(a), abs(b)) + 1.000001e-12 * v["weight"]
                        if not d <= bound:
                            out["C10"].append({"what": "knob moved by more than max_step in one Jacobian step", "op": iop,
                                               "row": i, "knob": j, "moved": H(d), "max_step": H(v["max_step"])})
                # ---- C10: disabled knobs never change ------------------------------
                dv, dt = (temp_disabled(opt, op[3]) if kind == "step" else (set(), set()))
                frozen = [j for j in range(n) if (not va_before[j]) or j in dv]
                if kind == "step" and (op[3].get("enable_vary") is not None or op[3].get("enable_vary_name") is not None):
                    frozen = []
                if not restored:
                    if kind == "step" and not case["opts"].get("check_limits", True):
                        # step() runs _clip_to_limits() before its temporary disable_* arguments take effect
                        for j in frozen:
                            lj = case["vary"][j]["limits"]
                            if va_before[j] and lj is not None:
                                if lj[0] is not None and kn_before[j] < lj[0]:
                                    kn_before[j] = float(lj[0])
                                elif lj[1] is not None and kn_before[j] > lj[1]:
                                    kn_before[j] = float(lj[1])
                    for j in frozen:
                        if kn_after[j].hex() != kn_before[j].hex():
                            out["C10"].append({"what": "disabled knob changed", "op": iop, "knob": j,
                                               "before": H(kn_before[j]), "after": H(kn_after[j])})
                        for i in range(len_before, nrows):
                            if float(L["knobs"][i][j]).hex() != kn_before[j].hex():
                                out["C10"].append({"what": "disabled knob differs in a logged row", "op": iop, "row": i, "knob": j})
                                break
                # ---- C10: temporary arguments undone -------------------------------
                no_enable = kind == "step" and all(op[3].get(k) is None for k in ("enable_target", "enable_vary", "enable_vary_name"))
                if kind == "step" and status == "ok" and no_enable:
                    for j in dv:
                        if not va_after[j]:
                            out["C10"].append({"what": "knob still disabled after step(disable_vary...)", "op": iop, "knob": j})
                    for j in dt:
                        if not ta_after[j]:
                            out["C10"].append({"what": "target still disabled after step(disable_target=...)", "op": iop, "target": j})
                    if not dv and not dt:
                        if va_after != va_before or ta_after != ta_before:
                            out["C10"].append({"what": "step() without temporary arguments changed the active flags", "op": iop})
            # ---- C09 ---------------------------------------------------------------
            if kind == "solve":
                if status == "ok" and case["opts"]["assert_within_tol"]:
                    try:
                        r, errs, _, _ = independent(g, case, kn_after, ta_after)
                        bad = [i for i, t in enumerate(case["targets"])
                               if ta_after[i] and not (t["tol"] is not None and abs(errs[i]) < t["tol"])]
                    except UserFault:
                        bad = ["user function raises at the returned point"]
                    if bad:
                        out["C09"].append({"what": "solve() returned normally but an active target is not within tolerance",
                                           "op": iop, "targets": bad, "knobs": HL(kn_after)})
                if status != "ok" and case["opts"]["restore_if_fail"] and row0 is not None:
                    k0, va0, ta0 = row0
                    tol_u = 0.0 if unit else 8.0
                    badk = [j for j in range(n) if ulps(kn_after[j], k0[j]) > tol_u]
                    if badk or va_after != va0 or ta_after != ta0:
                        out["C09"].append({"what": "solve() raised with restore_if_fail but knobs/flags differ from iteration 0",
                                           "op": iop, "error": status, "knobs": badk, "got": HL(kn_after), "row0": HL(k0),
                                           "va": [va_after, va0], "ta": [ta_after, ta0]})
            # ---- C15 take_best ------------------------------------------------------
            if kind == "step" and status == "ok" and op[2]:
                ta_call = s2b(L["target_active"][nrows - 1])
                try:
                    r, errs, p_fin, scale = independent(g, case, kn_after, ta_call)
                    ok_tol = all((not ta_call[i]) or (t["tol"] is not None and abs(errs[i]) < t["tol"])
                                 for i, t in enumerate(case["targets"]))
                    pens = [float(L["penalty"][i]) for i in range(len_before, nrows)]
                    if any(math.isnan(x) for x in pens) or math.isnan(p_fin):
                        raise UserFault("undefined penalties: minimum not defined")
                    pmin = min(pens)
                    if not ok_tol and not (p_fin <= pmin * (1 + 1e-9) + 1e-9 * scale * 1e-6 + 1e-300):
                        out["C15"].append({"what": "step(take_best=True) ended neither within tolerance nor on the minimum-penalty point",
                                           "op": iop, "final_penalty": H(p_fin), "min_logged": H(pmin), "logged": HL(pens)})
                    if not ok_tol and unit:
                        hit = [i for i in range(len_before, nrows)
                               if float(L["penalty"][i]) == pmin and HL(L["knobs"][i]) == HL(kn_after)]
                        if not hit:
                            out["C15"].append({"what": "step(take_best=True) did not end on a logged point of minimum penalty",
                                               "op": iop, "knobs": HL(kn_after)})
                except UserFault:
                    pass
        if status != "ok" and (kind == "step" or (kind == "solve" and not case["opts"]["restore_if_fail"])):
            tainted = True
        if with_oracles and kind == "step" and status != "ok":
            # observations outside the properties (recorded, never a failure)
            dv, dt = temp_disabled(opt, op[3])
            if any(va_before[j] and not va_after[j] for j in dv) or any(ta_before[j] and not ta_after[j] for j in dt):
                out["observations"]["temporary_flags_left_changed_by_raising_step"] += 1
            if within_limits(case, kn_after):
                out["observations"]["container_outside_limits_after_raising_step"] += 1
            last = [float(v) for v in L["knobs"][nrows - 1]] if nrows else None
            if kn_after != kn_before and kn_after != last:
                out["observations"]["container_left_on_unlogged_point_by_raising_step"] += 1
        if ob["ragged"]:
            out["status"] = "ragged"
            break
    if with_oracles and out["status"] in ("ok", "ragged"):
        out["C15"] += rows_oracle(opt, cont, names, g, case, unit, len(case["ops"]), row_cfg, reconf, row_unit)
    return out, opt


LOG_COLS = (("knobs", "vary"), ("targets", "targets"), ("penalty", "penalty"), ("tag", "tag"), ("alpha", "alpha"),
            ("vary_active", "vary_active"), ("target_active", "target_active"), ("tol_met", "tol_met"), ("hit_limits", "hit_limits"))


def public_log(opt):
    """the log as the PUBLIC entry point Optimize.log() reports it, in the layout of the private lists"""
    tab = opt.log()
    out = {}
    for priv, col in LOG_COLS:
        a = getattr(tab, col)
        out[priv] = [list(r) for r in a] if priv in ("knobs", "targets") else list(a)
    return out


def same_cell(a, b):
    if isinstance(a, (list, tuple, np.ndarray)) or isinstance(b, (list, tuple, np.ndarray)):
        a, b = list(a), list(b)
        return len(a) == len(b) and all(same_cell(x, y) for x, y in zip(a, b))
    try:
        fa, fb = float(a), float(b)
        return fa == fb or (math.isnan(fa) and math.isnan(fb))
    except (TypeError, ValueError):
        return str(a) == str(b)


def public_log_check(opt, iop):
    """C15 speaks about the rows of opt.log(): the public table must show exactly the rows the optimizer recorded
    (and reloads from), row for row, whenever it is asked"""
    L = opt._log
    n = min(len(L[k]) for k in L)
    if n == 0 or any(len(L[k]) != n for k in L):
        return []       # (an empty log - a clear_log() whose evaluation raised - has no table)
    try:
        P = public_log(opt)
    except Exception as ex:
        return [{"what": "Optimize.log() raised", "at": iop, "error": err_class(ex)}]
    for priv, col in LOG_COLS:
        if len(P[priv]) != n:
            return [{"what": "Optimize.log() does not show the rows of the current log: " + str(len(P[priv])) + " rows in column '" +
                             col + "', the log has " + str(n), "at": iop}]
        for i in range(n):
            if not same_cell(P[priv][i], L[priv][i]):
                return [{"what": "Optimize.log() does not show the rows of the current log (reload(i) loads another row than the one displayed)",
                         "at": iop, "row": i, "column": col, "shown": str(P[priv][i])[:200], "recorded": str(L[priv][i])[:200]}]
    return []


def rows_oracle(opt, cont, names, g, case, unit, iop, row_cfg=None, reconf=False, row_unit=None):
    """C15: reload(i) for every row of the current log, then evaluate
    independently.  Works on a deep copy so that the run is not disturbed."""
    fails = []
    L = opt._log
    nrows = min(len(L[k]) for k in L)
    if any(len(L[k]) != nrows for k in L):
        return [{"what": "log columns have different lengths (an exception inside add_point_to_log left one column longer): "
                         "later rows pair knob values with the penalty/targets of another point, reload(i) loads the wrong point",
                 "at": iop,
                 "lengths": {k: len(L[k]) for k in ("knobs", "penalty", "targets", "tag")}}]
    try:
        L = public_log(opt)         # the rows the property is about are those of the public table
    except Exception:
        pass
    saved_rec = CUR["rec"]
    CUR["rec"] = None
    if saved_rec is not None:
        saved_rec["on"] = False
    try:
        o2 = copy.deepcopy(opt)
        e2 = o2._err
        g2 = make_function(case["fun"], None, None)
        unit_now = unit
        for i in range(nrows):
            # exact comparisons only if the weights were 1 both when the row was logged and now
            rw = None if (row_unit is None or i >= len(row_unit)) else row_unit[i]
            unit = unit_now and (rw is None or all(w == 1.0 for w in rw))
            kn_row = [float(v) for v in L["knobs"][i]]
            va_row, ta_row = s2b(L["vary_active"][i]), s2b(L["target_active"][i])
            try:
                o2.reload(iteration=i)
            except Exception as ex:
                if unit and not reconf:
                    fails.append({"what": "reload(i) raised", "at": iop, "row": i, "error": err_class(ex)})
                o2 = copy.deepcopy(opt); e2 = o2._err
                continue
            kn = [float(v.container[v.name]) for v in e2.vary]
            va = [bool(v.active) for v in e2.vary]
            ta = [bool(t.active) for t in e2.targets]
            tol_u = 0.0 if unit else 8.0
            badk = [j for j in range(len(names)) if ulps(kn[j], kn_row[j]) > tol_u]
            if badk:
                fails.append({"what": "reload(i) did not put the row's knob values back", "at": iop, "row": i, "knobs": badk,
                              "got": HL(kn), "row_knobs": HL(kn_row)})
                continue
            if va != va_row or ta != ta_row:
                fails.append({"what": "reload(i) did not restore the row's active flags", "at": iop, "row": i,
                              "va": [va, va_row], "ta": [ta, ta_row]})
                continue
            def agree(at):
                r_, errs_, p_, scale_ = independent(g2, case, at, ta_row,
                                                    None if row_cfg is None or i >= len(row_cfg) else row_cfg[i])
                ok_p = (math.isnan(p_) and math.isnan(float(L["penalty"][i]))) or p_ == float(L["penalty"][i]) or \
                    abs(p_ - float(L["penalty"][i])) <= 1e-9 * max(p_, float(L["penalty"][i])) + 1e-9 * scale_ + 1e-300
                return ok_p and all((math.isnan(a) and math.isnan(float(b))) or a == float(b) or
                                    abs(a - float(b)) <= 1e-9 * (abs(a) + abs(float(b))) + 1e-12 * scale_ + 1e-300
                                    for a, b in zip(r_, L["targets"][i]))
            try:
                if not unit and kn != kn_row and agree(kn_row):
                    continue    # reload moved the knobs by the rounding of the weight scaling: the row is right at its own knobs
                if not unit and rw is not None:
                    rt = [(k / w) * w for k, w in zip(kn_row, rw)]
                    if rt != kn and agree(rt):
                        continue    # the row was evaluated at the round trip under the weights of that time (changed since)
                r, errs, p, scale = independent(g2, case, kn, ta_row,
                                                None if row_cfg is None or i >= len(row_cfg) else row_cfg[i])
            except UserFault:
                continue
            p_row = float(L["penalty"][i])
            t_row = [float(v) for v in L["targets"][i]]
            tcfg = case["targets"] if (row_cfg is None or i >= len(row_cfg)) else row_cfg[i]
            # log10(res) - log10(value) cancels: libm rounding of the two logarithms is an absolute error
            haslog = any(ta_row[k] and tcfg[k].get("optimize_log") for k in range(len(tcfg)))
            if (math.isnan(p) and math.isnan(p_row)) or p == p_row:
                pass        # (equal infinities included)
            elif not abs(p - p_row) <= 1e-9 * max(p, p_row) + (0.0 if (unit and not haslog) else 1e-9 * scale) + 1e-300:
                fails.append({"what": "penalty of the row is not reproduced by an independent evaluation at reload(i)",
                              "at": iop, "row": i, "row_penalty": H(p_row), "recomputed": H(p), "alpha": L["alpha"][i]})
                continue
            for j in range(len(r)):
                if (math.isnan(r[j]) and math.isnan(t_row[j])) or r[j] == t_row[j]:
                    continue        # (equal infinities included)
                if not abs(r[j] - t_row[j]) <= (0.0 if unit else 1e-9 * (abs(r[j]) + abs(t_row[j])) + 1e-12 * scale + 1e-300):
                    fails.append({"what": "target values of the row are not reproduced at reload(i)", "at": iop, "row": i,
                                  "target": j, "row_value": H(t_row[j]), "recomputed": H(r[j])})
                    break
    finally:
        CUR["rec"] = saved_rec
        if saved_rec is not None:
            saved_rec["on"] = True
    return fails


def nonfinite(rec, out):
    """NaN / inf knob values are outside the model (numpy's allclose treats them
    specially and a NaN step never leaves the bisection loop); NaN / inf targets,
    penalties, Jacobians and tolerances are modelled"""
    for k, v in rec["f"]:
        if not all(math.isfinite(x) for x in k):
            return True
    return False


def tables(rec):
    ft, seen = [], {}
    det = True
    for k, v in rec["f"]:
        kk = tuple(x.hex() for x in k)
        vv = None if v is None else [x.hex() for x in v]
        if kk in seen:
            if seen[kk] != vv:
                det = False
            continue
        seen[kk] = vv
        ft.append([list(kk), vv])
    def uniq(items):
        s, o = set(), []
        for it in items:
            key = json.dumps(it)
            if key not in s:
                s.add(key); o.append(it)
        return o
    pen = uniq([[HL(y), H(p)] for y, p in rec["pen"]])
    newton = uniq([[[HL(c) for c in m], HL(b), HL(x)] for m, b, x in rec["newton"]])
    svdfail = uniq([[HL(c) for c in m] for m in rec["svdfail"]])
    bro = uniq([[[[HL(c) for c in key[0]], HL(key[1]), HL(key[2]), HL(key[3]), HL(key[4])], [HL(c) for c in jac]]
                for key, jac in rec["bro"]])
    log10 = uniq([[H(x), H(y)] for x, y in rec["log10"]])
    return {"f": ft, "pen": pen, "newton": newton, "svdfail": svdfail, "bro": bro, "log10": log10, "deterministic": det}


def run_case(case):
    rec = new_rec()
    signal.signal(signal.SIGALRM, _alarm)
    signal.setitimer(signal.ITIMER_REAL, float(case.get("timeout", 5.0)))
    try:
        out, opt = run_sequence(case, rec)
        # ---- C10: a disabled target has no influence on the steps taken -------
        tw = case.get("twin")
        if tw is not None and out["status"] in ("ok", "ragged"):
            rec2 = new_rec()
            out2, _ = run_sequence(case, rec2, twin=(tw[0], tw[1]), with_oracles=False)
            CUR["rec"] = None
            diffs = []
            if out2["status"] != out["status"]:
                diffs.append({"what": "status differs", "a": out["status"], "b": out2["status"]})
            else:
                for i, (a, b) in enumerate(zip(out["steps"], out2["steps"])):
                    ka = (a["out"], a["obs"]["knobs"], a["obs"]["va"], a["obs"]["ta"], a["obs"]["sx"], a["obs"]["loglen"],
                          [(r["knobs"], r["pen"], r["alpha"], r["hit"]) for r in a["obs"]["newrows"]])
                    kb = (b["out"], b["obs"]["knobs"], b["obs"]["va"], b["obs"]["ta"], b["obs"]["sx"], b["obs"]["loglen"],
                          [(r["knobs"], r["pen"], r["alpha"], r["hit"]) for r in b["obs"]["newrows"]])
                    if ka != kb:
                        diffs.append({"what": "runs differing only in a disabled target's component took different steps",
                                      "op": i, "target": tw[0], "a": a["obs"]["knobs"], "b": b["obs"]["knobs"]})
                        break
            out["C10"] += diffs
            out["twin_run"] = True
    except CaseTimeout:
        CUR["rec"] = None
        return {"status": "timeout", "C09": [], "C10": [], "C15": [], "steps": [], "observations": {}}
    finally:
        signal.setitimer(signal.ITIMER_REAL, 0)
        CUR["rec"] = None
    if nonfinite(rec, out):
        out["status"] = "nonfinite" if out["status"] in ("ok", "ragged") else out["status"]
    out["tables"] = tables(rec)
    out["ctor_used"] = rec.get("ctor_used", [])
    out["counts"] = {"mcalls": rec["mcalls"], "jaccalls": rec["jaccalls"], "jsteps": rec["jsteps"],
                     "fcalls": len(rec["f"]), "lstsq": len(rec["newton"]), "bro": len(rec["bro"])}
    return out


def main():
    inp = json.load(sys.stdin)
    # LAPACK reports illegal arguments (a NaN / inf matrix) by printing to the C-level stdout:
    # keep the result channel clean - file descriptor 1 goes to stderr, the JSON to a copy of the original
    sys.stdout.flush()
    out_fd = os.dup(1)
    os.dup2(2, 1)
    result_stream = os.fdopen(out_fd, "w")
    res = []
    for case in inp["cases"]:
        res.append(run_case(case))
    import inspect
    sigs = {c.__name__: [p for p in inspect.signature(c.__init__).parameters if p != "self"]
            for c in (xo.Vary, xo.Target, xo.VaryList, xo.TargetList, xo.Optimize)}
    json.dump({"results": res, "public_api": public_api(), "modelled": sorted(MODELLED), "not_called": NOT_CALLED,
               "ctor_signatures": sigs}, result_stream,
              default=lambda o: o.item() if isinstance(o, np.generic) else str(o))
    result_stream.flush()


if __name__ == "__main__":
    main()
