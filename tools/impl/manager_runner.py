"""Runs manager histories on the real xdeps.Manager over fault-injecting
containers and reports, after every operation, canonical observations plus
the verdicts of the property oracles (pull-model consistency for C01, trace
exactness/order for C02, canonical indices for C03).

stdin : {"cases": [{"store": spec, "ops": [...]}, ...], "opts": {...}}
stdout: {"cases": [[obs_per_op...], ...]}
"""
import sys, json, itertools
if hasattr(sys, "set_int_max_str_digits"):
    sys.set_int_max_str_digits(0)        # histories with a cyclic data flow square their values: huge ints are printed and compared
import xdeps as xd
import xdeps.tasks as xt
from xdeps.tasks import ExprTask, FunctionTask, LinearKnob
from xdeps.refs import Ref, ItemRef, AttrRef, BaseRef, is_cythonized

# ---------------------------------------------------------------- fault injection
FAULT = {"n": None, "kind": "Fault", "rn": None, "fired": False}      # n: writes to go before a write raises; rn: reads


class Injected:
    """marks every injected exception, whatever class it derives from"""


class InjectedFault(Injected, Exception):
    pass


class BaseFault(Injected, BaseException):
    pass


_KINDS = {"Fault": InjectedFault, "BaseFault": BaseFault}


def fault_class(kind):
    if kind not in _KINDS:
        import builtins
        _KINDS[kind] = type("Injected" + kind, (Injected, getattr(builtins, kind)), {})
    return _KINDS[kind]


def _tick():
    n = FAULT["n"]
    if n is not None:
        if n == 0:
            FAULT["fired"] = True
            raise fault_class(FAULT["kind"])("injected container write fault")
        FAULT["n"] = n - 1


def _rtick():
    n = FAULT["rn"]
    if n is not None:
        if n == 0:
            FAULT["fired"] = True
            FAULT["rn"] = None          # one shot: if the library swallows it, nothing else raises in its place
            raise fault_class(FAULT["kind"])("injected container read fault")
        FAULT["rn"] = n - 1


# ---------------------------------------------------------------- keys
# plain str / int keys travel as they are; other key types in a tagged string encoding
class K(__import__("enum").IntEnum):
    A = 6
    B = 7
    C = 8


def dk(k):
    if isinstance(k, str) and k[:1] == "\x01":
        tag, _, v = k[1:].partition(":")
        if tag == "np":
            import numpy as np
            return np.int64(int(v))
        if tag == "np8":
            import numpy as np
            return np.int8(int(v))
        if tag == "enum":
            return K(int(v))
        if tag == "strsub":
            return StrSub(v)
        if tag == "intsub":
            return IntSub(int(v))
        if tag == "f":
            import math
            return math.nan if v == "nan" else float(v)        # the one nan object: a key that is not equal to itself
        if tag == "tup":
            return tuple(json.loads(v))
        if tag == "none":
            return None
        if tag == "bool":
            return bool(int(v))
        raise ValueError("bad key encoding " + repr(k))
    return k


class StrSub(str):
    """a str subclass without a repr of its own: equal to, hashing like and printing like the plain string"""


class IntSub(int):
    pass


def ek(k):
    if type(k) is StrSub:
        return str.__str__(k)
    if type(k) is IntSub:
        return int(k)
    if isinstance(k, bool):
        return "\x01bool:%d" % k
    if isinstance(k, K):
        return "\x01enum:%d" % int(k)
    if isinstance(k, (str, int)):
        return k
    if k is None:
        return "\x01none"
    if isinstance(k, float):
        return "\x01f:" + repr(k)
    if isinstance(k, tuple):
        return "\x01tup:" + json.dumps(list(k))
    tn = type(k).__name__
    if tn == "int64":
        return "\x01np:%d" % int(k)
    if tn == "int8":
        return "\x01np8:%d" % int(k)
    return "\x01other:" + tn + ":" + repr(k)


class FDict(dict):
    def __setitem__(self, k, v):
        _tick()
        dict.__setitem__(self, k, v)

    def __getitem__(self, k):
        _rtick()
        return dict.__getitem__(self, k)


class FList(list):
    def __setitem__(self, k, v):
        _tick()
        list.__setitem__(self, k, v)

    def __getitem__(self, k):
        _rtick()
        return list.__getitem__(self, k)


class FObj:
    def __setattr__(self, k, v):
        _tick()
        object.__setattr__(self, k, v)


import collections


class FUserDict(collections.UserDict):
    """a mapping that is not a dict subclass"""

    def __setitem__(self, k, v):
        if getattr(self, "_live", False):
            _tick()
        collections.UserDict.__setitem__(self, k, v)


def make_slots_class(names):
    """an object with __slots__ (no instance __dict__); one class per attribute set"""
    names = tuple(names)
    cname = "FSlots_" + "_".join(names)
    if cname in globals():
        return globals()[cname]

    def __setattr__(self, k, v):
        _tick()
        object.__setattr__(self, k, v)

    def __getstate__(self):
        return {k: getattr(self, k) for k in type(self).__slots__ if hasattr(self, k)}

    def __setstate__(self, st):
        for k, v in st.items():
            object.__setattr__(self, k, v)
    cls = type(cname, (), {"__slots__": names, "__setattr__": __setattr__, "__getstate__": __getstate__, "__setstate__": __setstate__,
                           "__module__": __name__})
    globals()[cname] = cls          # picklable: the class is found by name in this module
    return cls


class Num:
    """a user-defined number class (duck-typed arithmetic)"""

    def __init__(self, v):
        self.v = v

    def _c(self, o):
        return o.v if isinstance(o, Num) else o

    def __add__(self, o): return Num(self.v + self._c(o))
    def __radd__(self, o): return Num(self._c(o) + self.v)
    def __sub__(self, o): return Num(self.v - self._c(o))
    def __rsub__(self, o): return Num(self._c(o) - self.v)
    def __mul__(self, o): return Num(self.v * self._c(o))
    def __rmul__(self, o): return Num(self._c(o) * self.v)
    def __eq__(self, o): return isinstance(o, Num) and self.v == o.v
    def __hash__(self): return hash(("Num", self.v))
    def __repr__(self): return f"Num({self.v!r})"
    real = property(lambda self: Num(self.v)); imag = property(lambda self: Num(0))
    numerator = property(lambda self: Num(self.v)); denominator = property(lambda self: Num(1))


def dv(v):
    """values: ints travel as they are, other types in a tagged string encoding"""
    if v == "FunSum":
        return fsum
    if v == "FunSum2":
        return fsum2
    if isinstance(v, str) and v[:1] == "\x02":
        tag, _, x = v[1:].partition(":")
        if tag == "f":
            return float(x)
        if tag == "s":
            return x
        if tag == "none":
            return None
        if tag == "b":
            return bool(int(x))
        if tag == "big":
            return int(x)
        if tag == "c":
            return complex(x)
        if tag == "tup":
            return tuple(json.loads(x))
        if tag == "list":
            return json.loads(x)
        if tag == "frac":
            import fractions
            return fractions.Fraction(x)
        if tag == "dec":
            import decimal
            return decimal.Decimal(x)
        if tag == "num":
            return Num(int(x))
        import numpy as np
        if tag == "arr":
            return np.array(json.loads(x))
        if tag == "np":
            return np.int64(int(x))
        if tag == "npf":
            return np.float64(float(x))
        raise ValueError("bad value encoding " + repr(v))
    return v


def fsum(c):
    if isinstance(c, (dict, FUserDict)):
        vals = (list(dict.values(c)) if isinstance(c, dict) else list(c.values()))
    elif isinstance(c, list):
        vals = list(c)
    elif type(c).__name__.startswith("FSlots_"):
        vals = [getattr(c, k) for k in type(c).__slots__ if hasattr(c, k)]
    else:
        vals = list(vars(c).values())
    for v in vals:
        if not isinstance(v, int):
            raise TypeError("sum over non-integer member")
    return sum(vals)


def fsum2(c):
    """reads only the first two members of the container"""
    if isinstance(c, (dict, FUserDict)):
        vals = (list(dict.values(c)) if isinstance(c, dict) else list(c.values()))[:2]
    elif isinstance(c, list):
        vals = list(c)[:2]
    elif type(c).__name__.startswith("FSlots_"):
        vals = [getattr(c, k) for k in type(c).__slots__ if hasattr(c, k)][:2]
    else:
        vals = list(vars(c).values())[:2]
    if len(vals) < 2:
        raise TypeError("sum2 needs two members")
    for v in vals:
        if not isinstance(v, int):
            raise TypeError("sum over non-integer member")
    return sum(vals)


def build(spec):
    """spec: int | "FunSum" | {"kind": dict|list|obj, "items": [[key, spec], ...]}"""
    if isinstance(spec, int):
        return spec
    if spec == "FunSum":
        return fsum
    if spec == "FunSum2":
        return fsum2
    if isinstance(spec, str):
        return dv(spec)
    kind = spec["kind"]
    if kind == "dict":
        d = FDict()
        for k, v in spec["items"]:
            dict.__setitem__(d, dk(k), build(v))
        return d
    if kind == "list":
        return FList([build(v) for _, v in spec["items"]])
    if kind == "userdict":
        d = FUserDict()
        for k, v in spec["items"]:
            d[dk(k)] = build(v)
        object.__setattr__(d, "_live", True)
        return d
    if kind == "slots":
        o = make_slots_class([k for k, _ in spec["items"]])()
        for k, v in spec["items"]:
            object.__setattr__(o, k, build(v))
        return o
    if kind in ("attrdict", "attrdict_plain"):  # the library's default container (attribute and item access in sync)
        from xdeps.utils import AttrDict
        d = AttrDict() if len(spec["items"]) % 2 or kind == "attrdict_plain" else make_attrdict_sub()()          # ... or a user subclass of it
        for k, v in spec["items"]:
            d[k] = build(v)
        return d
    o = FObj()
    for k, v in spec["items"]:
        object.__setattr__(o, k, build(v))
    return o


_FLAT = []      # containers being flattened (a container reachable from its own contents is listed once)


def flatten(obj, pre, out):
    if isinstance(obj, dict):          # FDict and AttrDict containers (dict VALUES are not generated)
        if any(o is obj for o in _FLAT):
            out.append([pre, "<the container itself>"])
            return
        _FLAT.append(obj)
        try:
            for k, v in dict.items(obj):
                flatten(v, pre + [ek(k)], out)
        finally:
            _FLAT.pop()
    elif isinstance(obj, FList):
        for i, v in enumerate(obj):
            flatten(v, pre + [i], out)
    elif isinstance(obj, FUserDict):
        for k, v in obj.data.items():
            flatten(v, pre + [ek(k)], out)
    elif isinstance(obj, FObj):
        for k, v in vars(obj).items():
            flatten(v, pre + [k], out)
    elif type(obj).__name__.startswith("FSlots_"):
        for k in type(obj).__slots__:
            if hasattr(obj, k):
                flatten(getattr(obj, k), pre + [k], out)
    elif obj is fsum:
        out.append([pre, "FunSum"])
    elif obj is fsum2:
        out.append([pre, "FunSum2"])
    elif isinstance(obj, BaseRef):
        out.append([pre, "<ref " + str(obj) + ">"])
    elif hasattr(obj, "__self__") and hasattr(obj, "__func__"):
        out.append([pre, "<bound method " + obj.__func__.__qualname__ + ">"])
    else:
        out.append([pre, obj if isinstance(obj, int) and not isinstance(obj, bool) else repr(obj)])


# ---------------------------------------------------------------- refs <-> paths
ROOTKIND = {}      # label -> "ref" | "refattr" | "env" for the current case
ENVS = {}


def mkref(roots, path):
    r = roots[path[0]]
    for n, (kind, key) in enumerate(path[1:]):
        if kind == "i" and n == 0 and ROOTKIND.get(path[0]) == "refattr" and isinstance(key, str) and key.isidentifier() \
                and not key.startswith("_"):
            r = getattr(r, key)          # Manager.refattr: attribute access on the root is item access
        elif kind == "k":
            r = r[mkref(roots, key)]     # a computed key: the item whose key is the current value of another location
        else:
            r = r[dk(key)] if kind == "i" else getattr(r, key)
    return r


def make_attrdict_sub():
    """a user subclass of the library's AttrDict with behaviour of its own (a method and a write counter)"""
    if "FAttrDict" not in globals():
        from xdeps.utils import AttrDict

        class FAttrDict(AttrDict):
            writes = 0

            def __setitem__(self, k, v):
                type(self).writes += 1
                AttrDict.__setitem__(self, k, v)

            def total(self):
                return len(self)
        FAttrDict.__module__ = __name__
        FAttrDict.__qualname__ = "FAttrDict"
        globals()["FAttrDict"] = FAttrDict
    return globals()["FAttrDict"]


class WriteAction:
    """the action of a generated FunctionTask: a picklable callable (a manager holding it can be pickled)"""

    def __init__(self, writes):
        self.writes = writes

    def __call__(self):
        for r, e in self.writes:
            r._set_value(e._get_value() if isinstance(e, BaseRef) else e)

    def update(self):          # the same action as a bound method of an object nobody else refers to
        self()


def make_roots(m2, data2):
    """a twin manager gets its containers the same way (ref / refattr / newenv) as the manager under test"""
    out = {}
    for label, d in data2.items():
        rk = ROOTKIND.get(label, "ref")
        out[label] = m2.newenv(label, d)._ if rk == "env" else m2.refattr(d, label) if rk == "refattr" else m2.ref(d, label)
    return out


def assign(m, roots, path, value, route):
    """the same assignment through one of the public routes"""
    ref = mkref(roots, path)
    kind, key = path[-1]
    if route in ("env", "envattr") and len(path) == 2 and path[0] in ENVS and kind == "i":
        if route == "envattr" and isinstance(key, str) and key.isidentifier() and not key.startswith("_"):
            setattr(ENVS[path[0]], key, value)
        else:
            ENVS[path[0]][dk(key)] = value
    elif route == "item" or route in ("env", "envattr"):
        owner = mkref(roots, path[:-1])
        if kind == "i":
            owner[dk(key)] = value
        else:
            setattr(owner, key, value)
    elif route == "toexpr" and isinstance(value, BaseRef):
        ref._set_to_expr(value)          # the low-level route behind `ref[...] = expr`
    else:
        m.set_value(ref, value)


def same_expr(a, b):
    """structural equality of two expression trees through their constructor arguments (__reduce__), comparing literal
    operands by TYPE and value (== on references compares printed forms, which drop the type of a literal)"""
    if a is b:
        return True
    if isinstance(a, BaseRef) != isinstance(b, BaseRef):
        return False
    if not isinstance(a, BaseRef):
        if type(a) is not type(b):
            return False
        if isinstance(a, (tuple, list)):
            return len(a) == len(b) and all(same_expr(x, y) for x, y in zip(a, b))
        if isinstance(a, dict):
            return list(a) == list(b) and all(same_expr(a[k], b[k]) for k in a)
        try:
            import numpy as np
            if isinstance(a, np.ndarray):
                return a.shape == b.shape and a.dtype == b.dtype and bool(np.array_equal(a, b, equal_nan=a.dtype.kind in "fc"))
            r = a == b
            return bool(r) or (a != a and b != b) or a is b
        except Exception:
            return a is b
    if type(a) is not type(b):
        return False
    if isinstance(a, Ref):
        return a._owner is b._owner and a._key == b._key
    ra, rb = a.__reduce__(), b.__reduce__()
    return ra[0] is rb[0] and same_expr(tuple(ra[1]), tuple(rb[1]))


def typed_literals(m):
    """does some definition hold a literal whose printed form does not read back as the same object (Decimal, Fraction,
    numpy scalars, user numbers)?  dump()/load() is a TEXT round trip and cannot carry those."""
    def lit(x):
        if isinstance(x, BaseRef):
            if isinstance(x, Ref):
                return False
            return any(lit(a) for a in x.__reduce__()[1])
        if isinstance(x, (tuple, list)):
            return any(lit(a) for a in x)
        if isinstance(x, dict):
            return any(lit(a) for a in x.values())
        if type(x) is float:
            return x != x or x in (float("inf"), float("-inf"))          # nan / inf print as bare names
        return not (x is None or type(x) in (int, str, bool, StrSub, IntSub) or callable(x) or isinstance(x, xd.Manager))
    return any(lit(t.expr) or lit(t.taskid) for t in m.tasks.values() if isinstance(t, ExprTask))


def load_definitions(m, m2, roots2):
    """the definitions of m put into the fresh manager m2 (same labels, other containers): through the text dump when it
    carries everything, otherwise by rebuilding every expression node from its constructor arguments"""
    if not typed_literals(m):
        m2.load(m.dump())
        return

    def rebuild(x):
        if isinstance(x, BaseRef):
            if isinstance(x, Ref):
                return roots2[x._key]
            cls, args = x.__reduce__()[:2]
            return cls(*[rebuild(a) for a in args])
        if x is m:
            return m2
        if isinstance(x, tuple):
            return tuple(rebuild(a) for a in x)
        if isinstance(x, list):
            return [rebuild(a) for a in x]
        if isinstance(x, dict):
            return {k: rebuild(a) for k, a in x.items()}
        return x
    for t in list(m.tasks.values()):
        m2.register(ExprTask(rebuild(t.taskid), rebuild(t.expr)))        # what load() does with each pair: no evaluation


def ref_path(r):
    steps = []
    r0 = r
    while not isinstance(r, Ref):
        if isinstance(r, ItemRef):
            steps.append(ek(r._key))
        elif isinstance(r, AttrRef):
            steps.append(r._key)
        else:
            return ["$expr", str(r0)]       # an attribute / item of an expression's value: named by its full printed form
        r = r._owner
    return [r._key] + steps[::-1]


STRIDS = {}      # actual string task id (the printed form of a reference, made unique by trailing blanks) -> name in the case


def tid_path(tid):
    if isinstance(tid, BaseRef):
        return ref_path(tid)
    return ["$task", STRIDS.get(tid, tid)]


def mkexpr(roots, e):
    k = e[0]
    if k == "const":
        return dv(e[1])
    if k == "ref":
        return mkref(roots, e[1])
    if k == "bin":
        a, b = mkexpr(roots, e[2]), mkexpr(roots, e[3])
        return a + b if e[1] == "+" else a - b if e[1] == "-" else a * b if e[1] == "*" else a % b if e[1] == "%" else a ** b if e[1] == "**" else a // b
    if k in ("callsum", "callsum2"):
        return mkref(roots, e[1])(mkref(roots, e[2]))
    if k == "proj":
        inner = mkexpr(roots, e[2])
        return getattr(inner, e[1])
    raise ValueError(e)


# ---------------------------------------------------------------- instrumentation
TRACE = []
STARTS = []
SELFDEP = set()      # function tasks of the current case that read one of their own targets


def _wrap_run(cls):
    orig = cls.run

    def run(self):
        r = orig(self)
        TRACE.append(tid_path(self.taskid))
        return r
    cls.run = run


for _c in (ExprTask, FunctionTask, LinearKnob):
    _wrap_run(_c)

_orig_toposort = xt.toposort


def _toposort(graph, start=None):
    if isinstance(start, set):
        # the iteration order of the (unmodified) set object is recorded; the set itself is passed on, so that code
        # depending on the TYPE of the start collection behaves as in production
        STARTS.append([tid_path(t) for t in start])
    return _orig_toposort(graph, start)


xt.toposort = _toposort


def exc_name(e):
    if isinstance(e, Injected):
        return "Fault"
    if isinstance(e, RuntimeError) and isinstance(e.__cause__, Injected):
        return "Fault"          # PEP 479: a StopIteration crossing a generator frame arrives as RuntimeError from it
    if isinstance(e.__context__, Injected) or isinstance(e.__cause__, Injected):
        return "Masked:" + type(e).__name__      # the injected exception was caught and another one raised instead
    for cls in (KeyError, IndexError, AttributeError, TypeError, ValueError, RecursionError, ZeroDivisionError):
        if isinstance(e, cls):
            return cls.__name__
    return type(e).__name__


# ---------------------------------------------------------------- observations
def snapshot(m, roots_data, knobs):
    st = []
    for label, data in roots_data.items():
        flatten(data, [label], st)
    idx = {}
    for name in ("rdeps", "rtasks", "deptasks", "tartasks"):
        d = getattr(m, name)
        idx[name] = [[tid_path(k), [[tid_path(k2), n] for k2, n in rc.items()]] for k, rc in d.items() if len(rc)]
    tasks = []
    for tid, t in m.tasks.items():
        kind = "expr" if isinstance(t, ExprTask) else "knob" if isinstance(t, LinearKnob) else "fun"
        tasks.append([tid_path(tid), kind, [ref_path(x) for x in t.dependencies], [ref_path(x) for x in t.targets]])
    prev = [[tid_path(t.taskid), t.prev_value if isinstance(t.prev_value, int) else repr(t.prev_value)]
            for t in m.tasks.values() if isinstance(t, LinearKnob)]
    return {"store": st, "indices": idx, "tasks": tasks, "prev": prev, "frozen": bool(m._tree_frozen),
            "dump": [[a, b] for a, b in m.dump()]}


def spec_leaf_paths(store):
    """the leaf locations of a store spec as paths"""
    out = []

    def walk(node, pre):
        stp = "i" if node["kind"] in ("dict", "list", "userdict") else "a"
        for k, v in node["items"]:
            if isinstance(v, dict):
                walk(v, pre + [[stp, k]])
            else:
                out.append(pre + [[stp, k]])
    for label, node in store:
        if isinstance(node, dict) and label != "f":
            walk(node, [label])
    return out


def frozen_queries(m, roots, paths):
    """the read-only query API asked about every leaf location (also locations nothing was ever asked about): the tasks
    writing it, the locations depending on it - or the class of the exception the query raised"""
    out = []
    for p in paths:
        try:
            r = mkref(roots, p)
            out.append([sorted(str(t) for t in r._tasks), sorted(str(x) for x in r._find_dependant_targets()),
                        sorted(str(x) for x in m.find_deps([r]))])
        except Exception as e:
            out.append("QUERY RAISED " + exc_name(e))
    return out


def canon_ok(m):
    """C03 oracle: the four indices equal what the surviving tasks define
    (multiplicities included), derived from public task attributes only."""
    from collections import Counter
    T = list(m.tasks.values())
    rd, dt, tt, rt = Counter(), Counter(), Counter(), Counter()
    for A in T:
        for d in A.dependencies:
            dt[(d, A.taskid)] += 1
            for t in A.targets:
                rd[(d, t)] += 1
        for t in A.targets:
            tt[(t, A.taskid)] += 1
        for B in T:
            n = len(set(A.targets) & set(B.dependencies))
            if n:
                rt[(A.taskid, B.taskid)] += n
    bad = []
    for name, want in (("rdeps", rd), ("deptasks", dt), ("tartasks", tt), ("rtasks", rt)):
        have = Counter()
        for k, rc in getattr(m, name).items():
            for k2, n in rc.items():
                have[(k, k2)] += n
        if have != want:
            diff = [(str(a), str(b), have.get((a, b), 0), want.get((a, b), 0)) for (a, b) in set(have) | set(want)
                    if have.get((a, b), 0) != want.get((a, b), 0)]
            bad.append([name, sorted(diff)[:4]])
    return bad


def consistency(m):
    """C01 oracle (pull model): every expression-defined location holds the
    value of its expression on the current containers."""
    bad = []
    for tid, t in m.tasks.items():
        if isinstance(t, ExprTask):
            try:
                want = t.expr._get_value()
                have = tid._get_value()
            except Exception:
                continue
            if repr(want) != repr(have) or type(want) is not type(have):
                bad.append([ref_path(tid), have if isinstance(have, int) else repr(have), want if isinstance(want, int) else repr(want)])
    return bad


FUNWRITES = {}


def fun_consistency(m, trace):
    """each target of a function task that ran in this update holds what the task prescribes (the harness's function tasks
    perform writes target := expression); targets with a second writer are left out"""
    bad = []
    ran = {json.dumps(x) for x in trace}
    for tid, t in m.tasks.items():
        if not isinstance(t, FunctionTask) or json.dumps(tid_path(tid)) not in ran:
            continue
        writes = FUNWRITES.get(json.dumps(tid_path(tid)))      # what the harness registered, not what the task object holds
        if writes is None:
            continue
        for r, e in writes:
            if len(m.tartasks[r]) != 1:
                continue
            try:
                want = e._get_value() if isinstance(e, BaseRef) else e
                have = r._get_value()
            except Exception:
                continue
            if repr(want) != repr(have):
                bad.append([ref_path(r), have if isinstance(have, int) else repr(have), want if isinstance(want, int) else repr(want), "fun"])
    return bad


def triggered(m, sd):
    """C02 oracle: tasks transitively depending on the start locations,
    from the public task attributes."""
    T = list(m.tasks.values())
    sd = set(sd)
    S = [t for t in T if set(t.dependencies) & sd]
    seen = {id(t): t for t in S}
    todo = list(S)
    while todo:
        a = todo.pop()
        for b in T:
            if id(b) not in seen and set(a.targets) & set(b.dependencies):
                seen[id(b)] = b
                todo.append(b)
    return list(seen.values())


def order_cycle(tasks):
    """does the ordering relation (targets A & deps B, A != B) restricted to
    these tasks contain a cycle?"""
    for t in tasks:
        # a definition that reads its own target is a genuine data-flow cycle (outside the properties)
        if isinstance(t, ExprTask) and t.taskid in t.dependencies:
            return True
        if isinstance(t, FunctionTask) and t.taskid in SELFDEP:
            return True
    ids = {id(t): i for i, t in enumerate(tasks)}
    adj = {i: [] for i in ids.values()}
    for a in tasks:
        for b in tasks:
            if a is not b and set(a.targets) & set(b.dependencies):
                adj[ids[id(a)]].append(ids[id(b)])
    color = {}

    def dfs(u):
        stack = [(u, iter(adj[u]))]
        color[u] = 1
        while stack:
            v, it = stack[-1]
            for w in it:
                if color.get(w) == 1:
                    return True
                if w not in color:
                    color[w] = 1
                    stack.append((w, iter(adj[w])))
                    break
            else:
                color[v] = 2
                stack.pop()
        return False
    return any(dfs(u) for u in adj if u not in color)


def trace_verdict(m, sd, trace_ids, err):
    """exact set, once each, producers before consumers (when no cycle)"""
    trig = triggered(m, sd)
    want = sorted(json.dumps(tid_path(t.taskid)) for t in trig)
    have = sorted(json.dumps(x) for x in trace_ids)
    res = {"cycle": order_cycle(trig), "n_triggered": len(trig)}
    if len(set(have)) != len(have):
        res["dup"] = True
    if err is None and want != have:
        res["set_mismatch"] = [want, have]
    if err is not None and not set(have) <= set(want):
        res["ran_untriggered"] = True
    if not res["cycle"]:
        pos = {json.dumps(x): i for i, x in enumerate(trace_ids)}
        for a in trig:
            for b in trig:
                if a is not b and set(a.targets) & set(b.dependencies):
                    ka, kb = json.dumps(tid_path(a.taskid)), json.dumps(tid_path(b.taskid))
                    if ka in pos and kb in pos and pos[ka] > pos[kb]:
                        res["order"] = [ka, kb]
    return res


_orig_find_tasks = xt.Manager.find_tasks
LISTED = []


def _find_tasks(self, start_deps=None):
    res = _orig_find_tasks(self, start_deps)
    LISTED.append([tid_path(t.taskid) for t in res])
    return res


xt.Manager.find_tasks = _find_tasks


def put_back_data(roots_data, saved):
    """the real root containers get the contents of a saved deep copy (the objects the references point to stay)"""
    import copy
    for label, root in roots_data.items():
        snap = copy.deepcopy(saved[label])
        if isinstance(root, dict):
            dict.clear(root)
            for k, v in dict.items(snap):
                dict.__setitem__(root, k, v)
        else:
            root.__dict__.clear()
            root.__dict__.update(vars(snap))


def gen_fun_check(m, roots, roots_data, arg_paths, values, obs):
    """C13: g = manager.gen_fun('g', x0=ref0, ...); g(v0, ...) on the real containers, compared with a
    twin manager (same definitions, copied containers) on which the values are assigned through
    set_value one after the other."""
    import copy
    res = {"err": None, "cycle": False}
    if not all(isinstance(t, ExprTask) for t in m.tasks.values()):
        return {"skipped": "non-expression tasks", "err": None}
    data2 = copy.deepcopy(roots_data)
    data0 = copy.deepcopy(roots_data)          # to put the real containers back before the manager route on m itself
    m2 = xd.Manager()
    roots2 = make_roots(m2, data2)
    m2.load(m.dump())
    refs = [mkref(roots, p) for p in arg_paths]
    start = set()
    for r in refs:
        r._get_dependencies(start)
    obs["sd_order"] = [ref_path(x) for x in start]
    del LISTED[:]
    del STARTS[:]
    try:
        kwargs = {f"x{i}": r for i, r in enumerate(refs)}
        res["source"] = m.mk_fun("g", **kwargs)
        del LISTED[:]
        del STARTS[:]
        g = m.gen_fun("g", **kwargs)
        obs["start_order"] = STARTS[-1] if STARTS else []
        res["listed"] = LISTED[-1] if LISTED else []
        g(*[dv(v) for v in values])
        TRACE.extend(res["listed"])          # the function ran every listed task
    except Exception as e:
        res["err"] = exc_name(e)
    # twin: assign through the manager
    tainted = False
    for p, v in zip(arg_paths, values):
        r2 = mkref(roots2, p)
        sd = r2._get_dependencies()
        try:
            m2.set_value(r2, dv(v))
        except Exception as e:
            res["twin_err"] = exc_name(e)
            break
        if order_cycle(triggered(m2, sd)):
            tainted = True
    res["cycle"] = tainted
    del TRACE[:]                         # drop the twin manager's runs from the trace of this operation
    if res["err"] is None:
        TRACE.extend(res["listed"])
    sa, sb = [], []
    for label in roots_data:
        flatten(roots_data[label], [label], sa)
        flatten(data2[label], [label], sb)
    if res["err"] is not None:
        return res          # both routes are compared only when the generated function ran to the end
    # the manager route on THIS manager (not a freshly loaded one: hidden state of the manager under test counts): the real
    # containers are put back to their contents before the call, then the values are assigned through m
    if not res.get("twin_err"):
        put_back = lambda saved: put_back_data(roots_data, saved)
        data_after_g = copy.deepcopy(roots_data)
        put_back(data0)
        keep = list(TRACE)
        for p, v in zip(arg_paths, values):
            try:
                m.set_value(mkref(roots, p), dv(v))
            except Exception as e:
                res["own_err"] = exc_name(e)
                break
        del TRACE[:]
        TRACE.extend(keep)
        sc = []
        for label in roots_data:
            flatten(roots_data[label], [label], sc)
        if sc != sa and "own_err" not in res:
            res["own_differs"] = [[x, y] for x, y in zip(sa, sc) if x != y][:4]
        put_back(data_after_g)       # the operation under observation is the call of the generated function: its result stays
    res["equal"] = (sa == sb)
    if sa != sb:
        import re
        zn = lambda t: re.sub(r"-0j", "0j", re.sub(r"-0\.(?![0-9])", "0.", re.sub(r"-0\.0(?![0-9])", "0.0", json.dumps(t))))
        res["zero_only"] = (zn(sa) == zn(sb))          # the two routes differ in the sign of a zero and in nothing else
        res["diff"] = [[x, y] for x, y in zip(sa, sb) if x != y][:4]
    # the source lists each triggered task once, producers first
    trig = triggered(m, start)
    want = sorted(json.dumps(tid_path(t.taskid)) for t in trig)
    have = sorted(json.dumps(x) for x in res["listed"])
    if want != have:
        res["listed_mismatch"] = [want, have]
    if not order_cycle(trig):
        pos = {json.dumps(x): i for i, x in enumerate(res["listed"])}
        for a in trig:
            for b in trig:
                if a is not b and set(a.targets) & set(b.dependencies):
                    ka, kb = json.dumps(tid_path(a.taskid)), json.dumps(tid_path(b.taskid))
                    if ka in pos and kb in pos and pos[ka] > pos[kb]:
                        res["order"] = [ka, kb]
    else:
        res["cycle"] = True
    return res


def pickle_check(m, roots_data, followups):
    """C12 oracle on managers with nested targets: the unpickled manager has the same definitions, the same
    indices WITH multiplicities, passes verify, reacts identically to follow-up assignments, and shares nothing."""
    import pickle
    problems = []

    def counts(mm):
        return {name: {f"{k} -> {k2}": n for k, rc in getattr(mm, name).items() for k2, n in rc.items()}
                for name in ("rdeps", "rtasks", "deptasks", "tartasks")}

    def store(mm):
        st = []
        for label, r in mm.containers.items():
            flatten(r._owner, [label], st)
        return st
    try:
        m2 = pickle.loads(pickle.dumps(m))
    except RecursionError:
        return {"problems": ["pickle round trip raised RecursionError"]}
    except Exception as e:
        return {"problems": [f"pickle round trip raised {type(e).__name__}: {e}"[:200]]}
    if m2.dump() != m.dump():
        problems.append("dump() differs")
    def knob_state(mm):
        return sorted((str(t.taskid), repr(t.prev_value), repr(t.weights)) for t in mm.tasks.values() if isinstance(t, LinearKnob))
    if knob_state(m2) != knob_state(m):
        problems.append(f"state of the linear-knob tasks differs: original {knob_state(m)[:3]}, restored {knob_state(m2)[:3]}")
    if sorted((str(k), type(t).__name__) for k, t in m.tasks.items()) != sorted((str(k), type(t).__name__) for k, t in m2.tasks.items()):
        problems.append("task ids / task classes differ")
    def classes(mm):
        out = []

        def walk(o, pre):
            out.append((pre, type(o).__name__))
            if pre.endswith("/_back"):
                return
            if isinstance(o, dict):
                for k, v in dict.items(o):
                    walk(v, pre + "/" + str(ek(k)))
            elif isinstance(o, FUserDict):
                for k, v in o.data.items():
                    walk(v, pre + "/" + str(ek(k)))
            elif isinstance(o, list):
                for i, v in enumerate(o):
                    walk(v, pre + "/" + str(i))
            elif isinstance(o, FObj):
                for k, v in vars(o).items():
                    walk(v, pre + "/" + k)
        for label, r in mm.containers.items():
            walk(r._owner, label)
        return out
    if classes(m2) != classes(m):
        diff = [(a, b) for a, b in zip(classes(m), classes(m2)) if a != b][:3]
        problems.append(f"classes of containers / values differ after the round trip (original, restored): {diff}")
    if bool(m2._tree_frozen) != bool(m._tree_frozen):
        problems.append(f"frozen state differs: original {m._tree_frozen!r}, restored {m2._tree_frozen!r}")
    c1, c2 = counts(m), counts(m2)
    if c1 != c2:
        diff = [(n, k, c1[n].get(k), c2[n].get(k)) for n in c1 for k in set(c1[n]) | set(c2[n]) if c1[n].get(k) != c2[n].get(k)]
        problems.append(f"dependency indices differ (index, entry, original count, restored count): {sorted(diff)[:3]}")
    try:
        m2.verify()
    except Exception as e:
        problems.append(f"verify() of the restored manager raised {type(e).__name__}")
    if store(m2) != store(m):
        problems.append("restored container contents differ")
    roots2 = dict(m2.containers)
    roots1 = dict(m.containers)
    for p, v in followups:
        before2 = store(m2)
        e1 = e2 = None
        try:
            m.set_value(mkref(roots1, p), dv(v))
        except Exception as e:
            e1 = exc_name(e)
        if store(m2) != before2:
            problems.append("an assignment to the original changed the copy"); break
        try:
            m2.set_value(mkref(roots2, p), dv(v))
        except Exception as e:
            e2 = exc_name(e)
        if e1 != e2:
            problems.append(f"follow-up {p} raised differently: {e1} vs {e2}"); break
        if store(m) != store(m2):
            problems.append(f"after the same follow-up {p}={v} the containers differ"); break
        if counts(m) != counts(m2):
            problems.append(f"after the same follow-up {p}={v} the dependency indices differ"); break
    try:
        m.verify(); m2.verify()
    except Exception as e:
        problems.append(f"verify() after the follow-up raised {type(e).__name__}: {str(e)[:100]}")
    return {"problems": problems}


CLONES = []
ALIVE = []


def clone_check(m, clones, roots, roots_data, followups, redefine=None):
    """C03: a clone made earlier keeps behaving like a fresh manager holding the definitions it was made with, whatever
    was removed or replaced in the original since (and vice versa: the original is not affected by its clones).
    The clone shares the containers; each follow-up is assigned through the clone and through a reference manager
    freshly loaded with the clone's dump, on a deep copy of the data taken just before."""
    import copy
    res = {"problems": []}
    if not clones:
        return res
    data_before = copy.deepcopy(roots_data)
    try:
        return _clone_check(m, clones, roots, roots_data, followups, redefine, res)
    finally:
        # the clone writes into the SHARED containers: what it wrote is taken back, so that the original manager goes on
        # from data that agrees with its own definitions
        put_back_data(roots_data, data_before)


def _clone_check(m, clones, roots, roots_data, followups, redefine, res):
    import copy
    c = clones[-1]
    if not all(isinstance(t, ExprTask) for t in c.tasks.values()):
        return {"skipped": "non-expression tasks"}
    try:
        c.verify()
    except Exception as e:
        res["problems"].append(f"verify() of the clone raised {type(e).__name__}: {str(e)[:80]}")
    croots = dict(c.containers)
    # the original went on writing into the shared containers under ITS definitions: the data is first brought in line with
    # the clone's definitions (every task of the clone run once, producers first), as a freshly loaded manager does
    try:
        allt = c.find_tasks()
        if order_cycle(allt):
            res["cycle"] = True
        c.run_tasks(allt)
    except Exception as e:
        return {"skipped": "the clone's definitions do not evaluate on the current data: " + exc_name(e)}
    for p, v in followups:
        data2 = copy.deepcopy(roots_data)
        m2 = xd.Manager()
        roots2 = make_roots(m2, data2)
        try:
            load_definitions(c, m2, roots2)
        except Exception as e:
            res["problems"].append(f"dump of the clone does not load: {type(e).__name__}"); break
        e1 = e2 = None
        try:
            sd = mkref(croots, p)._get_dependencies()
            if order_cycle(triggered(c, sd)):
                res["cycle"] = True
            c.set_value(mkref(croots, p), dv(v))
        except Exception as e:
            e1 = exc_name(e)
        try:
            m2.set_value(mkref(roots2, p), dv(v))
        except Exception as e:
            e2 = exc_name(e)
        sa, sb = [], []
        for label in roots_data:
            flatten(roots_data[label], [label], sa)
            flatten(data2[label], [label], sb)
        if e1 != e2 or sa != sb:
            res["problems"].append([p, v, e1, e2, [x for x, y in zip(sa, sb) if x != y][:3], [y for x, y in zip(sa, sb) if x != y][:3]])
            break
    if redefine:
        # the clone is a manager of its own: a definition added through it must not show in the original
        before = canon_ok(m)
        try:
            c.set_value(mkref(croots, redefine[0]), mkref(croots, redefine[1]) + 1)
        except Exception as e:
            res["redefine_err"] = exc_name(e)
        after = canon_ok(m)
        if after != before:
            res["problems"].append(f"a definition made through the clone changed the indices of the original: {after[:2]}")
    try:
        m.verify()
    except Exception as e:
        res["problems"].append(f"verify() of the original raised {type(e).__name__} after the clone was used")
    return res


def fresh_check(m, roots, roots_data, leaves, followups):
    """C03 oracle: a fresh manager holding only the surviving definitions answers
    every query and reacts to later assignments like the one with the history."""
    import copy
    if not all(isinstance(t, ExprTask) for t in m.tasks.values()):
        return {"skipped": "non-expression tasks"}
    data2 = copy.deepcopy(roots_data)
    m2 = xd.Manager()
    roots2 = make_roots(m2, data2)
    load_definitions(m, m2, roots2)
    if m._tree_frozen:
        m2.freeze_tree()          # the fresh manager is put in the same frozen state
    res = {"queries": [], "followup": [], "cycle": False}
    try:
        m.verify(); m2.verify()
    except ValueError as e:
        res["queries"].append(["verify", str(e)[:80]])
    for p in leaves:
        a, b = mkref(roots, p), mkref(roots2, p)
        qa = (sorted(str(x) for x in a._find_dependant_targets()), sorted(str(x) for x in m.tartasks[a]), str(a._expr),
              sorted(str(x) for x in m.deptasks[a]))
        qb = (sorted(str(x) for x in b._find_dependant_targets()), sorted(str(x) for x in m2.tartasks[b]), str(b._expr),
              sorted(str(x) for x in m2.deptasks[b]))
        if qa != qb:
            res["queries"].append([p, qa, qb])
    for p, val in followups:
        ra, rb = mkref(roots, p), mkref(roots2, p)
        ea = eb = None
        try:
            sd = ra._get_dependencies()
            m.set_value(ra, dv(val))
        except Exception as e:
            ea = exc_name(e)
        try:
            m2.set_value(rb, dv(val))
        except Exception as e:
            eb = exc_name(e)
        if order_cycle(triggered(m, sd)):
            res["cycle"] = True
        sa, sb = [], []
        for label in roots_data:
            flatten(roots_data[label], [label], sa)
            flatten(data2[label], [label], sb)
        if ea != eb or sa != sb:
            res["followup"].append([p, val, ea, eb, [x for x, y in zip(sa, sb) if x != y][:4], [y for x, y in zip(sa, sb) if x != y][:4]])
    return res


# ---------------------------------------------------------------- running a case
def run_case(case, opts):
    FAULT["n"] = None
    FAULT["rn"] = None
    FAULT["fired"] = False
    SELFDEP.clear()
    m = xd.Manager()
    ALIVE.append(m)            # managers of earlier cases stay alive (same labels and keys, other containers): state kept
    del ALIVE[:-4]             # outside a manager - module-level caches keyed by printed forms - would leak between them
    roots, roots_data = {}, {}
    ROOTKIND.clear(); ENVS.clear(); del CLONES[:]; FUNWRITES.clear(); STRIDS.clear()
    for label, spec in case["store"]:
        data = build(spec)
        roots_data[label] = data
        rk = spec.get("root", "ref") if isinstance(spec, dict) else "ref"
        ROOTKIND[label] = rk
        if rk == "env":
            ENVS[label] = m.newenv(label, data)
            roots[label] = ENVS[label]._
        elif rk == "refattr":
            roots[label] = m.refattr(data, label)
        else:
            roots[label] = m.ref(data, label)
    out = []
    qpaths = spec_leaf_paths(case["store"])
    snap = opts.get("snapshots", True)
    nops = len(case["ops"])
    for iop, op in enumerate(case["ops"]):
        heavy = snap or iop == nops - 1        # big cases: judge only the last operation
        del TRACE[:]
        del STARTS[:]
        kind = op[0]
        obs = {"err": None}
        sd_refs = None
        try:
            if kind == "set":
                ref = mkref(roots, op[1])
                sd_refs = ref._get_dependencies()
                obs["sd_order"] = [ref_path(x) for x in sd_refs]
                route = op[3] if len(op) > 3 else "sv"
                if op[2][0] == "plain":
                    assign(m, roots, op[1], dv(op[2][1]), route)
                    if ref._expr is not None:
                        obs["defn"] = f"{ref} still has the definition {ref._expr} after a plain value was assigned"
                else:
                    assigned = mkexpr(roots, op[2][1])
                    assign(m, roots, op[1], assigned, route)
                    # the definition of the location is now the expression that was assigned (the object itself or a
                    # structurally equal one, literal TYPES included) - not an earlier one that merely prints the same
                    if isinstance(assigned, BaseRef) and not same_expr(ref._expr, assigned):
                        obs["defn"] = f"{ref} was assigned {assigned} but its definition is {ref._expr!r} (literal types compared)"
                    assigned = None          # the harness keeps no expression alive: replaced definitions are freed
            elif kind == "inplace":
                ref = mkref(roots, op[1])
                sd_refs = ref._get_dependencies()
                obs["sd_order"] = [ref_path(x) for x in sd_refs]
                owner = mkref(roots, op[1][:-1])
                k, key = op[1][-1]
                key = dk(key) if k == "i" else key
                sym, val = op[2], dv(op[3])
                if k == "i":
                    if sym == "+":
                        owner[key] += val
                    elif sym == "-":
                        owner[key] -= val
                    else:
                        owner[key] *= val
                else:
                    tmp = getattr(owner, key)
                    tmp = tmp.__iadd__(val) if sym == "+" else tmp.__isub__(val) if sym == "-" else tmp.__imul__(val)
                    setattr(owner, key, tmp)
            elif kind == "regfun":
                action = WriteAction([(mkref(roots, p), mkexpr(roots, e)) for p, e in op[4]])
                fid = op[1] if isinstance(op[1], str) else mkref(roots, op[1]["ref"])
                if isinstance(fid, str) and fid.startswith("str") and ":" in fid:
                    text = str(mkref(roots, json.loads(fid.split(":", 1)[1])))
                    while text in STRIDS and STRIDS[text] != fid:
                        text += " "            # two string ids for the same location: kept distinct by trailing blanks
                    STRIDS[text] = fid
                    fid = text
                FUNWRITES[json.dumps(tid_path(fid))] = list(action.writes)
                if (len(op[4]) + len(str(op[1]))) % 2:
                    action = action.update       # a bound method; its instance is referenced by the task only
                if any(p in op[3] for p in op[2]):
                    SELFDEP.add(fid)          # not idempotent: a genuine data-flow cycle
                # targets and dependencies closed under enclosing containers, as ExprTask computes them
                tars, deps = set(), set()
                for p in op[2]:
                    mkref(roots, p)._get_dependencies(tars)
                for p in op[3]:
                    mkref(roots, p)._get_dependencies(deps)
                m.register(FunctionTask(fid, action, tars, deps))
            elif kind == "regknob":
                kid = op[1] if isinstance(op[1], str) else mkref(roots, op[1]["ref"])
                if len(op) > 4 and op[4] == "set" and len({json.dumps(p) for _, p in op[3]}) == len(op[3]):
                    # Task.targets is documented as a set: the targets as a set built incrementally, the weights listed in
                    # the order in which that set iterates
                    tset = set()
                    byref = {}
                    for w, p in op[3]:
                        r = mkref(roots, p)
                        tset.add(r); byref[r] = w
                    m.register(LinearKnob(kid, mkref(roots, op[2]), [byref[r] for r in tset], tset))
                else:
                    m.register(LinearKnob(kid, mkref(roots, op[2]), [w for w, _ in op[3]], [mkref(roots, p) for _, p in op[3]]))
            elif kind == "unregister":
                tid = op[1][1] if op[1][0] == "$task" else mkref(roots, op[1])
                m.unregister(tid)
            elif kind == "load":
                dump = [(str(mkref(roots, p)), str(mkexpr(roots, e))) for p, e in op[1]]
                if len(op) > 3 and op[3] == "copy":
                    # the same definitions arrive through copy_expr_from: another manager (same labels, containers of its own)
                    # holds them, and they are copied label by label
                    import copy
                    ms = xd.Manager()
                    make_roots(ms, copy.deepcopy(roots_data))
                    ms.load(dump, overwrite=op[2])
                    labels = []
                    for p, _ in op[1]:
                        if p[0] not in labels:
                            labels.append(p[0])
                    for label in labels:
                        m.copy_expr_from(ms, label, overwrite=op[2])
                else:
                    m.load(dump, overwrite=op[2])
            elif kind == "collide":
                # distinct deep locations c[k]['m']['x'] whose reference objects hash equally (the stored hash of the compiled
                # classes is a C int: among a few hundred thousand references some collide): each pair gets two definitions
                # over one source; both must be kept apart and follow their own expression
                root = roots["c"]
                seen, pairs = {}, []
                for kk in ("k%d" % j for j in range(op[1])):          # string keys: their hashes are spread by the hash seed
                    h = hash(root[kk]["m"]["x"])
                    if h in seen and len(pairs) < 6:
                        pairs.append((seen[h], kk))
                    seen[h] = kk
                seen = None
                res = {"pairs": len(pairs), "problems": []}
                data = roots_data["c"]
                for a, b in pairs:
                    for kk in (a, b):
                        dict.__setitem__(data, kk, FDict({"m": FDict({"x": 0})}))
                    ra, rb = root[a]["m"]["x"], root[b]["m"]["x"]
                    n0 = len(m.tasks)
                    m.set_value(ra, root["s"] * 2)
                    m.set_value(rb, root["s"] * 5)
                    m.set_value(root["s"], 3)
                    got = (data[a]["m"]["x"], data[b]["m"]["x"], len(m.tasks) - n0, ra == rb)
                    if got != (6, 15, 2, False):
                        res["problems"].append(f"locations c[{a!r}]['m']['x'] and c[{b!r}]['m']['x'] (equal hashes): values, new tasks, equal? = {got}, expected (6, 15, 2, False)")
                    m.unregister(ra) if ra in m.tasks else None
                    m.unregister(rb) if rb in m.tasks else None
                    for kk in (a, b):
                        dict.__delitem__(data, kk)
                obs["collide"] = res
            elif kind == "dupref":
                # a second container offered under a label that is taken: refused, and the caller carries on with the manager
                import copy
                try:
                    getattr(m, op[2])(copy.deepcopy(roots_data[op[1]]), op[1])
                    obs["registry"] = f"Manager.{op[2]} accepted a second container under the label {op[1]!r}"
                except AssertionError:
                    if m.containers[op[1]]._owner is not roots_data[op[1]]:
                        obs["registry"] = (f"Manager.{op[2]} refused a second container under the label {op[1]!r} but the registry "
                                           "now points at the refused object")
            elif kind == "freeze":
                m.freeze_tree()
            elif kind == "unfreeze":
                m.unfreeze_tree()
            elif kind == "refresh":
                m.refresh()
            elif kind == "verify":
                m.verify()
            elif kind == "cleanup":
                m.cleanup()
            elif kind == "picklecheck":
                back = []
                if len(op) > 2 and op[2]:
                    # the container is made reachable from its own contents (it stores itself / its own reference / a bound
                    # method of itself), as a namespace that keeps a handle on itself does; picklable by the standard protocol
                    for label, data in roots_data.items():
                        if type(data).__name__ in ("AttrDict", "FAttrDict"):
                            val = {"self": data, "ref": roots[label], "method": getattr(data, "total", None) or data}[op[2]]
                            dict.__setitem__(data, "_back", val)
                            back.append(data)
                try:
                    obs["pickle"] = pickle_check(m, roots_data, op[1])
                finally:
                    for data in back:
                        dict.__delitem__(data, "_back")
            elif kind == "setattr_raw":
                tgt = mkref(roots, op[1])
                obs["in_dir"] = op[2] in dir(tgt)          # a member of the reference object itself (known finding C20)
                setattr(tgt, op[2], mkexpr(roots, op[3]) if isinstance(op[3], list) else dv(op[3]))
            elif kind == "genfun":
                obs["genfun"] = gen_fun_check(m, roots, roots_data, op[1], op[2], obs)
                if obs["genfun"].get("err"):
                    obs["err"] = obs["genfun"]["err"]
            elif kind == "clone":
                # a regenerated copy is kept alive; it shares the containers with the original
                CLONES.append(m.clone())
            elif kind == "useclone":
                obs["clone"] = clone_check(m, CLONES, roots, roots_data, op[1], op[2] if len(op) > 2 else None)
            elif kind == "freshcheck":
                obs["fresh"] = fresh_check(m, roots, roots_data, op[1], op[2])
            elif kind == "arm":
                FAULT["n"] = op[1]
                FAULT["kind"] = op[2] if len(op) > 2 else "Fault"
            elif kind == "arm_read":
                FAULT["rn"] = op[1]
                FAULT["kind"] = op[2] if len(op) > 2 else "Fault"
            elif kind == "disarm":
                FAULT["n"] = None
                FAULT["rn"] = None
            else:
                raise RuntimeError("unknown op " + kind)
        except BaseException as e:
            if not isinstance(e, (Exception, Injected)):
                raise
            obs["err"] = exc_name(e)
        if obs.get("in_dir") and opts.get("stop_in_dir"):
            # a member of the reference object was overwritten (pure build) or refused (compiled): known finding C20;
            # the reference objects may be unusable from here on, the rest of the program is not run
            stub = {"err": obs["err"], "in_dir": True, "store": [], "trace": [], "start_order": [], "oracle": {"canon": []}}
            out.append(stub)
            out.extend(dict(stub, err="not-run") for _ in case["ops"][iop + 1:])
            break
        saved = FAULT["n"]
        saved_r = FAULT["rn"]
        FAULT["n"] = None
        FAULT["rn"] = None
        obs["fault_fired"] = FAULT["fired"]
        FAULT["fired"] = False
        obs["trace"] = list(TRACE)
        if kind != "genfun":
            obs["start_order"] = STARTS[-1] if STARTS and kind in ("set", "inplace") else []
        obs.setdefault("start_order", [])
        if snap and m._tree_frozen:
            # asked BEFORE the snapshot: a query must not change what the snapshot shows (empty index entries are not listed)
            obs["queries"] = frozen_queries(m, roots, qpaths)
        if snap:
            obs.update(snapshot(m, roots_data, None))
        elif heavy:
            st = []
            for label, data in roots_data.items():
                flatten(data, [label], st)
            obs["store"] = st
        else:
            obs["store"] = []
            obs["trace"] = []
        # ---- oracles
        orc = {"canon": []}
        if heavy:
            orc["canon"] = canon_ok(m) if snap else []
            if kind in ("set", "inplace") and sd_refs is not None:
                # also for operations that raised (any class): the tasks that ran must be among the triggered ones,
                # and an ordering cycle among the triggered tasks is flagged
                orc["trace"] = trace_verdict(m, sd_refs, obs["trace"], obs["err"])
            if obs["err"] is None:
                orc["inconsistent"] = consistency(m)
                if kind in ("set", "inplace") and not (orc.get("trace") or {}).get("cycle"):
                    orc["fun_inconsistent"] = fun_consistency(m, obs["trace"])
        if obs.get("defn") and obs["err"] is None:
            orc["defn"] = obs["defn"]
        if any(o2.get("registry") for o2 in out) or obs.get("registry"):
            orc["canon"] = list(orc["canon"]) + [next(o2["registry"] for o2 in out + [obs] if o2.get("registry"))]
        obs["oracle"] = orc
        FAULT["n"] = saved
        FAULT["rn"] = saved_r
        out.append(obs)
    return out


def main():
    inp = json.load(sys.stdin)
    real_stdout = sys.stdout
    sys.stdout = sys.stderr          # the library prints diagnostics; keep the JSON channel clean
    opts = inp.get("opts", {})
    res = []
    for c in inp["cases"]:
        try:
            res.append(run_case(c, opts))
        except BaseException as e:
            # the library raised while it was only being OBSERVED (dump(), str(ref), the indices, verify(), an oracle's
            # read): reported as this case's outcome, never a crash of the runner
            import traceback
            tb = "".join(traceback.format_exception(e))[-1500:]
            stub = {"err": "Crash", "crash": tb, "store": [], "trace": [], "start_order": [], "tasks": [], "prev": [], "frozen": False,
                    "dump": [], "indices": {"rdeps": [], "rtasks": [], "deptasks": [], "tartasks": []}, "oracle": {"canon": []}}
            res.append([dict(stub) for _ in c["ops"]])
    json.dump({"cases": res, "cythonized": bool(is_cythonized())}, real_stdout)


if __name__ == "__main__":
    main()
