"""Runs row selectors on the real xdeps.table.Table (rows[...], rows.indices[...],
rows.mask[...], and for tuples also the chained rows[s1].rows[s2]...) and, next
to the canonical observations, the verdict of a naive reference selector that
implements the property text of C08 directly on the raw columns.

stdin : {"cases": [{"idx": [names], "cols": [[cname, [ints]], ...], "queries": [q, ...]}]}
        q   = {"one": sel} | {"tup": [sel, ...]}
        sel = ["pos", i] | ["poslist", [i..]] | ["mask", [bool..]] | ["str", text]
            | ["names", [text..]] | ["span", a, b] (a, b: null | text | int)
            | ["range", lo, hi, col] | ["slice", lo, hi] | ["none"]
        optional per case  "history": [h, ...] run on ONE further table object:
        h = {"sel": q} | {"setcell": [i, value]} | {"setcellname": [text, value]} | {"setidx": [names]}
        optional per case  "multi": {"tables": [{"idx", "cols", "flags": "default"|"ignorecase"|"sensitive"}..],
                                     "steps": [[k, q]..]}  (all tables alive in this process, query q on table k)
stdout: {"obs": [[{rows, names, indices, mask, chain}..]..], "ref": [[..]..], "fail": [[[msg..]..]..],
         "mobs"/"mref"/"mfail": the same per step of "multi",
         "vobs"/"vref"/"vfail"/"vstored": value ranges of "vtable": {"idx", "vcols": [[name, dtype, values]],
                                          "queries": [[lo, hi, col]]} (numbers, or "nan"/"inf"/"-inf"),
         "hobs": [[..]..], "href": [[..]..], "hfail": [[[msg..]..]..]}
"""
import sys, json, re
import numpy as np
import xdeps as xd

POS = "_p"   # hidden column holding the original position of every row
ERRS = (KeyError, IndexError, TypeError, ValueError, AttributeError)


FLAGS = {"default": None, "ignorecase": re.IGNORECASE, "sensitive": 0}


def mk_table(case):
    names = case["idx"]
    data = {"name": np.array(names, dtype=object) if names else np.array([], dtype=object)}
    for k, v in case["cols"]:
        data[k] = np.array(v, dtype=np.int64)
    data[POS] = np.arange(len(names), dtype=np.int64)
    fl = FLAGS[case.get("flags", "default")]
    kw = {} if fl is None else {"regex_flags": fl}      # the public constructor argument
    return xd.Table(data, col_names=["name"] + [k for k, _ in case["cols"]] + [POS], index="name", **kw)


def mk_sel(s):
    k = s[0]
    if k == "pos":
        return int(s[1])
    if k == "poslist":
        return [int(x) for x in s[1]]
    if k == "mask":
        return [bool(x) for x in s[1]]
    if k == "str":
        return s[1]
    if k == "names":
        return list(s[1])
    if k == "span":
        return slice(s[1], s[2])
    if k == "range":
        return slice(s[1], s[2], s[3])
    if k == "slice":
        return slice(s[1], s[2])
    if k == "none":
        return None
    raise ValueError(s)


def exc(e):
    for cls in ERRS:
        if type(e) is cls:
            return ["err", cls.__name__]
    return ["err", type(e).__name__]


def attempt(f):
    try:
        return f()
    except Exception as e:  # noqa
        return exc(e)


# ---- the naive reference selector (property text, DESIGN section 5 C08) ------

SPLIT = re.compile(r"^(.*?)(?:::([+-]?\d+))?(?:(<<|>>)([+-]?\d+))?$", re.S)
OUT = "outside"     # selector outside the property's domain: no verdict


def split_sel(text):
    name, cnt, d, k = SPLIT.match(text).groups()
    off = -int(k) if d == "<<" else int(k) if d == ">>" else 0
    return name, (None if cnt is None else int(cnt)), off


def occurrence(names, name, cnt):
    ps = [i for i, x in enumerate(names) if x == name]
    c = 0 if cnt is None else cnt
    if c < 0:
        c += len(ps)
    return ps[c] if 0 <= c < len(ps) else None


def ref_name(names, text):
    name, cnt, off = split_sel(text)
    p = occurrence(names, name, cnt)
    return None if p is None else p + off


def inside(n, ps):
    return all(0 <= p < n for p in ps)


def ref_select(names, cols, s, flags=re.IGNORECASE):
    """positions (table order) | ["err","KeyError"] | OUT;  flags: the table's regex_flags
    (the property speaks of the default, case-insensitive; a table built with
    regex_flags=0 matches case-sensitively)"""
    n = len(names)
    k = s[0]
    if k == "pos":
        i = s[1]
        return [i % n] if -n <= i < n else OUT
    if k == "poslist":
        return [i % n for i in s[1]] if all(-n <= i < n for i in s[1]) else OUT
    if k == "mask":
        return [i for i, b in enumerate(s[1]) if b] if len(s[1]) == n else OUT
    if k == "str":
        pat, cnt, off = split_sel(s[1])
        if cnt is not None:
            p = occurrence(names, pat, cnt)          # the text is first an exact row name
            if p is not None:
                return [p + off] if inside(n, [p + off]) else OUT
        rx = re.compile(pat, flags)
        ps = [i for i, x in enumerate(names) if rx.fullmatch(x)]
        if cnt is not None:
            ps = [i for i in ps if occurrence(names, names[i], cnt) == i]
        ps = [i + off for i in ps]
        return ps if inside(n, ps) else OUT
    if k == "names":
        out = []
        for t in s[1]:
            p = ref_name(names, t)
            if p is None:
                return ["err", "KeyError"]
            out.append(p)
        return out if inside(n, out) else OUT
    if k == "span":
        ends = []
        for e in (s[1], s[2]):
            if isinstance(e, str):
                p = ref_name(names, e)
                if p is None:
                    return ["err", "KeyError"]
                ends.append(p)
            else:
                ends.append(e)
        a, b = ends
        if (a is not None and a < 0) or (b is not None and b < 0):
            return OUT
        return [i for i in range(n) if (a is None or a <= i) and (b is None or i <= b)]
    if k == "range":
        lo, hi, c = s[1], s[2], s[3]
        if c not in cols:
            return ["err", "KeyError"]
        v = cols[c]
        return [i for i in range(n) if (lo is None or lo <= v[i]) and (hi is None or v[i] <= hi)]
    if k == "slice":
        return list(range(n))[slice(s[1], s[2])]
    if k == "none":
        return list(range(n))
    raise ValueError(s)


def ref_query(names, cols, q, flags=re.IGNORECASE):
    sels = [q["one"]] if "one" in q else q["tup"]
    cur = list(range(len(names)))           # absolute positions of the current view
    for s in sels:
        r = ref_select([names[i] for i in cur], {c: [v[i] for i in cur] for c, v in cols.items()}, s, flags)
        if r == OUT or (isinstance(r, list) and r and r[0] == "err"):
            return r
        cur = [cur[i] for i in r]
    return cur


def wrap(n, l):
    out = []
    for i in l:
        if 0 <= i < n:
            out.append(i)
        elif -n <= i < 0:
            out.append(i + n)
        else:
            return None
    return out


def observe(t, q):
    n = len(t)
    if "one" in q:
        key = mk_sel(q["one"])
    else:
        key = tuple(mk_sel(s) for s in q["tup"])
    o = {}

    def rows():
        r = t.rows[key]
        return [[int(x) for x in r._data[POS]], [str(x) for x in r._data["name"]],
                sorted(set(len(r._data[c]) for c in r._col_names))]
    rr = attempt(rows)
    if rr and rr[0] == "err":
        o["rows"] = rr; o["names"] = None
    else:
        o["rows"] = ["ok", rr[0]]; o["names"] = rr[1]
        if rr[2] != [len(rr[0])]:
            o["ragged"] = rr[2]
    ii = attempt(lambda: [int(x) for x in t.rows.indices[key]])
    o["indices"] = ii if (ii and ii[0] == "err") else ["ok", ii]
    mm = attempt(lambda: [bool(x) for x in t.rows.mask[key]])
    o["mask"] = mm if (mm and mm[0] == "err") else ["ok", mm]
    if "tup" in q:
        def chain():
            cur = t
            for s in q["tup"]:
                cur = cur.rows[mk_sel(s)]
            return [int(x) for x in cur._data[POS]]
        cc = attempt(chain)
        o["chain"] = cc if (cc and cc[0] == "err") else ["ok", cc]
    return o


def judge(names, o, ref, q):
    """failures of the property on this query (empty list = holds)"""
    n = len(names)
    bad = []
    rows = o["rows"]
    if ref != OUT:
        if ref and ref[0] == "err":
            if rows != ref:
                bad.append(f"rows: expected {ref}, got {rows}")
        else:
            if rows != ["ok", ref]:
                bad.append(f"rows: reference selector gives {ref}, implementation {rows}")
            elif o["names"] != [names[i] for i in ref]:
                bad.append("rows: selected names do not belong to the selected positions")
            if "ragged" in o:
                bad.append(f"rows: result columns have lengths {o['ragged']}")
            ind = o["indices"]
            if ind[0] != "ok" or wrap(n, ind[1]) != ref:
                bad.append(f"indices: {ind} does not describe rows {ref}")
            mk = o["mask"]
            if mk[0] != "ok" or len(mk[1]) != n or {i for i, b in enumerate(mk[1]) if b} != set(ref):
                bad.append(f"mask: {mk} does not describe rows {ref}")
    # the three views agree with each other whatever the selector
    if rows[0] == "ok":
        ind, mk = o["indices"], o["mask"]
        if ind[0] != "ok" or wrap(n, ind[1]) != rows[1]:
            bad.append(f"indices {ind} and rows {rows} describe different rows")
        if mk[0] != "ok" or {i for i, b in enumerate(mk[1]) if b} != set(rows[1]):
            bad.append(f"mask {mk} and rows {rows} describe different rows")
    if "chain" in o and o["chain"] != rows and (rows[0] == "ok" or o["chain"][0] == "ok"):
        bad.append(f"composition: rows[s1,s2,..] = {rows} but rows[s1].rows[s2].. = {o['chain']}")
    return bad


def run_case(case):
    t = mk_table(case)
    names = list(case["idx"])
    cols = {k: list(v) for k, v in case["cols"]}
    obs, refs, fails = [], [], []
    for q in case["queries"]:
        o = observe(t, q)
        r = ref_query(names, cols, q)
        obs.append(o); refs.append(r); fails.append(judge(names, o, r, q))
    # the table itself is untouched by selecting
    if [str(x) for x in t._data["name"]] != names or [int(x) for x in t._data[POS]] != list(range(len(names))):
        fails.append(["source table changed by row selection"])
    return obs, refs, fails


def run_history(case):
    """selections interleaved with edits of the index column on one table
    object; the reference keeps its own copy of the column"""
    t = mk_table(case)
    names = list(case["idx"])
    cols = {k: list(v) for k, v in case["cols"]}
    obs, refs, fails = [], [], []
    for h in case.get("history", []):
        n = len(names)
        if "sel" in h:
            o = observe(t, h["sel"])
            r = ref_query(names, cols, h["sel"])
            obs.append(o); refs.append(r); fails.append(judge(names, o, r, h["sel"]))
            continue
        # the edit, on the reference column
        want, new = "ok", None
        if "setcell" in h:
            i, v = h["setcell"]
            w = wrap(n, [i])
            if w is None:
                want = ["err", "IndexError"]
            else:
                new = list(names); new[w[0]] = v
        elif "setcellname" in h:
            text, v = h["setcellname"]
            p = ref_name(names, text)
            if p is None:
                want = ["err", "KeyError"]
            else:
                w = wrap(n, [p])
                if w is None:
                    want = ["err", "IndexError"]
                else:
                    new = list(names); new[w[0]] = v
        else:
            vals = h["setidx"][0]
            if len(vals) == n:
                new = list(vals)
            else:
                want = None      # numpy broadcasting rules: no verdict
        try:
            if "setcell" in h:
                t["name", int(h["setcell"][0])] = h["setcell"][1]
            elif "setcellname" in h:
                t["name", h["setcellname"][0]] = h["setcellname"][1]
            elif h["setidx"][1] == "attr":
                t.name = np.array(h["setidx"][0], dtype=object)
            else:
                t["name"] = np.array(h["setidx"][0], dtype=object)
            got = "ok"
        except Exception as e:  # noqa
            got = exc(e)
        f = []
        if want is not None and got != want:
            f.append(f"index-column edit {h}: expected {want}, got {got}")
        if new is not None and got == "ok":
            names = new
        if [str(x) for x in t._data["name"]] != names and want is not None:
            f.append(f"after {h} the index column is {[str(x) for x in t._data['name']]}, expected {names}")
        obs.append({"set": got}); refs.append(None); fails.append(f)
    return obs, refs, fails


def dec(x):
    """numbers travel as JSON numbers, or the strings nan / inf / -inf"""
    return float(x) if isinstance(x, str) else x


def enc(x):
    if isinstance(x, float) and x != x:
        return "nan"
    if isinstance(x, float) and x in (float("inf"), float("-inf")):
        return "inf" if x > 0 else "-inf"
    return x


def run_vranges(case):
    """value ranges lo:hi:'col' on columns of any dtype; reference: the rows whose
    stored value v satisfies lo <= v <= hi (Python comparison of the stored
    numbers: exact across int/float, false with NaN), in table order"""
    v = case.get("vtable")
    if not v:
        return [], [], [], []
    import warnings
    names = list(v["idx"])
    data = {"name": np.array(names, dtype=object) if names else np.array([], dtype=object)}
    for cname, dt, vals in v["vcols"]:
        vals = [dec(x) for x in vals]
        data[cname] = np.array(vals, dtype=object) if dt == "object" else np.array(vals, dtype=np.dtype(dt))
    data[POS] = np.arange(len(names), dtype=np.int64)
    t = xd.Table(data, col_names=["name"] + [c for c, _, _ in v["vcols"]] + [POS], index="name")
    stored = {c: [x.item() if hasattr(x, "item") else x for x in t._data[c]] for c, _, _ in v["vcols"]}
    obs, refs, fails = [], [], []
    for lo, hi, c in v["queries"]:
        lo, hi = (None if lo is None else dec(lo)), (None if hi is None else dec(hi))
        q = {"one": ["range", lo, hi, c]}
        with warnings.catch_warnings():
            warnings.simplefilter("ignore")
            o = observe(t, q)
        r = [i for i, x in enumerate(stored[c]) if (lo is None or lo <= x) and (hi is None or x <= hi)]
        obs.append(o); refs.append(r); fails.append(judge(names, o, r, q))
    return obs, refs, fails, {c: [enc(float(x)) if isinstance(x, float) else (int(x) if not isinstance(x, bool) else int(x)) for x in vs] for c, vs in stored.items()}


def run_multi(case):
    """several tables alive in this process, each with its own regex_flags; the
    same selectors evaluated on them in the given interleaving"""
    m = case.get("multi")
    if not m:
        return [], [], []
    tabs = [mk_table(tc) for tc in m["tables"]]
    obs, refs, fails = [], [], []
    for k, q in m["steps"]:
        tc = m["tables"][k]
        names = list(tc["idx"])
        cols = {c: list(v) for c, v in tc["cols"]}
        fl = FLAGS[tc.get("flags", "default")]
        o = observe(tabs[k], q)
        r = ref_query(names, cols, q, re.IGNORECASE if fl is None else fl)
        obs.append(o); refs.append(r); fails.append(judge(names, o, r, q))
    return obs, refs, fails


def main():
    inp = json.load(sys.stdin)
    O, R, F, HO, HR, HF, MO, MR, MF, VO, VR, VF, VS = [], [], [], [], [], [], [], [], [], [], [], [], []
    for case in inp["cases"]:
        o, r, f = run_case(case)
        O.append(o); R.append(r); F.append(f)
        ho, hr, hf = run_history(case)
        HO.append(ho); HR.append(hr); HF.append(hf)
        mo, mr, mf = run_multi(case)
        MO.append(mo); MR.append(mr); MF.append(mf)
        vo, vr, vf, vs = run_vranges(case)
        VO.append(vo); VR.append(vr); VF.append(vf); VS.append(vs)
    json.dump({"obs": O, "ref": R, "fail": F, "hobs": HO, "href": HR, "hfail": HF, "mobs": MO, "mref": MR, "mfail": MF,
               "vobs": VO, "vref": VR, "vfail": VF, "vstored": VS}, sys.stdout)


if __name__ == "__main__":
    main()
