"""C19 runner: evaluates MAD-X expression strings on the REAL xdeps evaluators
(immediate MadxEval over plain containers, deferred MadxEval over references,
MadxEnv.madeval/madexpr), before and after the variables change through the
manager, and next to each observation the verdict of an independent oracle for
the property.

stdin : {"cases": [case, ...]}
stdout: {"results": [result, ...]}

case = {"s": str, "attr": bool, "fmode": "exact"|"math", "vdefault": bool, "use_env": bool,
        "vars1": {name: val}, "vars2": {name: val}, "elems1": {el: {k: val}}, "elems2": {el: {k: val}},
        "py": str|None}        val = ["f", float.hex()] | ["i", int]
"""
import sys, json, math, collections, types
import xdeps as xd
from xdeps.madxutils import MadxEval, MadxEnv, calc_grammar
from xdeps.refs import is_ref
import xdeps.refs as xrefs
from lark import Lark, Tree, Token
try:
    from lark.exceptions import VisitError
except Exception:                                                     # pragma: no cover
    VisitError = ()


class ExactFunctions:
    """function module of the cases compared with the rational model
    (run/RunMadx.v defines the same functions)"""
    @staticmethod
    def dbl(x): return x + x
    @staticmethod
    def avg(x, y): return (x + y) / 2
    @staticmethod
    def mac(x, y): return x * y + 1
    fabs = staticmethod(math.fabs)
    @staticmethod
    def sq(x): return x * x
    @staticmethod
    def inv(x): return 1 / x
    @staticmethod
    def second(x, y): return y


class Element:
    """element of attribute mode: fields are attributes"""
    def __init__(self, d):
        for k, v in d.items():
            object.__setattr__(self, k, v)


def dec(v):
    return float.fromhex(v[1]) if v[0] == "f" else int(v[1])


def canon(kind, x):
    """canonical observation: ["num", hex|int-string] | ["nan"] | ["err", class, is_zd]"""
    if kind == "err":
        return ["err", type(x).__name__, isinstance(x, ZeroDivisionError)]
    if isinstance(x, complex):
        return ["complex", x.real.hex(), x.imag.hex()]
    if isinstance(x, bool) or not isinstance(x, (int, float)):
        return ["other", type(x).__name__]
    if isinstance(x, float) and math.isnan(x):
        return ["nan"]
    if isinstance(x, float) and math.isinf(x):
        return ["inf", x > 0]
    n, d = x.as_integer_ratio() if isinstance(x, float) else (x, 1)
    return ["num", str(n), str(d)]


def attempt(f):
    try:
        return ("val", f())
    except VisitError as e:                                         # lark may wrap callback exceptions
        return ("err", e.orig_exc)
    except Exception as e:
        return ("err", e)


def same(a, b):
    """two attempt() results denote the same outcome: same number (NaN == NaN) or both raise"""
    if a[0] == "err" or b[0] == "err":
        return a[0] == b[0]
    x, y = a[1], b[1]
    if not isinstance(x, (int, float, complex)) or not isinstance(y, (int, float, complex)):
        return False
    if isinstance(x, complex) or isinstance(y, complex):       # negative ** fractional
        x, y = complex(x), complex(y)
        return same(("val", x.real), ("val", y.real)) and same(("val", x.imag), ("val", y.imag))
    if isinstance(x, float) and isinstance(y, float) and math.isnan(x) and math.isnan(y):
        return True
    return x == y


def value_of(expr):
    return expr._get_value() if is_ref(expr) else expr


# ---- the parse tree, exported for the model ------------------------------------------
def export_tree(t, elem_alias):
    if not isinstance(t, Tree):
        raise ValueError("token at tree position")
    d, ch = t.data, t.children
    if d == "number":
        return ["number", str(ch[0])]
    if d in ("neg", "pos"):
        return [d, export_tree(ch[0], elem_alias)]
    if d == "var":
        return ["var", str(ch[0])]
    if d == elem_alias:
        return ["elem", str(ch[0]), str(ch[1])]
    if d == "call":
        return ["call", str(ch[0]), [export_tree(c, elem_alias) for c in ch[1:]]]
    if d in ("add", "sub", "mul", "div", "pow"):
        return [d, export_tree(ch[0], elem_alias), export_tree(ch[1], elem_alias)]
    raise ValueError("unknown alias " + str(d))


def is_const(t):
    k = t[0]
    if k == "number":
        return True
    if k in ("neg", "pos"):
        return is_const(t[1])
    if k in ("var", "elem", "call"):
        return False
    return is_const(t[1]) and is_const(t[2])


def nan_eval(t, V, F, E, attr):
    """ordinary Python arithmetic on the tree, except that a true division with
    a non-constant operand yields nan instead of raising ZeroDivisionError"""
    k = t[0]
    if k == "number":
        return float(t[1])
    if k == "neg":
        return -nan_eval(t[1], V, F, E, attr)
    if k == "pos":
        return +nan_eval(t[1], V, F, E, attr)
    if k == "var":
        return V[t[1]]
    if k == "elem":
        return getattr(E[t[1]], t[2]) if attr else E[t[1]][t[2]]
    if k == "call":
        f = getattr(F, t[1])
        return f(*[nan_eval(a, V, F, E, attr) for a in t[2]])
    a = nan_eval(t[1], V, F, E, attr)
    b = nan_eval(t[2], V, F, E, attr)
    if k == "add":
        return a + b
    if k == "sub":
        return a - b
    if k == "mul":
        return a * b
    if k == "pow":
        return a ** b
    if k == "div":
        try:
            return a / b
        except ZeroDivisionError:
            if is_const(t[1]) and is_const(t[2]):
                raise
            return float("nan")
    raise ValueError(k)


# ---- structure of the deferred expression ----------------------------------------------
def export_expr(x, roots):
    if not is_ref(x):
        if isinstance(x, bool) or not isinstance(x, (int, float)):
            return ["unknown"]
        if isinstance(x, float) and math.isnan(x):
            return ["plainnan"]
        if isinstance(x, float) and math.isinf(x):
            return ["unknown"]
        n, d = x.as_integer_ratio() if isinstance(x, float) else (x, 1)
        return ["plain", str(n), str(d)]
    for i, r in enumerate(roots):
        if x is r:
            return ["root", i]
    cn = type(x).__name__
    if isinstance(x, xrefs.BinOpExpr):
        return ["bin", cn, export_expr(x._lhs, roots), export_expr(x._rhs, roots)]
    if isinstance(x, xrefs.UnaryOpExpr):
        return ["un", cn, export_expr(x._arg, roots)]
    if isinstance(x, (xrefs.ItemRef, xrefs.AttrRef)):
        if not isinstance(x._key, str):
            return ["unknown"]
        return ["acc", cn, export_expr(x._owner, roots), str(x._key)]
    if isinstance(x, xrefs.CallRef):
        if x._kwargs:
            return ["unknown"]
        return ["call", cn, export_expr(x._func, roots), [export_expr(a, roots) for a in x._args]]
    return ["unknown"]


def run_case(c):
    attr = c["attr"]
    F = ExactFunctions() if c["fmode"] == "exact" else math
    vars1 = {k: dec(v) for k, v in c["vars1"].items()}
    vars2 = {k: dec(v) for k, v in c["vars2"].items()}
    elems1 = {e: {k: dec(v) for k, v in d.items()} for e, d in c["elems1"].items()}
    elems2 = {e: {k: dec(v) for k, v in d.items()} for e, d in c["elems2"].items()}

    def mk_containers():
        V = collections.defaultdict(lambda: 0) if c["vdefault"] else {}
        V.update(vars1)
        E = {e: (Element(d) if attr else dict(d)) for e, d in elems1.items()}
        return V, E

    out = {}
    if c.get("use_env"):
        # the real MadxEnv (item mode, math, defaultdict)
        env = MadxEnv()
        V, E = env._variables, env._elements
        V.update(vars1)
        E.update({e: dict(d) for e, d in elems1.items()})
        F = math
        manager, vref, fref, eref = env.manager, env._vref, env._fref, env._eref
        imm, dfr = env.madeval, env.madexpr
    else:
        V, E = mk_containers()
        manager = xd.Manager()
        vref, fref, eref = manager.ref(V, "v"), manager.ref(F, "f"), manager.ref(E, "e")
        kw = {"get": "attr"} if attr else {}
        imm = MadxEval(V, F, E, **kw).eval
        dfr = MadxEval(vref, fref, eref, **kw).eval
    roots = [vref, fref, eref]
    s = c["s"]
    # the parse tree (same grammar text, same parser class, no transformer)
    grammar = calc_grammar.replace("getitem", "getattr") if attr else calc_grammar
    elem_alias = "getattr" if attr else "getitem"
    try:
        tree = export_tree(Lark(grammar, parser="lalr").parse(s), elem_alias)
    except Exception as e:
        return {"parse_error": f"{type(e).__name__}: {str(e)[:200]}"}
    out["tree"] = tree

    fails = []
    imm1 = attempt(lambda: imm(s))
    built = attempt(lambda: dfr(s))
    if built[0] == "val":
        expr = built[1]
        out["build"] = export_expr(expr, roots)
        def1 = attempt(lambda: value_of(expr))
    else:
        expr = None
        out["build"] = ["err", type(built[1]).__name__, isinstance(built[1], ZeroDivisionError)]
        def1 = built
    nan1 = attempt(lambda: nan_eval(tree, V, F, E, attr))

    def judge(tag, im, df, nn):
        if im[0] == "val":
            if not same(im, df):
                fails.append([tag, "deferred value differs from the immediate value", canon(*im), canon(*df)])
        elif not isinstance(im[1], ZeroDivisionError):
            if df[0] != "err":
                fails.append([tag, "immediate evaluation raises, deferred does not", canon(*im), canon(*df)])
        else:
            if not same(df, nn):
                fails.append([tag, "deferred value is not Python arithmetic with x/0 = nan", canon(*nn), canon(*df)])

    judge("state1", imm1, def1, nan1)
    # fully parenthesised input: ordinary Python arithmetic
    py1 = None
    if c.get("py"):
        py1 = attempt(lambda: eval(c["py"], {"__builtins__": {"float": float, "getattr": getattr}}, {"V": V, "E": E, "F": F}))
        if not same(imm1, py1):
            fails.append(["paren1", "immediate value differs from Python's value of the same expression", canon(*py1), canon(*imm1)])
        if py1[0] == "val" and not same(def1, py1):
            fails.append(["paren1", "deferred value differs from Python's value of the same expression", canon(*py1), canon(*def1)])
    # tracking through a registered task (separate manager so that a failing update cannot disturb the rest)
    tgt = None
    if expr is not None and is_ref(expr) and def1[0] == "val" and not c.get("use_env"):
        Vb, Eb = mk_containers()
        mb = xd.Manager()
        vb, fb, eb = mb.ref(Vb, "v"), mb.ref(F, "f"), mb.ref(Eb, "e")
        kw = {"get": "attr"} if attr else {}
        r = attempt(lambda: MadxEval(vb, fb, eb, **kw).eval(s))
        if r[0] == "val" and is_ref(r[1]):
            ok = attempt(lambda: vb.__setitem__("tgt__", r[1]))
            if ok[0] == "val":
                tgt = (Vb, Eb, vb, eb)
    # the variables change through the manager
    changed = []
    for k, v in vars2.items():
        if k not in vars1 or vars1[k] != v or type(vars1[k]) is not type(v):
            vref[k] = v
            changed.append(k)
    for e, d in elems2.items():
        for k, v in d.items():
            if elems1[e][k] != v:
                if attr:
                    setattr(eref[e], k, v)
                else:
                    eref[e][k] = v
                changed.append(e + "->" + k)
    imm2 = attempt(lambda: imm(s))
    def2 = attempt(lambda: value_of(expr)) if expr is not None else built
    nan2 = attempt(lambda: nan_eval(tree, V, F, E, attr))
    judge("state2", imm2, def2, nan2)
    py2 = None
    if c.get("py"):
        py2 = attempt(lambda: eval(c["py"], {"__builtins__": {"float": float, "getattr": getattr}}, {"V": V, "E": E, "F": F}))
        if not same(imm2, py2):
            fails.append(["paren2", "immediate value differs from Python's value of the same expression", canon(*py2), canon(*imm2)])
        if py2[0] == "val" and not same(def2, py2):
            fails.append(["paren2", "deferred value differs from Python's value of the same expression", canon(*py2), canon(*def2)])
    if tgt is not None:
        Vb, Eb, vb, eb = tgt
        upd_ok = True
        for k, v in vars2.items():
            if k not in vars1 or vars1[k] != v or type(vars1[k]) is not type(v):
                if attempt(lambda: vb.__setitem__(k, v))[0] == "err":
                    upd_ok = False
        for e, d in elems2.items():
            for k, v in d.items():
                if elems1[e][k] != v:
                    r = attempt((lambda: setattr(eb[e], k, v)) if attr else (lambda: eb[e].__setitem__(k, v)))
                    if r[0] == "err":
                        upd_ok = False
        if upd_ok and imm2[0] == "val":
            got = ("val", Vb.get("tgt__"))
            out["tgt"] = canon(*got)
            if not same(got, imm2):
                fails.append(["tracked", "the variable defined by the deferred expression does not follow the update", canon(*imm2), canon(*got)])
    out.update({"imm1": canon(*imm1), "def1": canon(*def1), "imm2": canon(*imm2), "def2": canon(*def2),
                "nan1": canon(*nan1), "nan2": canon(*nan2), "changed": changed, "fails": fails,
                "py1": None if py1 is None else canon(*py1)})
    return out


def main():
    inp = json.load(sys.stdin)
    json.dump({"results": [run_case(c) for c in inp["cases"]], "cythonized": xrefs.is_cythonized()}, sys.stdout)


if __name__ == "__main__":
    main()
