"""Runs derivation chains on the real xdeps.table.Table and checks the property
of C14 itself after every step: the derived table is rectangular (every listed
column present, a numpy array, of the common length len(table)), its index is
among its columns, scalars are carried over by row and column selection, the
source table is untouched by the derivation (length, column list, cell values,
scalars), and column expressions evaluate element-wise.
Names in an expression denote the TABLE's entries first: the unchanged code
evaluates eval(expr, gblmath, table._data), i.e. a column or scalar named like a
name of the math namespace (numpy ufuncs and `np`: sign, power, mod, exp, ...)
is the table's entry, not the numpy object.
Sharing (unchanged tree): t.cols[...], t._copy() and row slices return tables whose
column arrays are those of the source (views), and assignment of an existing column
or of a cell is done in place, so such an assignment through one table is visible
through the other; the runner does not judge that, it judges that after every
mutation every expression asked before (of the current table, of the derived one and
of their recent ancestors) is again the element-wise value of the columns the same
table reports NOW.  {"meta": "gblmath"} on stdin returns
the names of that namespace, read from xdeps.table at run time.

stdin : {"cases": [{"data": [[key, kind, value]..], "col_names": [..]|null, "index": str, "ops": [op..],
                    "ctor_kw": {sep_count, sep_previous, sep_next, cast_strings} (optional)}]}
        kind: "float"|"int"|"str"|"obj" (1-d arrays), "vec2"|"vec3"|"mat" (one vector / 2x2 matrix per
              row: arrays of shape (n,2), (n,3), (n,2,2); values = one flat list per row), "scalar"
        op : ["rows", sel] | ["cols", [names], "str"|"list"] | ["addself"] | ["addrows", sel] | ["mul", k]
           | ["copy"] | ["t"] | ["concat", [sel..]] | ["set", key, ["arr", kind, vals] | ["scalar", v]]
           | ["expr", text, "item"|"cols"] | ["expr", text, "cell", row] (t[text], t.cols[text], t[text, row]) | ["del", key]
           | ["setattr", key, value] (attribute style) | ["setcell", col, row, v] (t[col, row] = v; row a position or a name)
           | ["ond", op]   (op = set / setattr / setcell / expr applied to the table most recently derived under
                            "stay", which stays alive next to the current table: tables derived by cols[...],
                            _copy and row slices share their column arrays with the source)
           | ["stay", op]  (the derivation op is made from the current table and checked, the current
                            table stays current: selections and assignments interleave on one source)
        sel: ["poslist", [..]] | ["slice", lo, hi] | ["mask", [..]]
stdout: {"ctor": [...], "obs": [[...]], "fail": [[...]]}
"""
import sys, json, io, contextlib
import numpy as np
import xdeps as xd

ERRS = (KeyError, IndexError, TypeError, ValueError, NameError, AttributeError)


class Obj:
    """an arbitrary Python object as a cell value"""
    def __init__(self, tag):
        self.tag = tag

    def __repr__(self):
        return f"Obj({self.tag})"

    def __eq__(self, o):
        return isinstance(o, Obj) and o.tag == self.tag

    def __hash__(self):
        return hash(self.tag)


MULTI = {"vec2": (2,), "vec3": (3,), "mat": (2, 2)}


def mk_array(kind, vals):
    if kind == "float":
        return np.array([float.fromhex(v) for v in vals], dtype=np.float64)
    if kind == "int":
        return np.array(vals, dtype=np.int64)
    if kind == "str":
        return np.array(vals, dtype=object) if not vals else np.array(vals)
    if kind in MULTI:
        return np.array(vals, dtype=np.float64).reshape((len(vals),) + MULTI[kind])
    if kind == "obj":
        a = np.empty(len(vals), dtype=object)
        for i, v in enumerate(vals):
            a[i] = Obj(v)
        return a
    raise ValueError(kind)


def mk_sel(s):
    if s[0] == "poslist":
        return [int(x) for x in s[1]]
    if s[0] == "slice":
        return slice(s[1], s[2])
    if s[0] == "mask":
        return [bool(x) for x in s[1]]
    raise ValueError(s)


def canon_cell(v):
    if isinstance(v, (float, np.floating)):
        return ["f", float(v).hex()]
    if isinstance(v, (bool, np.bool_)):
        return ["b", bool(v)]
    if isinstance(v, (int, np.integer)):
        return ["i", int(v)]
    if isinstance(v, (str, np.str_)):
        return ["s", str(v)]
    return ["o", repr(v)]


def canon_entry(v):
    if isinstance(v, np.ndarray):
        return ["arr", [canon_cell(x) for x in v]]
    return ["val", canon_cell(v)]


def snapshot(t):
    """everything the property says must not change: length, column list,
    cell values, and the other entries"""
    try:
        n = len(t)
    except Exception as e:  # noqa
        n = type(e).__name__
    return {"len": n, "cols": list(t._col_names), "index": t._index,
            "data": {str(k): canon_entry(v) for k, v in t._data.items()}}


def exc(e):
    for cls in ERRS:
        if type(e) is cls:
            return ["err", cls.__name__]
    return ["err", type(e).__name__]


def shape(t):
    cols = []
    for c in t._col_names:
        v = t._data.get(c) if isinstance(t._data, dict) else None
        # the length of a column is that of its first axis (a column may hold one array per row)
        cols.append([c, len(v) if isinstance(v, np.ndarray) and v.ndim >= 1 else -1])
    return {"cols": cols, "scalars": sorted(str(k) for k in t._data if k not in t._col_names), "index": t._index}


def rect_failures(t):
    """the invariant of the property on one table"""
    bad = []
    try:
        n = len(t)
    except Exception as e:  # noqa
        return [f"len(table) raises {type(e).__name__}"]
    for c in t._col_names:
        if c not in t._data:
            bad.append(f"listed column {c!r} is not present")
            continue
        v = t._data[c]
        if not isinstance(v, np.ndarray) or v.ndim < 1:
            bad.append(f"listed column {c!r} is not an array with one entry per row")
        elif len(v) != n:
            bad.append(f"column {c!r} has length {len(v)} but len(table) is {n}")
    if t._index not in t._col_names:
        bad.append(f"index {t._index!r} is not among the columns")
    return bad


def scalars_of(t):
    return {k: v for k, v in t._data.items() if k not in t._col_names}


def same_value(a, b):
    if a is b:
        return True
    if isinstance(a, np.ndarray) or isinstance(b, np.ndarray):
        return isinstance(a, np.ndarray) and isinstance(b, np.ndarray) and a.shape == b.shape and bool(np.all(a == b))
    return type(a) is type(b) and a == b


def pyval(x):
    """Python scalar of a numeric cell, for the element-wise reference"""
    if isinstance(x, np.floating):
        return float(x)
    if isinstance(x, np.integer):
        return int(x)
    return x


def ref_values(src, text):
    """element-wise value of an arithmetic expression over the numeric columns
    and numeric scalar entries of the table, row by row with Python scalars.
    The table's own entries are the only names: an entry named like a numpy
    function (sign, power, exp, np, ...) is the entry, as in the unchanged
    implementation (eval(expr, gblmath, self._data): the table's dictionary is
    the local namespace and wins over the math namespace).
    None = not such an expression (no verdict)."""
    import ast
    n = len(src)
    cols, scal = {}, {}
    for k, v in src._data.items():
        if isinstance(v, np.ndarray):
            if k in src._col_names and v.ndim == 1 and v.dtype.kind in "fi" and len(v) == n:
                cols[k] = v
        elif isinstance(v, (int, float, np.integer, np.floating)) and not isinstance(v, (bool, np.bool_)):
            scal[k] = pyval(v)
    try:
        used = {x.id for x in ast.walk(ast.parse(text, mode="eval")) if isinstance(x, ast.Name)}
    except SyntaxError:
        return None
    if not used or not used <= set(cols) | set(scal) or not used & set(cols):
        return None
    out = []
    for i in range(n):
        env = dict(scal)
        env.update({c: pyval(v[i]) for c, v in cols.items()})
        try:
            out.append(eval(text, {"__builtins__": {}}, env))
        except Exception:  # noqa
            return None
    return out


def elementwise_failures(src, text, got, row=None):
    """got must be the element-wise value of the expression on the columns
    (row given: the value of that row)"""
    want = ref_values(src, text)
    if want is None:
        return []
    n = len(src)
    if row is not None:
        if canon_cell(want[row]) != canon_cell(pyval(got)):
            return [f"expression {text!r} at row {row} is {canon_cell(pyval(got))}, element-wise value is {canon_cell(want[row])}"]
        return []
    if not isinstance(got, np.ndarray) or got.shape != (n,):
        return [f"expression {text!r}: result is not one value per row"]
    for i in range(n):
        if canon_cell(want[i]) != canon_cell(pyval(got[i])):
            return [f"expression {text!r}: row {i} is {canon_cell(pyval(got[i]))}, element-wise value is {canon_cell(want[i])}"]
    return []


def is_expr(text, t):
    return text not in t._data


def run_case(case):
    data = {}
    for key, kind, val in case["data"]:
        data[key] = val if kind == "scalar" else mk_array(kind, val)
    obs, fails = [], []
    try:
        cur = xd.Table(data, col_names=case["col_names"], index=case["index"], **case.get("ctor_kw", {}))
    except Exception as e:  # noqa
        return exc(e), [], [[]], []
    ctor = ["ok", shape(cur)]
    f0 = rect_failures(cur)
    for k, v in data.items():
        if k not in cur._data or (not isinstance(v, np.ndarray) and not same_value(cur._data[k], v)):
            f0.append(f"constructor dropped or changed entry {k!r}")
    fails.append(f0)
    ancestors = []
    last_d = None           # the most recent table derived under "stay": ["ond", op] addresses it
    live = []               # [table, expression texts asked of it]: re-asked after every mutation of any live table

    def remember(tab, text):
        for ent in live:
            if ent[0] is tab:
                ent[1].add(text)
                return
        live.append([tab, {text}])
        del live[:-5]

    def reask(label):
        """tables derived by cols[...] / _copy / row slices share their column arrays with
        the source and existing columns are assigned in place: after a mutation of one of
        them, every expression asked before must still be the element-wise value of the
        CURRENT columns of the table it is asked of"""
        out = []
        for tab, texts in live:
            for tx in sorted(texts):
                if ref_values(tab, tx) is None:
                    continue
                try:
                    out += [f"{label}: {m}" for m in elementwise_failures(tab, tx, tab[tx])]
                    if len(tab):
                        out += [f"{label}: {m}" for m in elementwise_failures(tab, tx, tab[tx, 0], row=0)]
                    out += [f"{label}: {m}" for m in elementwise_failures(tab, tx, tab.cols[tx][tx])]
                except Exception as e:  # noqa
                    out.append(f"{label}: expression {tx!r} raises {type(e).__name__} although it has an element-wise value")
                if out:
                    return out[:1]
        return out

    def mutate(tab, op):
        kind = op[0]
        if kind == "set":
            v = op[2]
            tab[op[1]] = v[1] if v[0] == "scalar" else mk_array(v[1], v[2])
        elif kind == "setattr":
            v = op[2]
            setattr(tab, op[1], v[1] if v[0] == "scalar" else mk_array(v[1], v[2]))
        elif kind == "setcell":
            tab[op[1], op[2]] = op[3]
        else:
            raise RuntimeError("unknown mutation " + kind)

    def ask(tab, op, f):
        if op[2] == "cell":
            got = tab[op[1], int(op[3])]
            f += elementwise_failures(tab, op[1], got, row=int(op[3]) % max(len(tab), 1))
        else:
            got = tab[op[1]] if op[2] == "item" else tab.cols[op[1]][op[1]]
            f += elementwise_failures(tab, op[1], got)
        remember(tab, op[1])

    for op0 in case["ops"]:
        if op0[0] == "ond":
            # an operation on the last table derived under "stay" (it stays alive next to the current one)
            op, f = op0[1], []
            if last_d is None:
                obs.append(["err", "NoDerivedTable"]); fails.append(f)
                continue
            try:
                if op[0] == "expr":
                    ask(last_d, op, f)
                else:
                    mutate(last_d, op)
                    # the derived table was modified through its own API (possibly a new column or
                    # scalar): that is not "an earlier table changed" - record its new length and columns
                    ancestors[:] = [(a, len(a), list(a._col_names)) if a is last_d else (a, alen, acols)
                                    for a, alen, acols in ancestors]
                    f += rect_failures(last_d)
                    f += reask(f"after {op[0]} through the derived table")
                res = ["ok", shape(last_d)]
            except Exception as e:  # noqa
                res = exc(e)
                if op[0] == "expr" and ref_values(last_d, op[1]) is not None and not (op[2] == "cell" and not -len(last_d) <= int(op[3]) < len(last_d)):
                    f.append(f"expression {op[1]!r} raises {res[1]} although it has an element-wise value")
            obs.append(res); fails.append(f)
            continue
        stay = op0[0] == "stay"
        op = op0[1] if stay else op0
        kind = op[0]
        before = snapshot(cur)
        f = []
        new = None
        try:
            if kind == "rows":
                new = cur.rows[mk_sel(op[1])]
            elif kind == "cols":
                new = cur.cols[" ".join(op[1]) if op[2] == "str" else list(op[1])]
            elif kind == "addself":
                new = cur + cur
            elif kind == "addrows":
                new = cur + cur.rows[mk_sel(op[1])]
            elif kind == "mul":
                new = cur * int(op[1])
            elif kind == "copy":
                new = cur._copy()
            elif kind == "t":
                new = cur._t
            elif kind == "concat":
                new = xd.Table.concatenate([cur.rows[mk_sel(s)] for s in op[1]])
            elif kind in ("set", "setattr", "setcell"):
                mutate(cur, op)
            elif kind == "del":
                del cur[op[1]]
            elif kind == "expr":
                ask(cur, op, f)
            else:
                raise RuntimeError("unknown op " + kind)
            res = ["ok", shape(new if new is not None else cur)]
        except Exception as e:  # noqa
            res = exc(e)
            new = None
            # an arithmetic expression over the table's numeric entries has a value: it must not raise
            texts = [op[1]] if kind == "expr" else [c for c in op[1] if is_expr(c, cur)] if kind == "cols" else []
            if kind == "cols" and any(c not in cur._data and ref_values(cur, c) is None for c in op[1]):
                texts = []      # some other request is not evaluable: the exception may be its
            for tx in texts:
                if ref_values(cur, tx) is not None and not (kind == "expr" and op[2] == "cell" and not -len(cur) <= int(op[3]) < len(cur)):
                    f.append(f"expression {tx!r} raises {res[1]} although it has an element-wise value")
                    break
        if kind not in ("set", "setattr", "setcell", "del"):
            after = snapshot(cur)
            if after != before:
                diff = [k for k in before if before[k] != after[k]]
                f.append(f"the source table changed during {kind}: {diff}")
        if new is not None:
            f += rect_failures(new)
            if kind in ("rows", "cols"):
                for k, v in scalars_of(cur).items():
                    if k not in new._data or not same_value(new._data[k], v):
                        f.append(f"scalar entry {k!r} not carried over by {kind}")
            if kind == "cols":
                for c in op[1]:
                    if c not in new._col_names or c not in new._data:
                        f.append(f"requested column {c!r} missing from the column selection")
                    elif is_expr(c, cur):
                        f += elementwise_failures(cur, c, new._data[c])
                    elif not same_value(new._data[c], cur._data[c]):
                        f.append(f"column {c!r} changed by the column selection")
            if kind in ("addself", "addrows", "mul", "copy"):
                if sorted(new._col_names) != sorted(cur._col_names):
                    f.append(f"{kind}: column list changed")
            if kind != "t":
                # the rows keep their content: per-row shape of every column, and for
                # + * _copy the cells themselves, in order
                n0 = before["len"]
                for c in new._col_names:
                    a, b = cur._data.get(c), new._data.get(c)
                    if c not in cur._col_names or not isinstance(a, np.ndarray) or not isinstance(b, np.ndarray):
                        continue
                    if a.shape[1:] != b.shape[1:]:
                        f.append(f"{kind}: rows of column {c!r} have shape {b.shape[1:]}, in the source {a.shape[1:]}")
                        continue
                    want = None
                    if kind == "copy":
                        want = a
                    elif kind == "addself":
                        want = np.concatenate([a, a])
                    elif kind == "mul" and int(op[1]) > 0:
                        want = np.concatenate([a] * int(op[1]))
                    elif kind == "addrows":
                        want, b = a, b[:n0]
                    if want is not None and not same_value(b, want):
                        f.append(f"{kind}: cells of column {c!r} are not those of the source rows")
            if kind == "copy" and len(new) != len(cur):
                f.append("copy has another length")
            if kind == "mul" and len(new) != len(cur) * int(op[1]):
                f.append("repetition has the wrong length")
            if kind == "addself" and len(new) != 2 * len(cur):
                f.append("concatenation has the wrong length")
            if kind == "t" and (len(new) != len(cur._col_names) or len(new._col_names) != len(cur) + 1):
                f.append("transposition has the wrong shape")
            if stay:
                ancestors.append((new, len(new), list(new._col_names)))
                last_d = new
            else:
                ancestors.append((cur, len(cur), list(cur._col_names)))
                cur = new
            del ancestors[:-12]
        elif kind in ("set", "setattr", "setcell", "del") and res[0] == "ok":
            f += rect_failures(cur)
            f += reask(f"after {kind}")
        # tables produced earlier in the chain stay rectangular with their length
        # and column list, whatever is done to the tables derived from them
        for a, alen, acols in ancestors:
            af = rect_failures(a)
            if af or len(a) != alen or list(a._col_names) != acols:
                f.append(f"an earlier table of the chain changed after {kind}: {af or [len(a), list(a._col_names)]}")
                break
        obs.append(res)
        fails.append(f)
    return ctor, obs, fails, None


def main():
    inp = json.load(sys.stdin)
    if inp.get("meta") == "gblmath":
        import xdeps.table as xt
        json.dump({"gblmath": sorted(k for k in xt.gblmath if isinstance(k, str) and k.isidentifier())}, sys.stdout)
        return
    C, O, F = [], [], []
    for case in inp["cases"]:
        with contextlib.redirect_stdout(io.StringIO()):     # the constructor prints column lengths on failure
            c, o, f, _ = run_case(case)
        C.append(c); O.append(o); F.append(f)
    json.dump({"ctor": C, "obs": O, "fail": F}, sys.stdout)


if __name__ == "__main__":
    main()
