"""Runs reference/expression cases of C04, C05, C12 on the REAL xdeps (fresh
scratch build on PYTHONPATH) and evaluates the properties' own oracles.

stdin : JSON {"mode": ..., "classes": {name: id}, "fns": {"builtins.abs": n, ...}, ...}
stdout: JSON (see each mode)

Modes
  c04        random expression trees: structure built, value per container state,
             + oracle: direct Python evaluation of the same tree
  c04inplace structure of what the in-place dunders return
  c04sweep   the operator x operand-order x value-sample sweep (oracle only)
  c04case    replay of one sweep case
  c05        dependency observation + syntactic and perturbation oracles
  c12        pickling of managers + reduce observations
  info       introspection: BaseRef subclasses, build mode
"""
import sys, json, math, operator, pickle, builtins, warnings, random, copy
import numpy as np
import xdeps as xd
from xdeps import refs as R

warnings.simplefilter("ignore")
np.seterr(all="ignore")

# ----------------------------------------------------------------------------------------
# containers and test functions (module level: picklable)
# ----------------------------------------------------------------------------------------


class Obj:
    """attribute container"""
    def __init__(self, **kw):
        self.__dict__.update(kw)

    def __eq__(self, other):
        return isinstance(other, Obj) and self.__dict__ == other.__dict__


def F0(*a, **k):
    return sum((i + 1) * x for i, x in enumerate(a)) + sum(ord(n[0]) * v for n, v in k.items())


def F1(x, y=10):
    return x - y


def F2(*a, **k):
    """records how it was called (for the sweep)"""
    return ("F2", a, tuple(sorted(k.items())))


FUNS = {0: F0, 1: F1, 2: F2}
FUN_ID = {F0: 0, F1: 1, F2: 2}


def dec(v):
    """tagged JSON -> Python value"""
    t = v[0]
    if t == "i":
        return int(v[1])
    if t == "b":
        return bool(v[1])
    if t == "s":
        return v[1]
    if t == "none":
        return None
    if t == "nan":
        return float("nan")
    if t == "f":
        return float.fromhex(v[1])
    if t == "c":
        return complex(float.fromhex(v[1]), float.fromhex(v[2]))
    if t == "t":
        return tuple(dec(x) for x in v[1])
    if t == "l":
        return [dec(x) for x in v[1]]
    if t == "d":
        return {dec(k): dec(x) for k, x in v[1]}
    if t == "o":
        return Obj(**{k: dec(x) for k, x in v[1]})
    if t == "fn":
        return FUNS[v[1]]
    if t == "np":
        return np.dtype(v[1]).type(dec(v[2]))
    if t == "arr":
        return np.array([dec(x) for x in v[3]], dtype=v[1]).reshape(v[2])
    raise ValueError(v)


def canon(x):
    """Python value -> canonical JSON for the integer instance (zv)"""
    if isinstance(x, bool):
        return ["b", x]
    if isinstance(x, int):
        return ["i", str(x)]
    if isinstance(x, float):
        return ["nan"] if x != x else ["opaque", "float"]
    if x is None:
        return ["none"]
    if isinstance(x, str):
        return ["s", x]
    if isinstance(x, tuple):
        return ["t", [canon(y) for y in x]]
    if isinstance(x, list):
        return ["l", [canon(y) for y in x]]
    if isinstance(x, dict):
        return ["d", [[canon(k), canon(y)] for k, y in x.items()]]
    if isinstance(x, Obj):
        return ["o", [[k, canon(y)] for k, y in x.__dict__.items()]]
    if callable(x) and x in FUN_ID:
        return ["fn", FUN_ID[x]]
    return ["opaque", type(x).__name__]


ERRS = ("ZeroDivisionError", "TypeError", "KeyError", "IndexError", "AttributeError", "ValueError", "OverflowError")


def canon_exc(e):
    for k in ERRS:
        if isinstance(e, getattr(builtins, k)):
            return ["err", k]
    return ["err", "Other:" + type(e).__name__]


def same(a, b):
    """equal by value and type (NaN = NaN; arrays: dtype, shape, elements)"""
    if type(a) is not type(b):
        return False
    if isinstance(a, np.ndarray):
        if a.dtype != b.dtype or a.shape != b.shape:
            return False
        if a.dtype == object:
            return all(same(x, y) for x, y in zip(a.ravel().tolist(), b.ravel().tolist()))
        try:
            return bool(np.array_equal(a, b, equal_nan=True))
        except TypeError:
            return bool(np.array_equal(a, b))
    if isinstance(a, (tuple, list)):
        return len(a) == len(b) and all(same(x, y) for x, y in zip(a, b))
    if isinstance(a, dict):
        return list(a.keys()) == list(b.keys()) and all(same(a[k], b[k]) for k in a)
    if isinstance(a, (float, np.floating)):
        # by value: Python's ==, with NaN equal to NaN.  (0.0 == -0.0: the sign of
        # a zero is not compared -- Cython 3.3's int+float fast path returns
        # 0 + -0.0 = -0.0, a build artefact outside this property.)
        if a != a or b != b:
            return bool(a != a and b != b)
        return bool(a == b)
    if isinstance(a, (complex, np.complexfloating)):
        return same(a.real, b.real) and same(a.imag, b.imag)
    try:
        return bool(a == b)
    except Exception:
        # values of foreign types whose == is not a truth value: same printed form
        try:
            return repr(a) == repr(b)
        except Exception:
            return a is b


def outcome(f):
    """('ok', value) or ('exc', exception class name)"""
    try:
        return ("ok", f())
    except RecursionError:
        raise
    except Exception as e:
        return ("exc", type(e).__name__)


def same_outcome(d, x):
    if d[0] != x[0]:
        return False
    return d[1] == x[1] if d[0] == "exc" else same(d[1], x[1])


def show(o):
    if o[0] == "exc":
        return "raises " + o[1]
    v = o[1]
    return f"{type(v).__name__}:{v!r}"[:200]


# ----------------------------------------------------------------------------------------
# Python-level expressions (pexp) on refs, and their direct evaluation
# ----------------------------------------------------------------------------------------

BINOPS = {
    "OAdd": operator.add, "OSub": operator.sub, "OMul": operator.mul, "OMatmul": operator.matmul,
    "OTruediv": operator.truediv, "OFloordiv": operator.floordiv, "OMod": operator.mod, "OPow": operator.pow,
    "OAnd": operator.and_, "OOr": operator.or_, "OXor": operator.xor, "OLt": operator.lt, "OLe": operator.le,
    "OEq": operator.eq, "ONe": operator.ne, "OGe": operator.ge, "OGt": operator.gt,
    "ORshift": operator.rshift, "OLshift": operator.lshift,
}
IOPS = {
    "OAdd": operator.iadd, "OSub": operator.isub, "OMul": operator.imul, "OMatmul": operator.imatmul,
    "OTruediv": operator.itruediv, "OFloordiv": operator.ifloordiv, "OMod": operator.imod, "OPow": operator.ipow,
    "OAnd": operator.iand, "OOr": operator.ior, "OXor": operator.ixor,
    "ORshift": operator.irshift, "OLshift": operator.ilshift,
}
IDUNDER = {"OAdd": "__iadd__", "OSub": "__isub__", "OMul": "__imul__", "OMatmul": "__imatmul__",
           "OTruediv": "__itruediv__", "OFloordiv": "__ifloordiv__", "OMod": "__imod__", "OPow": "__ipow__",
           "OAnd": "__iand__", "OOr": "__ior__", "OXor": "__ixor__", "ORshift": "__irshift__", "OLshift": "__ilshift__"}
UNOPS = {"UNeg": operator.neg, "UPos": operator.pos, "UInvert": operator.invert}
BFUNS = {"FAbs": builtins.abs, "FRound": builtins.round, "FDivmod": builtins.divmod,
         "FTrunc": math.trunc, "FFloor": math.floor, "FCeil": math.ceil}
DIV = ("OTruediv", "OFloordiv", "OMod")


def ref_apply_bin(op, l, r):
    """what the user writes on references"""
    if op == "OEq":
        return l._eq(r)
    if op == "ONe":
        return l._neq(r)
    return BINOPS[op](l, r)


class World:
    """containers + a manager + the top-level refs"""
    def __init__(self, containers, objattr=()):
        self.m = xd.Manager()
        self.c = {k: dec(v) for k, v in containers}
        self.refs = {}
        for k in self.c:
            self.refs[k] = self.m.refattr(self.c[k], k) if k in objattr else self.m.ref(self.c[k], k)

    def set_state(self, containers):
        """mutate the containers in place to another state"""
        for k, v in containers:
            new = dec(v)
            cur = self.c[k]
            if isinstance(cur, dict):
                cur.clear(); cur.update(new)
            elif isinstance(cur, list):
                cur[:] = new
            elif isinstance(cur, Obj):
                cur.__dict__.clear(); cur.__dict__.update(new.__dict__)
            else:
                raise ValueError("container kind")


def build_ref(p, w):
    """evaluate a pexp at reference level (what the user's code does)"""
    k = p[0]
    if k == "val":
        return dec(p[1])
    if k == "top":
        return w.refs[p[1]]
    if k == "lexpr":
        return R.LiteralExpr(dec(p[1]))          # harness only: the class has no operator syntax
    if k == "pack":
        # a plain Python container written in the expression, whose entries may be references:
        # r['m'][r['i'], r['j']] (tuple key), r['l'][r['i']:2] (slice key), f((r['a'], 1)), f(k=[r['a']])
        xs = [build_ref(x, w) for x in p[2]]
        if p[1] == "tuple":
            return tuple(xs)
        if p[1] == "list":
            return xs
        if p[1] == "slice":
            return slice(*xs)
        if p[1] == "dict":
            return {f"k{i}": x for i, x in enumerate(xs)}
        raise ValueError(p)
    if k == "item":
        return build_ref(p[1], w)[build_ref(p[2], w)]
    if k == "attr":
        return getattr(build_ref(p[1], w), p[2])
    if k == "bin":
        return ref_apply_bin(p[1], build_ref(p[2], w), build_ref(p[3], w))
    if k == "un":
        return UNOPS[p[1]](build_ref(p[2], w))
    if k == "builtin":
        return BFUNS[p[1]](build_ref(p[2], w), *[build_ref(x, w) for x in p[3]])
    if k == "call":
        return build_ref(p[1], w)(*[build_ref(x, w) for x in p[2]], **{n: build_ref(x, w) for n, x in p[3]})
    raise ValueError(p)


def direct(p, w):
    """ORACLE: the same expression evaluated by Python directly on the current
    container values; / // % by zero yield NaN (the documented deviation)"""
    k = p[0]
    if k == "val" or k == "lexpr":
        return dec(p[1])
    if k == "top":
        return w.c[p[1]]
    if k == "item":
        return direct(p[1], w)[direct(p[2], w)]
    if k == "attr":
        o = direct(p[1], w)
        if p[1][0] == "top" and p[1][2]:
            return o[p[2]]            # ObjectAttrRef: attribute access means item access
        return getattr(o, p[2])
    if k == "bin":
        a = direct(p[2], w); b = direct(p[3], w)
        if p[1] in DIV:
            try:
                return BINOPS[p[1]](a, b)
            except ZeroDivisionError:
                return float("nan")
        return BINOPS[p[1]](a, b)
    if k == "un":
        return UNOPS[p[1]](direct(p[2], w))
    if k == "builtin":
        return BFUNS[p[1]](direct(p[2], w), *[direct(x, w) for x in p[3]])
    if k == "call":
        return direct(p[1], w)(*[direct(x, w) for x in p[2]], **{n: direct(x, w) for n, x in p[3]})
    raise ValueError(p)


# ----------------------------------------------------------------------------------------
# observation of the objects the implementation built (-> term of RefSyntax.v)
# ----------------------------------------------------------------------------------------

class Observer:
    def __init__(self, classes, fns):
        self.classes = classes       # class name -> id (source order of refs.py)
        self.fns = fns               # "module.name" -> number
        self.unknown = set()

    def lit(self, v):
        if isinstance(v, bool):
            return ["b", v]
        if isinstance(v, int):
            return ["i", str(v)]
        if isinstance(v, str):
            return ["s", v]
        if v is None:
            return ["none"]
        if isinstance(v, tuple):
            return ["t", [self.lit(x) for x in v]]
        if type(v) is float:
            return ["f", v.hex()]          # kept exact: 0.0 / -0.0 / 1.0 are different literals
        if type(v) is complex:
            return ["c", v.real.hex(), v.imag.hex()]
        return ["opaque", type(v).__name__]

    def term(self, x):
        if not isinstance(x, R.BaseRef):
            return ["const", self.lit(x)]
        n = type(x).__name__
        if n not in self.classes:
            self.unknown.add(n)
            return ["unknown", n]
        if type(x) is R.Ref:
            return ["top", x._key, False]
        if type(x) is R.ObjectAttrRef:
            return ["top", x._key, True]
        if type(x) is R.ItemRef:
            return ["item", self.term(x._owner), self.term(x._key)]
        if type(x) is R.AttrRef:
            return ["attr", self.term(x._owner), self.term(x._key)]
        if type(x) is R.LiteralExpr:
            return ["literal", self.lit(x._arg)]
        if type(x) is R.BuiltinRef:
            op = x._op
            key = f"{getattr(op, '__module__', '?')}.{getattr(op, '__name__', '?')}"
            if key not in self.fns:
                self.unknown.add(key)
                return ["unknown", key]
            return ["builtin", self.fns[key], self.term(x._arg), [self.term(p) for p in x._params]]
        if type(x) is R.CallRef:
            return ["call", self.term(x._func), [self.term(a) for a in x._args],
                    [[k, self.term(v)] for k, v in x._kwargs]]
        if isinstance(x, R.BinOpExpr):
            return ["bin", self.classes[n], self.term(x._lhs), self.term(x._rhs)]
        if isinstance(x, R.UnaryOpExpr):
            return ["un", self.classes[n], self.term(x._arg)]
        self.unknown.add(n)
        return ["unknown", n]


def class_by_id(classes):
    return {i: getattr(R, n) for n, i in classes.items() if hasattr(R, n)}


def fn_objects(fns):
    out = {}
    for key, n in fns.items():
        mod, name = key.split(".")
        out[n] = getattr(builtins if mod == "builtins" else math, name)
    return out


def from_term(t, w, cls_of, fn_of):
    """construct the node classes directly (every slot reachable)"""
    k = t[0]
    if k == "const":
        return dec(t[1])
    if k == "top":
        return w.refs[t[1]]
    if k == "item":
        return R.ItemRef(from_term(t[1], w, cls_of, fn_of), from_term(t[2], w, cls_of, fn_of), w.m)
    if k == "attr":
        return R.AttrRef(from_term(t[1], w, cls_of, fn_of), from_term(t[2], w, cls_of, fn_of), w.m)
    if k == "bin":
        return cls_of[t[1]](from_term(t[2], w, cls_of, fn_of), from_term(t[3], w, cls_of, fn_of))
    if k == "un":
        return cls_of[t[1]](from_term(t[2], w, cls_of, fn_of))
    if k == "literal":
        return R.LiteralExpr(dec(t[1]))
    if k == "builtin":
        return R.BuiltinRef(from_term(t[2], w, cls_of, fn_of), fn_of[t[1]],
                            tuple(from_term(p, w, cls_of, fn_of) for p in t[3]))
    if k == "call":
        return R.CallRef(from_term(t[1], w, cls_of, fn_of), tuple(from_term(a, w, cls_of, fn_of) for a in t[2]),
                         tuple((n, from_term(v, w, cls_of, fn_of)) for n, v in t[3]))
    raise ValueError(t)


SLOTS = ("_owner", "_key", "_lhs", "_rhs", "_arg", "_params", "_func", "_args", "_kwargs")


def children(x):
    """(slot, child) pairs of a node, read from its operand slots"""
    out = []
    cls = type(x)
    for s in SLOTS:
        if not any(s in vars(c) for c in cls.__mro__):
            continue                                   # not a declared attribute of this class
        try:
            v = getattr(x, s)
        except AttributeError:
            continue
        if s == "_owner" and cls in (R.Ref, R.ObjectAttrRef):
            continue
        if isinstance(v, tuple) and s in ("_params", "_args"):
            out += [(s, y) for y in v]
        elif isinstance(v, tuple) and s == "_kwargs":
            out += [(s, y[1]) for y in v]
        else:
            out.append((s, v))
    return out


def class_names(x, seen, slots):
    """classes occurring in an expression and (class, slot) pairs holding a reference"""
    if isinstance(x, R.BaseRef):
        seen.add(type(x).__name__)
        for s, y in children(x):
            if isinstance(y, R.BaseRef):
                slots.add(type(x).__name__ + "." + s)
            class_names(y, seen, slots)


# ----------------------------------------------------------------------------------------
# mode c04: random trees
# ----------------------------------------------------------------------------------------

def run_c04(inp):
    obs = Observer(inp["classes"], inp["fns"])
    out = []
    for case in inp["cases"]:
        w = World(case["states"][0], case.get("objattr", ()))
        rec = {"term": None, "values": [], "oracle": []}
        try:
            e = build_ref(case["pexp"], w)
        except Exception as ex:
            rec["build_error"] = type(ex).__name__
            out.append(rec)
            continue
        rec["term"] = obs.term(e)
        for st in case["states"]:
            w.set_state(st)
            try:
                v = e._get_value()
                rec["values"].append(canon(v))
                dv = ("ok", v)
            except Exception as ex:
                rec["values"].append(canon_exc(ex))
                dv = ("exc", type(ex).__name__)
            od = outcome(lambda: direct(case["pexp"], w))
            rec["oracle"].append(None if same_outcome(od, dv) else {"direct": show(od), "deferred": show(dv)})
        out.append(rec)
    return {"results": out, "unknown": sorted(obs.unknown)}


def run_c04_inplace(inp):
    """in-place statements: structure of what __iop__ returns"""
    obs = Observer(inp["classes"], inp["fns"])
    out = []
    for case in inp["cases"]:
        w = World(case["state"], case.get("objattr", ()))
        rec = {}
        tgt = build_ref(case["target"], w)                     # an ItemRef/AttrRef
        try:
            if case["cur"] is not None:
                w.m.set_value(tgt, build_ref(case["cur"], w))
        except Exception as ex:
            out.append({"setup_error": type(ex).__name__})
            continue
        other = build_ref(case["other"], w)
        cur_expr = tgt._expr
        old = tgt._get_value()
        rec["cur_term"] = None if cur_expr is None else obs.term(cur_expr)
        rec["old"] = obs.lit(old)
        rec["target_term"] = obs.term(tgt)
        rec["other_term"] = obs.term(other)
        try:
            f = getattr(type(tgt), IDUNDER[case["op"]], None)
            # Python: target.__iop__(other) if defined, else target.__op__(other)
            res = f(tgt, other) if f is not None else BINOPS[case["op"]](tgt, other)
            rec["returned"] = ["expr", obs.term(res)] if isinstance(res, R.BaseRef) else ["val", canon(res)]
        except Exception as ex:
            rec["returned"] = ["val", canon_exc(ex)]
        out.append(rec)
    return {"results": out, "unknown": sorted(obs.unknown)}


# ----------------------------------------------------------------------------------------
# mode c04sweep: the property itself, operator by operator
# ----------------------------------------------------------------------------------------

def enc(v):
    """Python value -> tagged JSON (round trips through dec)"""
    if isinstance(v, bool):
        return ["b", v]
    if isinstance(v, int):
        return ["i", str(v)]
    if isinstance(v, float):
        return ["f", v.hex()]
    if isinstance(v, complex):
        return ["c", v.real.hex(), v.imag.hex()]
    if v is None:
        return ["none"]
    if isinstance(v, str):
        return ["s", v]
    if isinstance(v, tuple):
        return ["t", [enc(x) for x in v]]
    if isinstance(v, list):
        return ["l", [enc(x) for x in v]]
    if isinstance(v, np.ndarray):
        return ["arr", str(v.dtype), list(v.shape), [enc(x) for x in v.ravel().tolist()]]
    if isinstance(v, np.generic):
        return ["np", str(v.dtype), enc(v.item())]
    if callable(v) and v in FUN_ID:
        return ["fn", FUN_ID[v]]
    raise ValueError(type(v))


PY_NUMBERS = [0, 1, -1, 2, 7, -13, 3, 64, 2 ** 70, 0.0, -0.0, 1.5, -2.5, 1e308, float("inf"), float("nan"),
              True, False, 1 + 2j, 0j]
NP_VALUES = [np.int64(5), np.int64(0), np.int32(-3), np.float64(2.5), np.float64(0.0), np.float32(1.5),
             np.bool_(True), np.uint8(200), np.complex128(1 - 1j),
             np.array([1, 2, 3]), np.array([0.0, 1.5, -2.0]), np.array([[1, 2], [3, 4]]), np.array([0, 0, 0]),
             np.array([True, False, True])]
RAISERS = ["ab", None, [1, 2]]


def too_big(op, b):
    """right operands Python itself cannot finish with (huge powers / shifts)"""
    if op in ("OPow", "OLshift"):
        if isinstance(b, (int, np.integer)) and not isinstance(b, (bool, np.bool_)) and abs(int(b)) > 70:
            return True
    return False


def sweep_cases(seed, scale):
    """deterministic enumeration; `scale` thins the ref-ref cross product"""
    rng = random.Random(seed)
    held = PY_NUMBERS + NP_VALUES + RAISERS
    lits = PY_NUMBERS
    cases = []
    for op in BINOPS:
        for cfg in ("rr", "rl", "lr"):
            if op in ("OEq", "ONe") and cfg == "lr":
                continue              # a literal has no _eq method
            A = held if cfg in ("rr", "rl") else lits
            B = held if cfg in ("rr", "lr") else lits
            pairs = [(a, b) for a in A for b in B if not too_big(op, b)]
            if cfg == "rr" and scale < 1.0:
                pairs = [p for p in pairs if rng.random() < scale]
            for a, b in pairs:
                cases.append({"kind": "bin", "op": op, "cfg": cfg, "a": enc(a), "b": enc(b)})
    for op in UNOPS:
        for a in held:
            cases.append({"kind": "un", "op": op, "a": enc(a)})
    for f in BFUNS:
        for a in held:
            if f == "FRound":
                cases.append({"kind": "builtin", "f": f, "a": enc(a), "ps": [], "pcfg": []})
                for n in (0, 1, -1, 2, None, True, 1.5):
                    cases.append({"kind": "builtin", "f": f, "a": enc(a), "ps": [enc(n)], "pcfg": ["l"]})
                    if n is not None:
                        cases.append({"kind": "builtin", "f": f, "a": enc(a), "ps": [enc(n)], "pcfg": ["r"]})
            elif f == "FDivmod":
                for b in held:
                    cases.append({"kind": "builtin", "f": f, "a": enc(a), "ps": [enc(b)], "pcfg": ["r"]})
                for b in lits:
                    cases.append({"kind": "builtin", "f": f, "a": enc(a), "ps": [enc(b)], "pcfg": ["l"]})
            else:
                cases.append({"kind": "builtin", "f": f, "a": enc(a), "ps": [], "pcfg": []})
    # calls: positional / keyword arguments, literal or reference, function held in a container
    vals = [3, -2.5, True, 1 + 2j, np.int64(4), np.array([1, 2]), "ab", None]
    for fid in (2, 0, 1):
        for na in (0, 1, 2, 3):
            for nk in (0, 1, 2):
                for rep in range(3):
                    args = [rng.choice(vals) for _ in range(na)]
                    kws = [[rng.choice(["y", "k", "zz"][: nk + 1]) + str(i), rng.choice(vals)] for i in range(nk)]
                    if fid == 1:
                        kws = [["y", v] for _, v in kws][:1]
                    def cfg(v):      # literal arguments are hashable Python numbers; anything else is held in the container
                        return rng.choice("lr") if isinstance(v, (int, float, complex)) and not isinstance(v, np.generic) else "r"
                    cases.append({"kind": "call", "fn": fid, "args": [enc(a) for a in args],
                                  "acfg": [cfg(a) for a in args],
                                  "kw": [[n, enc(v)] for n, v in kws], "kcfg": [cfg(v) for _, v in kws]})
    # item / attribute access, constant and computed keys, missing keys
    for key in (0, 1, 2, -1, 5, "a", "zz", True, 1.0, None):
        for kc in ("l", "r"):
            for cont in ("list", "dict", "tuple", "arr"):
                cases.append({"kind": "item", "cont": cont, "key": enc(key), "kcfg": kc})
    for name in ("x", "y", "missing"):
        for nested in (False, True):
            cases.append({"kind": "attr", "name": name, "nested": nested})
    # in-place
    for op in IOPS:
        for tv in (7, -13, 2.5, True, 0, np.int64(6), np.array([4, 9]), [1, 2], "ab"):
            for ov in (3, 0, -2, 1.5, False, np.int64(2), np.array([1, 2]), "c"):
                if too_big(op, ov):
                    continue
                for hasexpr in (False, True):
                    for oc in ("l", "r"):
                        if oc == "l" and not isinstance(ov, (int, float, bool, complex)):
                            continue          # literal operands are Python numbers
                        if oc == "r" and not hasexpr and (isinstance(tv, (np.generic, np.ndarray, list, str))):
                            continue          # old value op reference: the old value takes the place of a literal left
                                              # operand, which the property restricts to hashable Python numbers
                                              # (numpy / str / list on the left own the operator or are unhashable)
                        cases.append({"kind": "inplace", "op": op, "t": enc(tv), "o": enc(ov), "expr": hasexpr, "ocfg": oc})
    return cases


def guard_direct(op, f):
    """direct evaluation with the documented NaN rule for deferred / // %"""
    if op in DIV:
        try:
            return ("ok", f())
        except ZeroDivisionError:
            return ("ok", float("nan"))
        except Exception as e:
            return ("exc", type(e).__name__)
    return outcome(f)


def run_sweep_case(c):
    """None when the property holds on this case, else a description"""
    k = c["kind"]
    m = xd.Manager()
    if k == "bin":
        a, b = dec(c["a"]), dec(c["b"])
        d = {"x": a, "y": b}
        r = m.ref(d, "d")
        L = r["x"] if c["cfg"][0] == "r" else a
        Rr = r["y"] if c["cfg"][1] == "r" else b
        e = ref_apply_bin(c["op"], L, Rr)             # built once; evaluated before and after the change
        want = guard_direct(c["op"], lambda: BINOPS[c["op"]](a, b))
        got = outcome(lambda: e._get_value())
        if not same_outcome(want, got):
            return {"direct": show(want), "deferred": show(got)}
        if c["cfg"] == "rr" and not too_big(c["op"], a):
            d["x"], d["y"] = b, a                     # the operands change in the container
            want = guard_direct(c["op"], lambda: BINOPS[c["op"]](b, a))
            got = outcome(lambda: e._get_value())
            if not same_outcome(want, got):
                return {"direct": show(want), "deferred": show(got), "after": "operands swapped in the container"}
        return None
    if k == "un":
        a = dec(c["a"]); d = {"x": a}; r = m.ref(d, "d")
        want = outcome(lambda: UNOPS[c["op"]](a))
        got = outcome(lambda: UNOPS[c["op"]](r["x"])._get_value())
        return None if same_outcome(want, got) else {"direct": show(want), "deferred": show(got)}
    if k == "builtin":
        a = dec(c["a"]); ps = [dec(p) for p in c["ps"]]
        d = {"x": a}
        for i, p in enumerate(ps):
            d[f"p{i}"] = p
        r = m.ref(d, "d")
        rps = [r[f"p{i}"] if c["pcfg"][i] == "r" else p for i, p in enumerate(ps)]
        f = BFUNS[c["f"]]
        want = outcome(lambda: f(a, *ps))
        got = outcome(lambda: f(r["x"], *rps)._get_value())
        return None if same_outcome(want, got) else {"direct": show(want), "deferred": show(got)}
    if k == "call":
        fn = FUNS[c["fn"]]
        args = [dec(a) for a in c["args"]]; kws = [(n, dec(v)) for n, v in c["kw"]]
        d = {"f": fn}
        for i, a in enumerate(args):
            d[f"a{i}"] = a
        for i, (n, v) in enumerate(kws):
            d[f"k{i}"] = v
        r = m.ref(d, "d")
        rargs = [r[f"a{i}"] if c["acfg"][i] == "r" else a for i, a in enumerate(args)]
        rkw = {n: (r[f"k{i}"] if c["kcfg"][i] == "r" else v) for i, (n, v) in enumerate(kws)}
        want = outcome(lambda: fn(*args, **dict(kws)))
        got = outcome(lambda: r["f"](*rargs, **rkw)._get_value())
        return None if same_outcome(want, got) else {"direct": show(want), "deferred": show(got)}
    if k == "item":
        cont = {"list": [10, 20, 30], "dict": {0: "z", "a": 5, 1: 7}, "tuple": (1.5, 2.5, 3.5),
                "arr": np.array([4, 5, 6])}[c["cont"]]
        key = dec(c["key"])
        d = {"c": cont, "k": key}; r = m.ref(d, "d")
        rk = r["k"] if c["kcfg"] == "r" else key
        want = outcome(lambda: cont[key])
        got = outcome(lambda: r["c"][rk]._get_value())
        return None if same_outcome(want, got) else {"direct": show(want), "deferred": show(got)}
    if k == "attr":
        o = Obj(x=3, y=Obj(x=4.5))
        d = Obj(o=o); r = m.ref(d, "d")
        if c["nested"]:
            want = outcome(lambda: getattr(o.y, c["name"]))
            got = outcome(lambda: getattr(r.o.y, c["name"])._get_value())
        else:
            want = outcome(lambda: getattr(o, c["name"]))
            got = outcome(lambda: getattr(r.o, c["name"])._get_value())
        return None if same_outcome(want, got) else {"direct": show(want), "deferred": show(got)}
    if k == "inplace":
        return run_inplace_case(c)
    raise ValueError(k)


def run_inplace_case(c):
    op = c["op"]
    tv, ov = dec(c["t"]), dec(c["o"])
    m = xd.Manager()
    d = {"a": copy.deepcopy(tv), "t": copy.deepcopy(tv), "o": ov, "u": 0}
    r = m.ref(d, "d")
    operand = r["o"] if c["ocfg"] == "r" else ov
    deferred = c["expr"] or c["ocfg"] == "r"          # the result is an expression -> NaN rule applies
    if c["expr"]:
        base = outcome(lambda: +tv)
        if base[0] == "exc":
            return None                               # the set-up itself is not valid Python for this value
        r["t"] = +r["a"]                              # old expression: (+a)
        base = base[1]
    else:
        base = tv
    if deferred:
        want = guard_direct(op, lambda: BINOPS[op](copy.deepcopy(base), ov))
    else:
        want = outcome(lambda: BINOPS[op](copy.deepcopy(base), ov))

    def stmt():
        ref = r["t"]
        ref = IOPS[op](ref, operand)                  # Python's  r['t'] op= operand
        r["t"] = ref
        return d["t"]
    got = outcome(stmt)
    if not same_outcome(want, got):
        return {"direct": show(want), "inplace": show(got)}
    if got[0] == "ok":
        ex = r["t"]._expr
        if not deferred and ex is not None:
            return {"direct": show(want), "inplace": "a task was registered for a plain-value update: " + str(ex)}
        if deferred and ex is None:
            return {"direct": show(want), "inplace": "no expression registered"}
        if ex is not None and r["t"] in ex._get_dependencies():
            return {"direct": show(want), "inplace": "self-referential task registered: " + str(ex)}
    return None


def run_c04sweep(inp):
    cases = sweep_cases(inp["seed"], inp["scale"])
    lo, hi = inp.get("slice", [0, len(cases)])
    hi = min(hi, len(cases))
    fails = []
    kinds = {}
    for c in cases[lo:hi]:
        key = c["kind"] + ":" + str(c.get("op", c.get("f", "")))
        kinds[key] = kinds.get(key, 0) + 1
        try:
            r = run_sweep_case(c)
        except Exception as e:               # the library raised outside the guarded evaluations
            r = {"error": f"{type(e).__name__}: {e}"[:300], "step": where_raised(e)}
        if r is not None:
            fails.append({"case": c, "why": r})
    return {"n": hi - lo, "total": len(cases), "kinds": kinds, "fails": fails[:50], "nfails": len(fails)}


# ----------------------------------------------------------------------------------------
# mode c05
# ----------------------------------------------------------------------------------------

def occ_py(x, out):
    """ORACLE: item/attribute references occurring anywhere inside x (walk of
    the object's operand slots; independent of _get_dependencies)"""
    if not isinstance(x, R.BaseRef):
        return out
    for s, y in children(x):
        occ_py(y, out)
    if isinstance(x, (R.ItemRef, R.AttrRef)):
        out.append(x)
    return out


def container_locations(w):
    """every (ref, current value) of the containers, by walking the data"""
    out = []

    def walk(ref, val, depth):
        if depth > 4:
            return
        if isinstance(val, dict):
            for k, v in val.items():
                out.append((ref[k], v)); walk(ref[k], v, depth + 1)
        elif isinstance(val, list):
            for i, v in enumerate(val):
                out.append((ref[i], v)); walk(ref[i], v, depth + 1)
        elif isinstance(val, Obj):
            for k, v in val.__dict__.items():
                out.append((getattr(ref, k), v)); walk(getattr(ref, k), v, depth + 1)
    for k, c in w.c.items():
        walk(w.refs[k], c, 0)
    return out


def holds_ref(key):
    if isinstance(key, R.BaseRef):
        return True
    if isinstance(key, (tuple, list)):
        return any(holds_ref(k) for k in key)
    if isinstance(key, slice):
        return any(holds_ref(k) for k in (key.start, key.stop, key.step))
    return False


def aliased_by_computed_key(ref, ds, obs):
    """the location is a member of an owner that the expression reads through a reported
    COMPUTED key (owner[<expression>]): which member that is depends on the key's value"""
    if not isinstance(ref, (R.ItemRef, R.AttrRef)):
        return False
    own = obs.term(ref._owner)
    return any(isinstance(d, (R.ItemRef, R.AttrRef)) and holds_ref(d._key) and obs.term(d._owner) == own for d in ds)


def run_c05(inp):
    obs = Observer(inp["classes"], inp["fns"])
    cls_of = class_by_id(inp["classes"]); fn_of = fn_objects(inp["fns"])
    out = []
    for case in inp["cases"]:
        w = World(case["state"], case.get("objattr", ()))
        rec = {"deps": None, "oracle": None, "classes": [], "slots": []}
        e = from_term(case["term"], w, cls_of, fn_of) if "term" in case else build_ref(case["pexp"], w)
        rec["term"] = obs.term(e)
        seen, slots = set(), set()
        class_names(e, seen, slots)
        rec["classes"] = sorted(seen); rec["slots"] = sorted(slots)
        ds = None
        try:
            ds = e._get_dependencies()
            if ds is None:
                rec["deps"] = ["none"]
            elif not isinstance(ds, set):
                rec["deps"] = ["notset", type(ds).__name__]
            else:
                rec["deps"] = ["set", [obs.term(x) for x in ds]]
        except RecursionError:
            raise
        except Exception as ex:
            rec["deps"] = ["raise", type(ex).__name__]
        # oracle 1 (syntactic clause): exactly the locations occurring inside, as a set
        problems = []
        if isinstance(e, R.BaseRef) and case.get("wellformed", True):
            want = occ_py(e, [])
            if rec["deps"][0] != "set":
                problems.append(f"_get_dependencies() gave {rec['deps']} instead of a set")
            else:
                # compared structurally (not with ==, which goes through repr: property C06)
                kw = {json.dumps(obs.term(x)) for x in want}
                kd = {json.dumps(obs.term(x)) for x in ds}
                miss = sorted(kw - kd)
                extra = sorted(kd - kw)
                if miss:
                    problems.append("locations occurring in the expression but not reported: " + ", ".join(miss))
                if extra:
                    problems.append("reported but not occurring: " + ", ".join(extra))
        # oracle 2 (semantic clause, constant keys): perturb every container location through its reference
        base = outcome(e._get_value) if case.get("perturb") and isinstance(e, R.BaseRef) else None
        rec["evaluates"] = None if base is None else base[0] == "ok"
        # (an expression that cannot be evaluated reads nothing successfully: no semantic obligation)
        if case.get("perturb") and isinstance(e, R.BaseRef) and not problems and base[0] == "ok":
            try:
                tgt = w.refs[case["out"][0]][case["out"][1]]
                w.m.set_value(tgt, e)
                kd = {json.dumps(obs.term(x)) for x in ds} if ds is not None else set()
                for ref, val in container_locations(w):
                    if obs.term(ref) == obs.term(tgt) or isinstance(val, bool) or not isinstance(val, int):
                        continue
                    before = outcome(lambda: e._get_value())
                    w.m.set_value(ref, val + 3)
                    after = outcome(lambda: e._get_value())
                    held = outcome(lambda: tgt._get_value())
                    changed = not same_outcome(before, after)
                    if after[0] == "ok" and not same_outcome(after, held):
                        problems.append(f"after {S(ref)} changed through set_value, {S(tgt)} holds {show(held)} but its expression evaluates to {show(after)}")
                        break
                    if changed and ds is not None and json.dumps(obs.term(ref)) not in kd and not aliased_by_computed_key(ref, ds, obs):
                        problems.append(f"changing {S(ref)} changes the value ({show(before)} -> {show(after)}) but it is not a reported dependency")
                        break
                    w.m.set_value(ref, val)
            except RecursionError:
                raise
            except Exception as ex:
                problems.append(f"perturbation raised {type(ex).__name__}: {ex}")
        rec["oracle"] = problems or None
        out.append(rec)
    return {"results": out, "unknown": sorted(obs.unknown)}


# ----------------------------------------------------------------------------------------
# mode c12
# ----------------------------------------------------------------------------------------

class MW:
    """adapter: a manager seen as a World (for build_ref)"""
    def __init__(self, m):
        self.m = m
        self.refs = m.containers


def resolve_path(m, path):
    """['label', ['i', key] | ['a', name], ...] -> reference in manager m"""
    r = m.containers[path[0]]
    for kind, k in path[1:]:
        r = r[dec(k)] if kind == "i" else getattr(r, k)
    return r


def apply_assign(m, a):
    """one assignment through manager m: plain value, expression, or in-place"""
    w = MW(m)
    tgt = resolve_path(m, a["target"])
    if a["kind"] == "value":
        m.set_value(tgt, dec(a["value"]))
    elif a["kind"] == "expr":
        m.set_value(tgt, build_ref(a["pexp"], w))
    elif a["kind"] == "inplace":
        other = build_ref(a["pexp"], w)
        m.set_value(tgt, IOPS[a["op"]](tgt, other))
    else:
        raise ValueError(a)


def canon_full(x):
    """like canon, but floats and arrays keep their exact value (C12 compares
    container contents of two managers)"""
    if isinstance(x, float):
        # compared by value: -0.0 == 0.0 (the sign of a zero differs between the
        # builds through Cython's arithmetic fast paths; not part of this property)
        return ["nan"] if x != x else ["f", (0.0 if x == 0 else x).hex()]
    if isinstance(x, complex):
        return ["c", x.real.hex(), x.imag.hex()]
    if isinstance(x, np.ndarray):
        return ["arr", str(x.dtype), list(x.shape), [canon_full(y) for y in x.ravel().tolist()]]
    if isinstance(x, np.generic):
        return ["np", str(x.dtype), canon_full(x.item())]
    if isinstance(x, tuple):
        return ["t", [canon_full(y) for y in x]]
    if isinstance(x, list):
        return ["l", [canon_full(y) for y in x]]
    if isinstance(x, dict):
        return ["d", [[canon_full(k), canon_full(y)] for k, y in x.items()]]
    if isinstance(x, Obj):
        return ["o", [[k, canon_full(y)] for k, y in x.__dict__.items()]]
    return canon(x)


def contents(m):
    return {k: canon_full(r._owner) for k, r in m.containers.items()}


def red_arg(v, obs, m):
    if isinstance(v, xd.Manager):
        return ["mgr"]
    if isinstance(v, R.BaseRef):
        return ["one", obs.term(v)]
    if isinstance(v, tuple) and v and all(isinstance(p, tuple) and len(p) == 2 and isinstance(p[0], str) for p in v):
        return ["kw", [[k, obs.term(x)] for k, x in v]]
    if isinstance(v, tuple):
        return ["list", [obs.term(x) for x in v]]
    if isinstance(v, (dict, list, Obj)):
        for k, r in m.containers.items():
            if r._owner is v:
                return ["cont", k, type(r) is R.ObjectAttrRef]
        return ["cont", "?", False]
    if callable(v):
        key = f"{getattr(v, '__module__', '?')}.{getattr(v, '__name__', '?')}"
        if key in obs.fns:
            return ["op", obs.fns[key]]
    return ["one", obs.term(v)]


def index_counts(m):
    """the four dependency indices with multiplicities (empty entries dropped), keyed by printed refs"""
    out = {}
    for name in ("rdeps", "rtasks", "deptasks", "tartasks"):
        d = {}
        for k, rc in getattr(m, name).items():
            for k2, n in rc.items():
                d[f"{k} -> {k2}"] = n
        out[name] = d
    return out


def run_c12(inp):
    obs = Observer(inp["classes"], inp["fns"])
    out = []
    for case in inp["cases"]:
        rec = {"oracle": None, "reduces": [], "classes": []}
        problems = []
        w = World(case["state"], case.get("objattr", ()))
        m = w.m
        try:
            for a in case["history"]:
                apply_assign(m, a)
        except RecursionError:
            raise
        except Exception as ex:
            rec["setup_error"] = f"{type(ex).__name__}: {ex}"
            out.append(rec)
            continue
        # reduce observations (every node of every task)
        seen_cls = set()
        done = set()

        def walk(x):
            if not isinstance(x, R.BaseRef):
                return
            seen_cls.add(type(x).__name__)
            key = json.dumps(obs.term(x))
            if key not in done:
                done.add(key)
                try:
                    cls, args = x.__reduce__()
                    rec["reduces"].append({"term": obs.term(x), "cls": inp["classes"].get(cls.__name__, -1),
                                           "args": [red_arg(v, obs, m) for v in args]})
                except RecursionError:
                    raise
                except Exception as ex:
                    rec["reduces"].append({"term": obs.term(x), "error": type(ex).__name__})
            for s, y in children(x):
                walk(y)
        for t in m.tasks.values():
            walk(t.taskid); walk(t.expr)
        rec["classes"] = sorted(seen_cls)
        rec["ntasks"] = len(m.tasks)
        # ORACLE: the property itself
        try:
            m2 = pickle.loads(pickle.dumps(m))
        except RecursionError:
            problems.append("pickle round trip raised RecursionError")
            m2 = None
        except Exception as ex:
            problems.append(f"pickle round trip raised {type(ex).__name__}: {ex}")
            m2 = None
        if m2 is not None:
            try:
                if m2.dump() != m.dump():
                    problems.append(f"dump() differs: {m.dump()} vs {m2.dump()}")
                ic1, ic2 = index_counts(m), index_counts(m2)
                if ic1 != ic2:
                    diff = [(n, k, ic1[n].get(k), ic2[n].get(k)) for n in ic1 for k in set(ic1[n]) | set(ic2[n])
                            if ic1[n].get(k) != ic2[n].get(k)]
                    problems.append(f"the restored manager's dependency indices differ from the original's (entry, original count, "
                                    f"restored count): {sorted(diff)[:4]} - a later unregister/re-assignment then behaves differently")
                try:
                    m2.verify()
                except Exception as ex:
                    problems.append(f"verify() of the restored manager: {type(ex).__name__}: {ex}")
                if contents(m2) != contents(m):
                    problems.append("restored container contents differ")
                if any(m2.containers[k]._owner is m.containers[k]._owner for k in m.containers):
                    problems.append("restored manager shares a container object with the original")
                snap2 = contents(m2)
                # follow-up assignments that raise (a failure in the middle of an update
                # is property C18, and its partial state depends on set order) are
                # screened out on a fresh, unpickled replica of the history
                accepted = []
                for a in case["followup"]:
                    pw = World(case["state"], case.get("objattr", ()))
                    try:
                        for h in case["history"] + accepted + [a]:
                            apply_assign(pw.m, h)
                        accepted.append(a)
                    except RecursionError:
                        raise
                    except Exception:
                        pass
                rec["followup_accepted"] = len(accepted)
                case = dict(case, followup=accepted)
                errs1 = []
                for a in case["followup"]:            # on the original only: the copy must not move
                    try:
                        apply_assign(m, a); errs1.append(None)
                    except Exception as ex:
                        errs1.append(type(ex).__name__)
                if contents(m2) != snap2:
                    problems.append("assignments to the original changed the copy")
                snap1 = contents(m)
                errs2 = []
                for a in case["followup"]:
                    try:
                        apply_assign(m2, a); errs2.append(None)
                    except Exception as ex:
                        errs2.append(type(ex).__name__)
                if contents(m) != snap1:
                    problems.append("assignments to the copy changed the original")
                if errs1 != errs2:
                    problems.append(f"follow-up raised differently: {errs1} vs {errs2}")
                if contents(m2) != contents(m):
                    problems.append(f"after the same follow-up: original {contents(m)} copy {contents(m2)}")
                if m2.dump() != m.dump():
                    problems.append("dump() differs after the follow-up")
                try:
                    m.verify(); m2.verify()
                except Exception as ex:
                    problems.append(f"verify() after the follow-up: {type(ex).__name__}: {ex}")
                rec["final"] = contents(m)
                rec["followup_errors"] = errs1
            except RecursionError:
                problems.append("RecursionError while comparing the managers")
        rec["oracle"] = problems or None
        out.append(rec)
    return {"results": out, "unknown": sorted(obs.unknown)}


# ----------------------------------------------------------------------------------------

# ----------------------------------------------------------------------------------------
# mode c04nested: nested layouts -- the derived properties of MutableRef that consult
# the manager (_expr, _tasks, _find_dependant_targets, _value, _eval) and in-place
# operators on locations at every level
# ----------------------------------------------------------------------------------------

def read_path(c, path):
    """direct read of the container data along a path"""
    v = c[path[0]]
    for kind, k in path[1:]:
        v = v[dec(k)] if kind == "i" else getattr(v, k)
    return v


def own_task(m, ref, obs):
    """ORACLE: the task registered under exactly this reference (structural
    comparison of the task ids; independent of MutableRef._expr)"""
    key = json.dumps(obs.term(ref))
    for t in m.tasks.values():
        if json.dumps(obs.term(t.taskid)) == key:
            return t
    return None


def nested_stmt(m, w, st, obs, assign):
    """one in-place statement  target op= operand.  Pure part: what __iop__
    returns; with assign: the whole statement, then the location is read back."""
    rec = {"oracle": None}
    tgt = resolve_path(m, st["target"])
    op = st["op"]
    operand = build_ref(st["operand"], w)
    is_ref_operand = isinstance(operand, R.BaseRef)
    operand_value = outcome(lambda: R.BaseRef._mk_value(operand))
    old = outcome(tgt._get_value)
    rec["target_term"] = obs.term(tgt)
    rec["other_term"] = obs.term(operand)
    if old[0] != "ok" or operand_value[0] != "ok":
        rec["skipped"] = "target or operand cannot be read"
        return rec
    rec["old"] = canon(old[1])
    rec["old_lit"] = obs.lit(old[1])
    own = own_task(m, tgt, obs)
    rec["own_definition"] = own is not None
    # ORACLE: the result is built from the location's OWN definition if it has one,
    # else from its current value -- never from a relative's
    if own is not None and hasattr(own, "expr"):
        base = outcome(own.expr._get_value)
        deferred = True
    else:
        base = old
        deferred = is_ref_operand
    if base[0] != "ok":
        rec["skipped"] = "own expression cannot be evaluated"
        return rec
    if deferred:
        want = guard_direct(op, lambda: BINOPS[op](copy.deepcopy(base[1]), operand_value[1]))
    else:
        want = outcome(lambda: BINOPS[op](copy.deepcopy(base[1]), operand_value[1]))
    problems = []
    try:
        f = getattr(type(tgt), IDUNDER[op], None)
        res = f(tgt, operand) if f is not None else BINOPS[op](tgt, operand)
        if isinstance(res, R.BaseRef):
            rec["returned"] = ["expr", obs.term(res)]
            got = outcome(res._get_value)
            if not deferred:
                problems.append(f"{S(tgt)} {op}= plain operand on a location without a definition of its own returned the expression {obs.term(res)} instead of a value")
        else:
            rec["returned"] = ["val", canon(res)]
            got = ("ok", res)
            if deferred:
                problems.append(f"{S(tgt)} {op}= returned a plain value although the result must be an expression")
    except RecursionError:
        raise
    except Exception as ex:
        rec["returned"] = ["val", canon_exc(ex)]
        got = ("exc", type(ex).__name__)
    if not problems and not same_outcome(want, got):
        problems.append(f"{S(tgt)} {op}= : expected {show(want)} (from its own {'definition' if own is not None else 'value'}), got {show(got)}")
    if assign and not problems:
        parent0 = None
        if len(st["target"]) > 1:
            try:
                parent = read_path(w.c, st["target"][:-1])
                if isinstance(parent, np.ndarray):
                    parent0 = parent.copy()
            except Exception:
                pass
        try:
            m.set_value(tgt, IOPS[op](tgt, operand))
            after = outcome(lambda: read_path(w.c, st["target"]))
        except RecursionError:
            raise
        except Exception as ex:
            after = ("exc", type(ex).__name__)
        rec["assigned"] = show(after)
        if want[0] == "ok" and parent0 is not None:
            # an element stored into a numpy array: what numpy makes of that value (dtype
            # conversion, or its refusal) is numpy's business -- replay the store on a copy
            key = dec(st["target"][-1][1])

            def store():
                parent0[key] = want[1]
                return parent0[key]
            want = outcome(store)
        if not same_outcome(want, after):
            problems.append(f"after {S(tgt)} {op}= ... the location holds {show(after)}, expected {show(want)}")
    rec["oracle"] = problems or None
    return rec


def run_c04_nested(inp):
    obs = Observer(inp["classes"], inp["fns"])
    out = []
    for case in inp["cases"]:
        w = World(case["state"], case.get("objattr", ()))
        m = w.m
        rec = {"oracle": None}
        try:
            for d in case["defs"]:
                m.set_value(resolve_path(m, d["target"]), build_ref(d["pexp"], w))
        except RecursionError:
            raise
        except Exception as ex:
            out.append({"setup_error": f"{type(ex).__name__}: {ex}"})
            continue
        problems = []
        rec["tasks"] = [[obs.term(t.taskid), obs.term(t.expr)] for t in m.tasks.values() if hasattr(t, "expr")]
        probes = []
        for path in case["probes"]:
            try:
                ref = resolve_path(m, path)
                pr = {"ref": obs.term(ref)}
                ex = ref._expr
                pr["expr"] = None if ex is None else obs.term(ex)
                own = own_task(m, ref, obs)
                if (ex is None) != (own is None) or (ex is not None and obs.term(ex) != obs.term(own.expr)):
                    problems.append(f"{S(ref)}._expr is {pr['expr']} but the task registered under that reference is "
                                    f"{None if own is None else obs.term(own.expr)}")
                pr["tasks"] = [obs.term(t) for t in ref._tasks]
                pr["dependants"] = [obs.term(t) for t in ref._find_dependant_targets()]
                gv = outcome(ref._get_value)
                pv = outcome(lambda: ref._value)
                dv = outcome(lambda: read_path(w.c, path))
                if gv[0] == "exc" and gv[1] == "AttributeError":
                    gv = ("exc", "LookupError")
                if not same_outcome(gv, pv):
                    problems.append(f"{S(ref)}._value = {show(pv)} but _get_value() = {show(gv)}")
                if dv[0] == "ok" and not same_outcome(dv, pv):
                    problems.append(f"{S(ref)}._value = {show(pv)} but the container holds {show(dv)}")
                probes.append(pr)
            except RecursionError:
                raise
            except Exception as ex:
                probes.append({"error": f"{type(ex).__name__}: {ex}"})
        rec["probes"] = probes
        evals = []
        for ev in case.get("evals", []):
            try:
                at = resolve_path(m, ev["at"])
                got = at._eval(ev["text"])
                want = build_ref(ev["pexp"], w)
                evals.append(obs.term(got))
                if obs.term(got) != obs.term(want):
                    problems.append(f"{S(at)}._eval({ev['text']!r}) built {obs.term(got)}, the operators build {obs.term(want)}")
            except RecursionError:
                raise
            except Exception as ex:
                evals.append(None)
                problems.append(f"_eval({ev['text']!r}) raised {type(ex).__name__}: {ex}")
        rec["evals"] = evals
        stmts = []
        n = len(case["stmts"])
        for i, st in enumerate(case["stmts"]):
            r = nested_stmt(m, w, st, obs, assign=(case.get("assign_last") and i == n - 1))
            if r.get("oracle"):
                problems += r["oracle"]
            stmts.append(r)
        rec["stmts"] = stmts
        rec["oracle"] = problems or None
        out.append(rec)
    return {"results": out, "unknown": sorted(obs.unknown)}


def S(x):
    """printed form of a reference for messages; printing is library code and may raise"""
    try:
        return str(x)
    except Exception as ex:
        return f"<unprintable {type(x).__name__}: {type(ex).__name__}>"


def where_raised(ex):
    """innermost frame of this file in the traceback: the step of the case that was running"""
    import traceback
    frames = [f for f in traceback.extract_tb(ex.__traceback__) if f.filename.endswith("refs_runner.py")]
    if not frames:
        return "?"
    f = frames[-1]
    return f"{f.name}:{f.lineno}: {(f.line or '').strip()[:120]}"


def guarded(run_fn):
    """Runs the cases one by one: whatever the library raises while a case runs
    (construction, printing, hashing, evaluation, manager calls ...) is that case's
    OUTCOME -- {"case_error": {exc, msg, step}} -- and never ends the runner."""
    def wrapper(inp):
        results, unknown = [], set()
        for case in inp["cases"]:
            try:
                r = run_fn(dict(inp, cases=[case]))
                results += r["results"]
                unknown |= set(r["unknown"])
            except Exception as ex:           # includes RecursionError, MemoryError
                results.append({"case_error": {"exc": type(ex).__name__, "msg": str(ex)[:300], "step": where_raised(ex)}})
        return {"results": results, "unknown": sorted(unknown)}
    return wrapper


def run_info(inp):
    subs = {}
    for n in dir(R):
        c = getattr(R, n)
        if isinstance(c, type) and issubclass(c, R.BaseRef):
            subs[n] = [b.__name__ for b in c.__mro__[1:] if issubclass(b, R.BaseRef)]
    slots = {n: [s for s in SLOTS if any(s in vars(k) for k in getattr(R, n).__mro__)] for n in subs}
    return {"subclasses": subs, "slots": slots, "file": R.__file__}


def main():
    inp = json.load(sys.stdin)
    mode = inp["mode"]
    if mode == "c04":
        res = guarded(run_c04)(inp)
    elif mode == "c04inplace":
        res = guarded(run_c04_inplace)(inp)
    elif mode == "c04sweep":
        res = run_c04sweep(inp)
    elif mode == "c04case":
        try:
            res = {"why": run_sweep_case(inp["case"])}
        except Exception as ex:
            res = {"why": {"error": f"{type(ex).__name__}: {ex}"[:300], "step": where_raised(ex)}}
    elif mode == "c04nested":
        res = guarded(run_c04_nested)(inp)
    elif mode == "c05":
        res = guarded(run_c05)(inp)
    elif mode == "c12":
        res = guarded(run_c12)(inp)
    elif mode == "info":
        res = run_info(inp)
    else:
        raise ValueError(mode)
    res["compiled"] = bool(R.is_cythonized())
    json.dump(res, sys.stdout)


if __name__ == "__main__":
    sys.setrecursionlimit(3000)
    main()
