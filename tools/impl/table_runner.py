"""Runs Table operation sequences on the real xdeps.table.Table and, next to
each observed result, the answer of an independent linear scan of the
*current* index column (the C07 oracle).  stdin: JSON {"cases":[...]};
stdout: JSON {"results":[[...]], "oracle":[[...]]}."""
import sys, json, re
import numpy as np
import xdeps as xd


def mk_table(case):
    names = case["idx"]
    # "idx_dtype": "object" (default) | "unicode" (a fixed-width numpy string column, kept as such)
    uni = case.get("idx_dtype") == "unicode" and len(names) > 0
    data = {"name": np.array(names) if uni else (np.array(names, dtype=object) if names else np.array([], dtype=object))}
    for k, v in case["cols"]:
        data[k] = np.array(v, dtype=np.int64)
    for k, v in case.get("scols", []):          # further string columns (candidates for t._index = ...)
        data[k] = np.array(v, dtype=object)
    kw = {}
    if case.get("seps"):        # the separators as constructor arguments
        kw = dict(zip(("sep_count", "sep_previous", "sep_next"), case["seps"]))
    return xd.Table(data, col_names=["name"] + [k for k, _ in case["cols"]] + [k for k, _ in case.get("scols", [])],
                    index="name", cast_strings=not uni, **kw)


def mk_row(r):
    k = r[0]
    if k == "int":
        return int(r[1])
    if k == "str":
        return r[1]
    if k == "tup2":
        return (r[1], r[2])
    if k == "tup3":
        return (r[1], r[2], r[3])
    raise ValueError(r)


def canon_exc(e):
    for cls in (KeyError, IndexError, ValueError, TypeError, AttributeError):
        if isinstance(e, cls):
            return ["err", cls.__name__]
    return ["err", type(e).__name__]


def canon_val(v):
    if isinstance(v, (str, np.str_)):
        return ["valn", str(v)]
    if isinstance(v, (int, np.integer)):
        return ["valz", int(v)]
    return ["other", repr(v)]


SEPS = ["::", "<<", ">>"]      # separators of the table currently addressed (sep_count, sep_previous, sep_next)


def split_sel(text):
    """name, count, offset of a textual selector, by the documented grammar
    name<sep_count>count(<sep_previous>|<sep_next>)offset with the separators of the
    table that receives it (names are free of that table's separators)."""
    sc, sp, sn = (re.escape(x) for x in SEPS)
    m = re.match(r"^(.*?)(?:%s([+-]?\d+))?(?:(%s|%s)([+-]?\d+))?$" % (sc, sp, sn), text, re.S)
    name, cnt, d, k = m.groups()
    off = 0
    if d == SEPS[1]:
        off = -int(k)
    elif d == SEPS[2]:
        off = int(k)
    return name, (None if cnt is None else int(cnt)), off


def scan(col, r):
    """position defined by a scan of the current column; None = KeyError"""
    k = r[0]
    if k == "int":
        return int(r[1])
    if k == "str":
        name, cnt, off = split_sel(r[1])
    elif k == "tup2":
        name, cnt, off = r[1], r[2], 0
    else:
        name, cnt, off = r[1], r[2], r[3]
    ps = [i for i, x in enumerate(col) if x == name]
    c = 0 if cnt is None else cnt
    if c < 0:
        c += len(ps)
    if c < 0 or c >= len(ps):
        return None
    return ps[c] + off


def wrap(n, i):
    if 0 <= i < n:
        return i
    if -n <= i < 0:
        return i + n
    return None


def mk_sel(s):
    return [int(x) for x in s[1]] if s[0] == "poslist" else slice(s[1], s[2])


def derive(t, op):
    """the derivations of the Table API: a new table object replaces the current one"""
    kind = op[0]
    if kind == "d_addself":
        return t + t
    if kind == "d_addrows":
        return t + t.rows[mk_sel(op[1])]
    if kind == "d_mul":
        return t * int(op[1])
    if kind == "d_copy":
        return t._copy()
    if kind == "d_rows":
        return t.rows[mk_sel(op[1])]
    if kind == "d_cols":
        return t.cols[list(op[1])]
    if kind == "d_concat":
        return xd.Table.concatenate([t] + [t.rows[mk_sel(s)] for s in op[1]])
    if kind == "d_t":
        return t._t
    if kind == "d_repoint":
        t._index = op[1]            # another existing string column becomes the index (attribute assignment)
        return t
    if kind == "d_reindex":
        # the index column is removed and a column with the index name is assigned again
        idx = t._index
        if op[2] == "pop":
            t.pop(idx)
        else:
            del t[idx]
        vals = np.array(op[1], dtype=object)
        if op[3] == "attr":
            setattr(t, idx, vals)
        else:
            t[idx] = vals
        return t
    raise RuntimeError("unknown derivation " + kind)


def run_case(case):
    # one table, or ("multi") several tables alive together, each with its own separators,
    # and steps [k, op] addressed to table k in any interleaving
    global SEPS
    if "multi" in case:
        tabs = [mk_table(tc) for tc in case["multi"]["tables"]]
        seps = [list(tc.get("seps") or ["::", "<<", ">>"]) for tc in case["multi"]["tables"]]
        steps = case["multi"]["steps"]
    else:
        tabs, seps, steps = [mk_table(case)], [list(case.get("seps") or ["::", "<<", ">>"])], [[0, op] for op in case["ops"]]
    res, orc = [], []
    for which, op in steps:
        t = tabs[which]
        SEPS = seps[which]
        kind = op[0]
        if kind == "setidxfrom":
            # t[index] = <the index column of another live table>: the very array object that table
            # returns ("array"), a copy of it, or a list of its values
            src = tabs[op[1]]
            val = src[src._index]
            val = val.copy() if op[2] == "copy" else list(val) if op[2] == "list" else val
            try:
                if op[3] == "attr":
                    setattr(t, t._index, val)
                else:
                    t[t._index] = val
                res.append(["unit"])
            except Exception as e:  # noqa
                res.append(canon_exc(e))
            orc.append(None)
            continue
        if kind == "setsep":
            # t._sep_count / t._sep_previous / t._sep_next = value
            i = ["count", "previous", "next"].index(op[1])
            try:
                setattr(t, "_sep_" + op[1], op[2])
                seps[which][i] = op[2]
                res.append(["unit"])
            except Exception as e:  # noqa
                res.append(canon_exc(e))
            orc.append(None)
            continue
        IDX = t._index          # "name"; "columns" on a transposed table
        if len(op) > 1 and op[1] == "name" and kind in ("getcell", "setcell"):
            op = [op[0], IDX] + list(op[2:])
        cur = [str(x) for x in t._data[IDX]]
        exp = None
        try:
            if kind.startswith("d_"):
                t = tabs[which] = derive(t, op)
                res.append(["unit"]); orc.append(None)
                continue
            if kind == "getindex":
                p = scan(cur, op[1])
                exp = ["err", "KeyError"] if p is None else ["pos", p]
                out = ["pos", int(t.rows.get_index(mk_row(op[1])))]
            elif kind == "floordiv":
                p = scan(cur, op[1])
                exp = ["err", "KeyError"] if p is None else ["pos", p]
                out = ["pos", int(t // mk_row(op[1]))]
            elif kind == "getcell":
                p = scan(cur, op[2])
                col = cur if op[1] == IDX else [int(x) for x in t._data[op[1]]]
                if p is None:
                    exp = ["err", "KeyError"]
                else:
                    w = wrap(len(col), p)
                    exp = ["err", "IndexError"] if w is None else canon_val(col[w])
                out = canon_val(t[op[1], mk_row(op[2])])
            elif kind == "setcell":
                p = scan(cur, op[2])
                if p is None:
                    exp = ["err", "KeyError"]
                else:
                    w = wrap(len(cur), p)
                    exp = ["err", "IndexError"] if w is None else ["unit"]
                t[op[1], mk_row(op[2])] = op[3]
                out = ["unit"]
                if exp == ["unit"]:
                    # the write must land on the row the scan designates and nowhere else
                    newcol = [str(x) for x in t._data[IDX]] if op[1] == IDX else [int(x) for x in t._data[op[1]]]
                    oldcol = cur if op[1] == IDX else None
                    if op[1] == IDX:
                        want = list(cur); want[w] = op[3]
                        if newcol != want:
                            exp = ["written", want]; out = ["written", newcol]
            elif kind == "setidxcol":
                vals = np.array(op[1], dtype=object)
                if op[2] == "attr":
                    setattr(t, IDX, vals)
                else:
                    t[IDX] = vals
                out = ["unit"]; exp = None
            elif kind == "setidxscalar":
                t[IDX] = op[1]
                out = ["unit"]; exp = ["unit"]
            elif kind == "setcol":
                vals = np.array(op[2], dtype=np.int64)
                if op[3] == "attr":
                    setattr(t, op[1], vals)
                else:
                    t[op[1]] = vals
                out = ["unit"]; exp = None
            elif kind == "delcol":
                if len(op) > 2 and op[2] == "pop":
                    t.pop(op[1])
                else:
                    del t[op[1]]
                out = ["unit"]; exp = None
            elif kind == "unique":
                labs = [str(x) for x in t.cols.get_index_unique()]
                out = ["labels", [list(split_sel(l)[:2]) for l in labs]]
                # oracle: every label resolves back to its own row
                bad = [i for i, l in enumerate(labs) if scan(cur, ["str", l]) != i]
                back = []
                for i, l in enumerate(labs):
                    try:
                        back.append(int(t.rows.get_index(l)))
                    except Exception as e:
                        back.append(type(e).__name__)
                exp = ["labels_ok"] if not bad and back == list(range(len(labs))) else ["labels_bad", bad, back]
                if exp == ["labels_ok"]:
                    exp = None
            else:
                raise RuntimeError("unknown op " + kind)
        except Exception as e:
            out = canon_exc(e)
        res.append(out)
        orc.append(exp)
    return res, orc


def main():
    inp = json.load(sys.stdin)
    real_stdout = sys.stdout
    sys.stdout = sys.stderr          # the library prints diagnostics; keep the JSON channel clean
    results, oracle = [], []
    for case in inp["cases"]:
        r, o = run_case(case)
        results.append(r)
        oracle.append(o)
    json.dump({"results": results, "oracle": oracle}, real_stdout)


if __name__ == "__main__":
    main()
