#!/usr/bin/env python3
"""xdeps/refs.py -> coq/gen/GenRefs.v  (DESIGN 3.1; tables of model/RefTables.v).

stdlib `ast` only.  Fail closed: any construct outside the recognised patterns
in the parts read here raises Unrecognised -> exit 1 (the tie is then reported
broken by the checks, which fall back to the Python-side oracle search).

What is read:
  * BaseRef: operator dunders (binary forward/reflected, _eq/_neq, unary,
    __divmod__/__round__/__trunc__/__floor__/__ceil__/__abs__),
    __getitem__/__getattr__/__call__; ObjectAttrRef.__getattr__
  * every concrete BinOpExpr/UnaryOpExpr subclass: _get_value, _op_str
  * MutableRef.__iXX__ (Python's 13 in-place dunders; absence recorded)
  * every class: MRO-resolved _get_dependencies, __reduce__, the __cinit__ chain
The text records what the source SAYS (e.g. __rle__ passes one argument);
whether that matters is decided by the obligations in coq/props.
"""
import ast, sys, os
sys.path.insert(0, os.path.dirname(os.path.abspath(__file__)))
from refs_common import (parse, classes, methods, strip_doc, coq_string_codes,
                         write_if_changed, Unrecognised, fail)

BIN_AST = {ast.Add: "OAdd", ast.Sub: "OSub", ast.Mult: "OMul", ast.MatMult: "OMatmul", ast.Div: "OTruediv",
           ast.FloorDiv: "OFloordiv", ast.Mod: "OMod", ast.Pow: "OPow", ast.BitAnd: "OAnd", ast.BitOr: "OOr",
           ast.BitXor: "OXor", ast.RShift: "ORshift", ast.LShift: "OLshift"}
CMP_AST = {ast.Lt: "OLt", ast.LtE: "OLe", ast.Eq: "OEq", ast.NotEq: "ONe", ast.GtE: "OGe", ast.Gt: "OGt"}
UN_AST = {ast.USub: "UNeg", ast.UAdd: "UPos", ast.Invert: "UInvert"}

# Python's data model: operator -> dunder stem
STEM = {"add": "OAdd", "sub": "OSub", "mul": "OMul", "matmul": "OMatmul", "truediv": "OTruediv",
        "floordiv": "OFloordiv", "mod": "OMod", "pow": "OPow", "and": "OAnd", "or": "OOr", "xor": "OXor",
        "lt": "OLt", "le": "OLe", "ge": "OGe", "gt": "OGt", "rshift": "ORshift", "lshift": "OLshift"}
INPLACE = ["add", "sub", "mul", "matmul", "truediv", "floordiv", "mod", "pow", "lshift", "rshift", "and", "xor", "or"]
UN_DUNDER = {"__neg__": "UNeg", "__pos__": "UPos", "__invert__": "UInvert"}
BUILTIN_DUNDER = {"__divmod__": "FDivmod", "__round__": "FRound", "__trunc__": "FTrunc",
                  "__floor__": "FFloor", "__ceil__": "FCeil", "__abs__": "FAbs"}
FN_OBJ = {("builtins", "divmod"): "FDivmod", ("builtins", "round"): "FRound", ("math", "trunc"): "FTrunc",
          ("math", "floor"): "FFloor", ("math", "ceil"): "FCeil", ("builtins", "abs"): "FAbs"}
FIELDS = {"_owner": "FOwner", "_key": "FKey", "_manager": "FManager", "_lhs": "FLhs", "_rhs": "FRhs",
          "_arg": "FArg", "_op": "FOp", "_params": "FParams", "_func": "FFunc", "_args": "FArgs", "_kwargs": "FKwargs"}
KINDS = {"BaseRef": "KBase", "MutableRef": "KMutable", "Ref": "KRef", "ObjectAttrRef": "KObjectAttr",
         "AttrRef": "KAttr", "ItemRef": "KItem", "BinOpExpr": "KBinOp", "UnaryOpExpr": "KUnaryOp",
         "LiteralExpr": "KLiteral", "BuiltinRef": "KBuiltin", "CallRef": "KCall"}


def U(node, msg):
    raise Unrecognised(f"refs.py line {getattr(node, 'lineno', '?')}: {msg}: {ast.unparse(node)[:120] if isinstance(node, ast.AST) else node}")


def params(fn):
    a = fn.args
    if a.posonlyargs or a.kwonlyargs:
        U(fn, "unsupported parameter kinds")
    names = [x.arg for x in a.args]
    defaults = [None] * (len(names) - len(a.defaults)) + list(a.defaults)
    return names, defaults, (a.vararg.arg if a.vararg else None), (a.kwarg.arg if a.kwarg else None)


def self_field(e):
    """self._f -> field constructor, else None"""
    if isinstance(e, ast.Attribute) and isinstance(e.value, ast.Name) and e.value.id == "self" and e.attr in FIELDS:
        return FIELDS[e.attr]
    return None


class Tr:
    def __init__(self):
        self.tree = parse("xdeps/refs.py")
        self.cls = classes(self.tree)                       # (id, name, bases, node)
        self.by_name = {n: (i, b, d) for i, n, b, d in self.cls}
        if "BaseRef" not in self.by_name:
            raise Unrecognised("class BaseRef not found")
        self.refcls = []                                     # names of BaseRef and descendants, source order
        for i, n, b, d in self.cls:
            if n == "BaseRef" or self.is_ref_class(n):
                if n != "BaseRef" and len(b) != 1:
                    U(d, "multiple inheritance below BaseRef")
                self.refcls.append(n)
        self.fn_ids = {}                                     # (mod, fn) -> number (first occurrence in BaseRef, source order)

    # ---- hierarchy ------------------------------------------------------
    def is_ref_class(self, name, seen=()):
        if name == "BaseRef":
            return True
        if name not in self.by_name or name in seen:
            return False
        return any(self.is_ref_class(b, seen + (name,)) for b in self.by_name[name][1])

    def mro(self, name):
        out = [name]
        while out[-1] != "BaseRef":
            out.append(self.by_name[out[-1]][1][0])
        return out

    def kind(self, name):
        for n in self.mro(name):
            if n in KINDS:
                return KINDS[n]
        return "KOther"

    def cid(self, name):
        return self.by_name[name][0]

    def resolve(self, name, meth):
        """(defining class name, FunctionDef) following the MRO, or None"""
        for n in self.mro(name):
            m = methods(self.by_name[n][2])
            if meth in m:
                return n, m[meth]
        return None

    # ---- dunders of BaseRef ----------------------------------------------
    def ctor_call(self, fn, ret, names):
        """return K(a, b, ...) with a, b in {self, other}"""
        if not (isinstance(ret, ast.Return) and isinstance(ret.value, ast.Call) and isinstance(ret.value.func, ast.Name)
                and not ret.value.keywords):
            U(ret, "expected `return Class(args)`")
        k = ret.value.func.id
        if k not in self.refcls:
            U(ret, "constructed class is not a reference class")
        args = []
        for a in ret.value.args:
            if isinstance(a, ast.Name) and a.id == names[0]:
                args.append("ASelf")
            elif isinstance(a, ast.Name) and len(names) > 1 and a.id == names[1]:
                args.append("AOther")
            else:
                U(ret, "constructor argument is neither self nor the operand")
        return f"{{| cc_cls := {self.cid(k)}%N; cc_args := [{'; '.join(args)}] |}}"

    def builtin_call(self, ret, names):
        """return BuiltinRef(self, mod.fn[, (other,)])"""
        if not (isinstance(ret, ast.Return) and isinstance(ret.value, ast.Call) and isinstance(ret.value.func, ast.Name)
                and ret.value.func.id == "BuiltinRef" and not ret.value.keywords and 2 <= len(ret.value.args) <= 3):
            U(ret, "expected `return BuiltinRef(self, fn[, params])`")
        a = ret.value.args
        if not (isinstance(a[0], ast.Name) and a[0].id == names[0]):
            U(ret, "first argument of BuiltinRef is not self")
        f = a[1]
        if not (isinstance(f, ast.Attribute) and isinstance(f.value, ast.Name) and (f.value.id, f.attr) in FN_OBJ):
            U(ret, "unknown function object")
        key = (f.value.id, f.attr)
        if key not in self.fn_ids:
            self.fn_ids[key] = len(self.fn_ids)
        ps = []
        if len(a) == 3:
            if not isinstance(a[2], ast.Tuple):
                U(ret, "params is not a tuple display")
            for e in a[2].elts:
                if isinstance(e, ast.Name) and len(names) > 1 and e.id == names[1]:
                    ps.append("AOther")
                elif isinstance(e, ast.Name) and e.id == names[0]:
                    ps.append("ASelf")
                else:
                    U(ret, "builtin parameter is neither self nor the operand")
        return f"{{| bc_fn := {self.fn_ids[key]}%N; bc_params := [{'; '.join(ps)}] |}}"

    def lit(self, e):
        if isinstance(e, ast.Constant):
            v = e.value
            if v is None:
                return "LNone"
            if isinstance(v, bool):
                return f"(LBool {'true' if v else 'false'})"
            if isinstance(v, int):
                return f"(LInt ({v})%Z)"
        U(e, "unsupported default value")

    def base_dunders(self):
        bdef = self.by_name["BaseRef"][2]
        dbin, dun, dbuiltin, access = [], [], [], []
        opnames = {}
        for stem, op in STEM.items():
            opnames[f"__{stem}__"] = (op, "DFwd")
            opnames[f"__r{stem}__"] = (op, "DRefl")
        opnames["_eq"] = ("OEq", "DMeth")
        opnames["_neq"] = ("ONe", "DMeth")
        # source order matters for the numbering of function objects: walk the body
        for m in bdef.body:
            if not isinstance(m, ast.FunctionDef):
                continue
            names, defaults, va, kw = params(m)
            body = strip_doc(m.body)
            if m.name in opnames:
                if len(names) != 2 or va or kw or any(d is not None for d in defaults) or len(body) != 1:
                    U(m, "binary dunder is not `def f(self, other): return K(..)`")
                op, k = opnames[m.name]
                dbin.append(f"({op}, {k}, {self.ctor_call(m, body[0], names)})")
            elif m.name in UN_DUNDER:
                if len(names) != 1 or va or kw or len(body) != 1:
                    U(m, "unary dunder is not `def f(self): return K(self)`")
                dun.append(f"({UN_DUNDER[m.name]}, {self.ctor_call(m, body[0], names)})")
            elif m.name in BUILTIN_DUNDER:
                if va or kw or not 1 <= len(names) <= 2 or defaults[0] is not None:
                    U(m, "unsupported signature of a builtin dunder")
                has_param = len(names) == 2
                default = "None"
                if has_param and defaults[1] is not None:
                    default = f"(Some {self.lit(defaults[1])})"
                if_none = "None"
                if len(body) == 2:
                    t = body[0]
                    if not (has_param and isinstance(t, ast.If) and not t.orelse and len(t.body) == 1
                            and isinstance(t.test, ast.Compare) and len(t.test.ops) == 1 and isinstance(t.test.ops[0], ast.Is)
                            and isinstance(t.test.left, ast.Name) and t.test.left.id == names[1]
                            and isinstance(t.test.comparators[0], ast.Constant) and t.test.comparators[0].value is None):
                        U(t, "expected `if other is None: return BuiltinRef(..)`")
                    if_none = f"(Some {self.builtin_call(t.body[0], names)})"
                elif len(body) != 1:
                    U(m, "builtin dunder body not recognised")
                main = self.builtin_call(body[-1], names)
                dbuiltin.append(f"({BUILTIN_DUNDER[m.name]}, {{| be_has_param := {'true' if has_param else 'false'}; "
                                f"be_default := {default}; be_if_none := {if_none}; be_main := {main} |}})")
        # operator dunders must not be overridden below BaseRef
        watched = set(opnames) | set(UN_DUNDER) | set(BUILTIN_DUNDER) | {"__call__", "__getitem__", "__rdivmod__"}
        for n in self.refcls:
            if n == "BaseRef":
                continue
            for mn, m in methods(self.by_name[n][2]).items():
                if mn in watched:
                    U(m, f"operator method {mn} overridden in {n}")
        # accessors
        for owner in self.refcls:
            ms = methods(self.by_name[owner][2])
            for mn, acc in (("__getitem__", "AccGetitem"), ("__getattr__", "AccGetattr"), ("__call__", "AccCall")):
                if mn not in ms:
                    continue
                if owner not in ("BaseRef", "ObjectAttrRef"):
                    U(ms[mn], f"{mn} defined in unexpected class {owner}")
                m = ms[mn]
                names, defaults, va, kw = params(m)
                body = strip_doc(m.body)
                ret = body[-1]
                for s in body[:-1]:
                    ok = (isinstance(s, ast.If) and not s.orelse and len(s.body) == 1 and isinstance(s.body[0], ast.Raise)
                          and isinstance(s.test, ast.Compare) and len(s.test.ops) == 1 and isinstance(s.test.ops[0], ast.In)
                          and isinstance(s.test.left, ast.Name) and len(names) == 2 and s.test.left.id == names[1]
                          and isinstance(s.test.comparators[0], ast.Name) and s.test.comparators[0].id == "special_methods")
                    if not ok:
                        U(s, "unexpected statement in accessor")
                if acc == "AccGetattr" and len(body) != 2:
                    U(m, "__getattr__ is expected to refuse exactly the names in special_methods, then build the node")
                if not (isinstance(ret, ast.Return) and isinstance(ret.value, ast.Call) and isinstance(ret.value.func, ast.Name)
                        and ret.value.func.id in self.refcls and not ret.value.keywords and len(ret.value.args) == 3):
                    U(ret, "accessor does not return Class(self, x, y)")
                a = ret.value.args
                if acc == "AccCall":
                    good = (names == ["self"] and va and kw and [x.id if isinstance(x, ast.Name) else None for x in a] == ["self", va, kw])
                else:
                    good = (len(names) == 2 and not va and not kw and isinstance(a[0], ast.Name) and a[0].id == "self"
                            and isinstance(a[1], ast.Name) and a[1].id == names[1] and self_field(a[2]) == "FManager")
                if not good:
                    U(ret, "accessor arguments not recognised")
                access.append(f"({self.cid(owner)}%N, {acc}, {self.cid(ret.value.func.id)}%N)")
        return dbin, dun, dbuiltin, access

    def special_names(self):
        """special_methods = {'__copy__', ...}: the attribute names __getattr__ refuses to defer"""
        found = None
        for node in self.tree.body:
            if isinstance(node, ast.Assign) and len(node.targets) == 1 and isinstance(node.targets[0], ast.Name) \
                    and node.targets[0].id == "special_methods":
                if found is not None:
                    U(node, "special_methods assigned twice")
                v = node.value
                if not (isinstance(v, ast.Set) and all(isinstance(e, ast.Constant) and isinstance(e.value, str) for e in v.elts)):
                    U(node, "special_methods is not a set display of string constants")
                found = [e.value for e in v.elts]
        if found is None:
            raise Unrecognised("special_methods not found")
        for node in ast.walk(self.tree):       # the set must not be changed anywhere else
            if isinstance(node, ast.Attribute) and isinstance(node.value, ast.Name) and node.value.id == "special_methods":
                U(node, "special_methods is modified/used through a method")
        return found

    # ---- _get_value of the generated classes --------------------------------
    def mkvalue_locals(self, stmts):
        """x = BaseRef._mk_value(self._f)  ->  {x: field}"""
        env = {}
        for s in stmts:
            if not (isinstance(s, ast.Assign) and len(s.targets) == 1 and isinstance(s.targets[0], ast.Name)
                    and isinstance(s.value, ast.Call) and len(s.value.args) == 1 and not s.value.keywords
                    and isinstance(s.value.func, ast.Attribute) and s.value.func.attr == "_mk_value"
                    and isinstance(s.value.func.value, ast.Name) and s.value.func.value.id in ("BaseRef", "self")
                    and self_field(s.value.args[0])):
                U(s, "expected `x = BaseRef._mk_value(self._f)`")
            env[s.targets[0].id] = self_field(s.value.args[0])
        return env

    def op_str(self, name):
        for n in self.mro(name):
            for s in self.by_name[n][2].body:
                if isinstance(s, ast.Assign) and len(s.targets) == 1 and isinstance(s.targets[0], ast.Name) and s.targets[0].id == "_op_str":
                    if isinstance(s.value, ast.Constant) and isinstance(s.value.value, str):
                        return s.value.value
                    U(s, "_op_str is not a string constant")
        raise Unrecognised(f"class {name}: no _op_str")

    def class_sem(self):
        cbin, cun = [], []
        for n in self.refcls:
            k = self.kind(n)
            if k not in ("KBinOp", "KUnaryOp") or n in ("BinOpExpr", "UnaryOpExpr"):
                continue
            d, m = self.resolve(n, "_get_value")
            if d in ("BinOpExpr", "UnaryOpExpr", "BaseRef"):
                continue   # abstract (raises NotImplementedError)
            names, defaults, va, kw = params(m)
            if names != ["self"] or va or kw:
                U(m, "_get_value signature")
            body = strip_doc(m.body)
            env = self.mkvalue_locals(body[:-1])
            last = body[-1]
            guard = False
            if isinstance(last, ast.Try):
                h = last.handlers
                ok = (len(last.body) == 1 and len(h) == 1 and not last.orelse and not last.finalbody
                      and isinstance(h[0].type, ast.Name) and h[0].type.id == "ZeroDivisionError" and len(h[0].body) == 1
                      and isinstance(h[0].body[0], ast.Return)
                      and ast.dump(h[0].body[0].value) == ast.dump(ast.parse("float('nan')", mode="eval").body))
                if not ok:
                    U(last, "try/except is not the ZeroDivisionError -> float('nan') guard")
                guard = True
                last = last.body[0]
            if not isinstance(last, ast.Return):
                U(last, "expected return")
            e = last.value

            def loc(x):
                if isinstance(x, ast.Name) and x.id in env:
                    return env[x.id]
                U(x, "operand is not a local bound by _mk_value")
            opstr = coq_string_codes(self.op_str(n))
            if k == "KBinOp":
                if isinstance(e, ast.BinOp) and type(e.op) in BIN_AST:
                    op, a, b = BIN_AST[type(e.op)], loc(e.left), loc(e.right)
                elif isinstance(e, ast.Compare) and len(e.ops) == 1 and type(e.ops[0]) in CMP_AST:
                    op, a, b = CMP_AST[type(e.ops[0])], loc(e.left), loc(e.comparators[0])
                else:
                    U(e, "not a binary operator application")
                cbin.append(f"({self.cid(n)}%N, {{| bs_op := {op}; bs_left := {a}; bs_right := {b}; "
                            f"bs_guard := {'true' if guard else 'false'}; bs_opstr := {opstr} |}})")
            else:
                if guard or not (isinstance(e, ast.UnaryOp) and type(e.op) in UN_AST):
                    U(e, "not a unary operator application")
                cun.append(f"({self.cid(n)}%N, {{| us_op := {UN_AST[type(e.op)]}; us_arg := {loc(e.operand)}; us_opstr := {opstr} |}})")
        return cbin, cun

    # ---- in-place dunders ---------------------------------------------------
    def inplace(self):
        ms = methods(self.by_name["MutableRef"][2])
        for n in self.refcls:
            if n == "MutableRef":
                continue
            for mn, m in methods(self.by_name[n][2]).items():
                if mn in [f"__i{s}__" for s in INPLACE]:
                    U(m, f"in-place dunder {mn} defined in {n}")
        out = []
        for stem in INPLACE:
            op = STEM[stem]
            m = ms.get(f"__i{stem}__")
            if m is None:
                out.append(f"({op}, None)")
                continue
            names, defaults, va, kw = params(m)
            body = strip_doc(m.body)
            ok = (len(names) == 2 and not va and not kw and defaults == [None, None] and len(body) == 2
                  and isinstance(body[0], ast.Assign) and len(body[0].targets) == 1 and isinstance(body[0].targets[0], ast.Name)
                  and self_is(body[0].value, "_expr") and isinstance(body[1], ast.If) and isinstance(body[1].test, ast.Name)
                  and body[1].test.id == body[0].targets[0].id and len(body[1].body) == 1 and len(body[1].orelse) == 1
                  and isinstance(body[1].body[0], ast.Return) and isinstance(body[1].orelse[0], ast.Return))
            if not ok:
                U(m, "in-place dunder body not recognised")
            ex = body[0].targets[0].id

            def side(e, is_self):
                if not (isinstance(e, ast.BinOp) and type(e.op) in BIN_AST):
                    U(e, "not a binary operator application")
                l_self, r_self = is_self(e.left), is_self(e.right)
                l_oth = isinstance(e.left, ast.Name) and e.left.id == names[1]
                r_oth = isinstance(e.right, ast.Name) and e.right.id == names[1]
                if l_self and r_oth:
                    return BIN_AST[type(e.op)], "true"
                if r_self and l_oth:
                    return BIN_AST[type(e.op)], "false"
                U(e, "operands of the in-place operator not recognised")
            eo, ef = side(body[1].body[0].value, lambda x: isinstance(x, ast.Name) and x.id == ex)
            vo, vf = side(body[1].orelse[0].value,
                          lambda x: isinstance(x, ast.Call) and not x.args and not x.keywords and self_is(x.func, "_get_value"))
            out.append(f"({op}, Some {{| ie_expr_op := {eo}; ie_expr_self_first := {ef}; ie_val_op := {vo}; ie_val_self_first := {vf} |}})")
        return out

    # ---- _get_dependencies -----------------------------------------------------
    def deps(self):
        out = []
        for n in self.refcls:
            d, m = self.resolve(n, "_get_dependencies")
            names, defaults, va, kw = params(m)
            if names != ["self", "out"] or va or kw or not (isinstance(defaults[1], ast.Constant) and defaults[1].value is None):
                U(m, "_get_dependencies signature is not (self, out=None)")
            body = strip_doc(m.body)
            alias = {}
            init = False
            steps = []

            def fld(e):
                f = self_field(e)
                if f:
                    return f
                if isinstance(e, ast.Name) and e.id in alias:
                    return alias[e.id]
                return None

            def descend(s, var=None):
                """[if isinstance(X, BaseRef):] X._get_dependencies(out) -> (X expr, guarded)"""
                guarded = False
                if isinstance(s, ast.If):
                    t = s.test
                    if not (not s.orelse and len(s.body) == 1 and isinstance(t, ast.Call) and isinstance(t.func, ast.Name)
                            and t.func.id == "isinstance" and len(t.args) == 2 and isinstance(t.args[1], ast.Name)
                            and t.args[1].id == "BaseRef"):
                        return None
                    guarded = True
                    tested = t.args[0]
                    s = s.body[0]
                else:
                    tested = None
                if not (isinstance(s, ast.Expr) and isinstance(s.value, ast.Call) and isinstance(s.value.func, ast.Attribute)
                        and s.value.func.attr == "_get_dependencies" and len(s.value.args) == 1 and not s.value.keywords
                        and isinstance(s.value.args[0], ast.Name) and s.value.args[0].id == "out"):
                    return None
                x = s.value.func.value
                if tested is not None and ast.dump(tested) != ast.dump(x):
                    return None
                return x, guarded

            for s in body[:-1]:
                if isinstance(s, ast.Assign) and len(s.targets) == 1 and isinstance(s.targets[0], ast.Name) and self_field(s.value):
                    alias[s.targets[0].id] = self_field(s.value)
                    continue
                if (isinstance(s, ast.If) and isinstance(s.test, ast.Compare) and len(s.test.ops) == 1 and isinstance(s.test.ops[0], ast.Is)
                        and isinstance(s.test.left, ast.Name) and s.test.left.id == "out"
                        and isinstance(s.test.comparators[0], ast.Constant) and s.test.comparators[0].value is None
                        and not s.orelse and len(s.body) == 1
                        and ast.dump(s.body[0]) == ast.dump(ast.parse("out = set()").body[0])):
                    if steps:
                        U(s, "`out` initialised after it was used")
                    init = True
                    continue
                if (isinstance(s, ast.Expr) and ast.dump(s.value) == ast.dump(ast.parse("out.add(self)", mode="eval").body)):
                    steps.append("DAddSelf")
                    continue
                if isinstance(s, ast.For) and not s.orelse and len(s.body) == 1 and fld(s.iter):
                    t = s.target
                    if isinstance(t, ast.Name):
                        var, ctor = t.id, "DEach"
                    elif isinstance(t, ast.Tuple) and len(t.elts) == 2 and all(isinstance(x, ast.Name) for x in t.elts):
                        var, ctor = t.elts[1].id, "DEachSnd"
                    else:
                        U(s, "loop target not recognised")
                    r = descend(s.body[0])
                    if not r or not (isinstance(r[0], ast.Name) and r[0].id == var):
                        U(s, "loop body is not a descent into the loop variable")
                    steps.append(f"{ctor} {fld(s.iter)} {'true' if r[1] else 'false'}")
                    continue
                r = descend(s)
                if r and fld(r[0]):
                    steps.append(f"DField {fld(r[0])} {'true' if r[1] else 'false'}")
                    continue
                U(s, "statement of _get_dependencies not recognised")
            last = body[-1]
            if not isinstance(last, ast.Return) or last.value is None:
                U(last, "_get_dependencies does not end with `return <expr>`")
            v = last.value
            if isinstance(v, ast.Name) and v.id == "out":
                ret = "ROut"
            elif ast.dump(v) == ast.dump(ast.parse("out or set()", mode="eval").body):
                ret = "ROutOrSet"
            elif (isinstance(v, ast.Call) and isinstance(v.func, ast.Attribute) and v.func.attr == "_get_dependencies"
                  and len(v.args) == 1 and not v.keywords and isinstance(v.args[0], ast.Name) and v.args[0].id == "out"
                  and fld(v.func.value)):
                ret = f"(RCallee {fld(v.func.value)})"
            else:
                U(last, "return shape of _get_dependencies not recognised")
            out.append(f"({self.cid(n)}%N, {self.cid(d)}%N, {{| tr_init := {'true' if init else 'false'}; "
                       f"tr_steps := [{'; '.join(steps)}]; tr_ret := {ret} |}})")
        return out

    # ---- __reduce__ / __cinit__ ----------------------------------------------------
    def reduce_cinit(self):
        red, cin, asg = [], [], []
        for n in self.refcls:
            d, m = self.resolve(n, "__reduce__")
            body = strip_doc(m.body)
            if d != "BaseRef":
                names, defaults, va, kw = params(m)
                ok = (names == ["self"] and not va and not kw and len(body) == 1 and isinstance(body[0], ast.Return)
                      and isinstance(body[0].value, ast.Tuple) and len(body[0].value.elts) == 2
                      and ast.dump(body[0].value.elts[0]) == ast.dump(ast.parse("type(self)", mode="eval").body)
                      and isinstance(body[0].value.elts[1], ast.Tuple))
                if not ok:
                    U(m, "__reduce__ is not `return type(self), (self._a, ...)`")
                fs = []
                for e in body[0].value.elts[1].elts:
                    if isinstance(e, ast.Attribute) and isinstance(e.value, ast.Name) and e.value.id == "self" and e.attr not in FIELDS:
                        # names an attribute no class declares: recorded as a tuple that cannot be rebuilt
                        U(e, "__reduce__ names an attribute that no reference class declares")
                    if not self_field(e):
                        U(e, "__reduce__ tuple element is not self._field")
                    fs.append(self_field(e))
                red.append(f"({self.cid(n)}%N, {self.cid(d)}%N, [{'; '.join(fs)}])")
            elif not (len(body) == 1 and isinstance(body[0], ast.Raise)):
                U(m, "BaseRef.__reduce__ is expected to raise")
            # the __cinit__ chain: Cython calls every __cinit__ of the MRO (base first) with the same arguments
            chain = [(c, methods(self.by_name[c][2]).get("__cinit__")) for c in reversed(self.mro(n))]
            chain = [(c, f) for c, f in chain if f is not None]
            if not chain:
                continue
            sig = None
            assigns = {}
            for c, f in chain:
                names, defaults, va, kw = params(f)
                if va or kw or names[0] != "self":
                    U(f, "__cinit__ signature")
                ps = names[1:]
                this = [(p, defaults[i + 1] is not None) for i, p in enumerate(ps)]
                if sig is not None and [p for p, _ in sig] != [p for p, _ in this]:
                    U(f, "__cinit__ chain with differing parameter lists")
                sig = this
                for s in strip_doc(f.body):
                    self.cinit_stmt(s, ps, assigns)
            cin.append(f"({self.cid(n)}%N, [{'; '.join(f'({coq_string_codes(p)}, ' + ('true' if dflt else 'false') + ')' for p, dflt in sig)}])")
            asg.append(f"({self.cid(n)}%N, [{'; '.join(f'({f}, {i}%nat, ' + ('true' if nrm else 'false') + ')' for f, (i, nrm) in assigns.items())}])")
        return red, cin, asg

    def cinit_stmt(self, s, ps, assigns):
        def is_hash(t):
            return isinstance(t, ast.Attribute) and isinstance(t.value, ast.Name) and t.value.id == "self" and t.attr == "_hash"
        if isinstance(s, ast.Assign) and len(s.targets) == 1:
            t = s.targets[0]
            if is_hash(t):
                return
            f = self_field(t)
            if f and isinstance(s.value, ast.Name) and s.value.id in ps:
                assigns[f] = (ps.index(s.value.id), False)
                return
        # CallRef: if isinstance(kwargs, dict): self._kwargs = tuple(kwargs.items()) else: self._kwargs = tuple(kwargs)
        if (isinstance(s, ast.If) and len(s.body) == 1 and len(s.orelse) == 1 and isinstance(s.test, ast.Call)
                and isinstance(s.test.func, ast.Name) and s.test.func.id == "isinstance" and len(s.test.args) == 2
                and isinstance(s.test.args[0], ast.Name) and s.test.args[0].id in ps
                and isinstance(s.test.args[1], ast.Name) and s.test.args[1].id == "dict"):
            p = s.test.args[0].id
            a, b = s.body[0], s.orelse[0]
            if (isinstance(a, ast.Assign) and isinstance(b, ast.Assign) and len(a.targets) == 1 and len(b.targets) == 1
                    and self_field(a.targets[0]) and self_field(a.targets[0]) == self_field(b.targets[0])
                    and ast.dump(a.value) == ast.dump(ast.parse(f"tuple({p}.items())", mode="eval").body)
                    and ast.dump(b.value) == ast.dump(ast.parse(f"tuple({p})", mode="eval").body)):
                assigns[self_field(a.targets[0])] = (ps.index(p), True)
                return
        U(s, "statement of __cinit__ not recognised")

    # ---- output -----------------------------------------------------------------------
    def emit(self):
        dbin, dun, dbuiltin, access = self.base_dunders()
        cbin, cun = self.class_sem()
        inpl = self.inplace()
        deps = self.deps()
        red, cin, asg = self.reduce_cinit()
        special = [coq_string_codes(n) for n in self.special_names()]
        cls = []
        for n in self.refcls:
            mro = "; ".join(f"{self.cid(x)}%N" for x in self.mro(n))
            cls.append(f"{{| ci_id := {self.cid(n)}%N; ci_name := {coq_string_codes(n)}; ci_kind := {self.kind(n)}; ci_mro := [{mro}] |}}"
                       f" (* {n} *)")
        fns = [f"({i}%N, {FN_OBJ[k]})" for k, i in sorted(self.fn_ids.items(), key=lambda kv: kv[1])]

        def lst(xs):
            return "[\n    " + ";\n    ".join(xs) + "\n  ]" if xs else "[]"
        # a comment after the last element of a list is fine in Coq
        cl = "[\n    " + ";\n    ".join(c.split(" (* ")[0] for c in cls) + "\n  ]"
        return ("(* GENERATED by tools/py2v/gen_refs.py from xdeps/refs.py -- do not edit. *)\n"
                "From Coq Require Import List ZArith NArith Bool.\n"
                "From XD Require Import model.RefSyntax model.RefTables.\n"
                "Import ListNotations.\n\n"
                "(* class ids: " + ", ".join(f"{self.cid(n)}={n}" for n in self.refcls) + " *)\n"
                "Definition gen_tables : tables := {|\n"
                f"  t_classes := {cl};\n"
                f"  t_builtin_fns := {lst(fns)};\n"
                f"  t_dunder_bin := {lst(dbin)};\n"
                f"  t_dunder_un := {lst(dun)};\n"
                f"  t_dunder_builtin := {lst(dbuiltin)};\n"
                f"  t_class_bin := {lst(cbin)};\n"
                f"  t_class_un := {lst(cun)};\n"
                f"  t_inplace := {lst(inpl)};\n"
                f"  t_access := {lst(access)};\n"
                f"  t_deps := {lst(deps)};\n"
                f"  t_reduce := {lst(red)};\n"
                f"  t_cinit := {lst(cin)};\n"
                f"  t_cinit_assign := {lst(asg)};\n"
                f"  t_special_names := {lst(special)}\n"
                "|}.\n")


def self_is(e, attr):
    return isinstance(e, ast.Attribute) and isinstance(e.value, ast.Name) and e.value.id == "self" and e.attr == attr


def main():
    try:
        text = Tr().emit()
    except Unrecognised as e:
        fail(f"gen_refs: {e}")
    except SyntaxError as e:
        fail(f"gen_refs: refs.py does not parse: {e}")
    write_if_changed("GenRefs.v", text)


if __name__ == "__main__":
    main()
