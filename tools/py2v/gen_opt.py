#!/venv/bin/python
"""py2v translator for C16: xdeps/optimize/optimize.py and
xdeps/optimize/matrixutils.py -> coq/gen/GenOpt.v (types in coq/model/OptExpr.v).

Emits, as expression ASTs:
  x_to_knobs, knobs_to_x        the element update of _x_to_knobs / _knobs_to_x
  scaled_to_native, scaled_from_native
  fd                            the forward-difference lines of MeritFunctionForMatch.get_jacobian
  view_jac, view_call           MeritFuctionView.get_jacobian (chain rule, scalar) and __call__
  lstsq                         SVD.lstsq: defaults, slicing, masking rules, the product formula

Fail closed: any statement outside the recognised shapes exits 1.  --json
prints the same data as JSON."""
import ast, sys, os, json
sys.path.insert(0, os.path.dirname(os.path.abspath(__file__)))
from refs_common import parse, classes, methods, strip_doc, write_if_changed, fail, Unrecognised


def U(msg, node=None):
    where = f" (line {node.lineno})" if node is not None and hasattr(node, "lineno") else ""
    raise Unrecognised(msg + where)


def up(n):
    return ast.unparse(n)


BIN = {ast.Add: "add", ast.Sub: "sub", ast.Mult: "mul", ast.Div: "div"}


def aexpr(node, names, what):
    """element-wise arithmetic; `names` maps source text of a leaf -> variable name, or a callable"""
    src = up(node)
    if src in names:
        return ["var", names[src]]
    if isinstance(node, ast.Constant) and isinstance(node.value, (int, float)) and not isinstance(node.value, bool):
        if float(node.value) != int(node.value):
            U(f"{what}: non-integral literal {src}", node)
        return ["num", int(node.value)]
    if isinstance(node, ast.BinOp) and type(node.op) in BIN:
        return [BIN[type(node.op)], aexpr(node.left, names, what), aexpr(node.right, names, what)]
    if (isinstance(node, ast.Call) and isinstance(node.func, ast.Attribute) and up(node.func.value) == "self"
            and len(node.args) == 1 and not node.keywords):
        return ["app", node.func.attr, aexpr(node.args[0], names, what)]
    if (isinstance(node, ast.Subscript) and isinstance(node.value, ast.Name) and isinstance(node.slice, ast.Constant)
            and node.slice.value == 0 and node.value.id in names.values()):
        return ["first", node.value.id]
    if (isinstance(node, ast.Call) and up(node.func) == "np.dot" and len(node.args) == 2 and not node.keywords
            and all(isinstance(a, ast.Name) for a in node.args)):
        return ["dot", node.args[0].id, node.args[1].id]
    U(f"{what}: expression {src!r} not recognised", node)


def subst(e, env):
    if e[0] == "var" and e[1] in env:
        return env[e[1]]
    if e[0] in ("add", "sub", "mul", "div"):
        return [e[0], subst(e[1], env), subst(e[2], env)]
    if e[0] == "app":
        return ["app", e[1], subst(e[2], env)]
    return e


# ------------------------------------------------------------------ weights
def weight_fn(fn):
    body = strip_doc(fn.body)
    params = [a.arg for a in fn.args.args][1:]
    if len(params) != 1 or len(body) != 3:
        U(f"{fn.name}: shape", fn)
    a0, loop, ret = body
    if not (isinstance(a0, ast.Assign) and len(a0.targets) == 1 and isinstance(a0.targets[0], ast.Name)):
        U(f"{fn.name}: first statement", a0)
    arr = a0.targets[0].id
    v = a0.value
    ok = (isinstance(v, ast.Call) and isinstance(v.func, ast.Attribute) and v.func.attr == "copy" and not v.args
          and isinstance(v.func.value, ast.Call) and up(v.func.value.func) == "np.array"
          and len(v.func.value.args) == 1 and up(v.func.value.args[0]) == params[0]
          and all(k.arg == "dtype" and up(k.value) in ("np.float64", "float") for k in v.func.value.keywords))
    if not ok:
        U(f"{fn.name}: the array is not a copy of the argument", a0)
    if not (isinstance(loop, ast.For) and up(loop.target) == "(ii, vv)" and up(loop.iter) == "enumerate(self.vary)"
            and not loop.orelse and len(loop.body) == 1 and isinstance(loop.body[0], ast.If)):
        U(f"{fn.name}: loop shape", loop)
    cond = loop.body[0]
    t = cond.test
    if not (isinstance(t, ast.Compare) and len(t.ops) == 1 and isinstance(t.ops[0], ast.IsNot)
            and isinstance(t.left, ast.Attribute) and up(t.left.value) == "vv"
            and isinstance(t.comparators[0], ast.Constant) and t.comparators[0].value is None
            and not cond.orelse and len(cond.body) == 1 and isinstance(cond.body[0], ast.AugAssign)):
        U(f"{fn.name}: guard shape", cond)
    field = t.left.attr
    au = cond.body[0]
    if up(au.target) != f"{arr}[ii]" or up(au.value) != f"vv.{field}" or type(au.op) not in BIN:
        U(f"{fn.name}: update {up(au)!r}", au)
    if not (isinstance(ret, ast.Return) and up(ret.value) == arr):
        U(f"{fn.name}: return", ret)
    return {"source": params[0], "update": [BIN[type(au.op)], ["var", "elem"], ["var", field]], "guard": field}


# ------------------------------------------------------------------ rescaling
def scaled_fn(fn):
    body = strip_doc(fn.body)
    src = [up(s) for s in body]
    if len(body) != 5 or src[0] != "bounds = self.merit_function._get_x_limits()" \
            or src[1] != "self._check_for_scalability(bounds)" or src[2] != "scaled_range = self.rescale_x":
        U(f"{fn.name}: preamble", fn)
    params = [a.arg for a in fn.args.args][1:]
    if params != ["x"]:
        U(f"{fn.name}: parameters", fn)
    a = body[3]
    if not (isinstance(a, ast.Assign) and len(a.targets) == 1 and isinstance(a.targets[0], ast.Name)
            and isinstance(body[4], ast.Return) and up(body[4].value) == a.targets[0].id):
        U(f"{fn.name}: body", a)
    names = {"x": "x", "bounds[:, 0]": "lo", "bounds[:, 1]": "hi", "scaled_range[0]": "s0", "scaled_range[1]": "s1"}
    return aexpr(a.value, names, fn.name)


# ------------------------------------------------------------------ MeritFunctionForMatch.get_jacobian
def fd_fn(fn):
    body = strip_doc(fn.body)
    src = [up(s) for s in body]
    want_head = ["if hasattr(self, '_force_jacobian'):\n    return self._force_jacobian",
                 "x = np.array(x).copy()",
                 "steps = self._knobs_to_x(self.steps_for_jacobian)",
                 "assert len(x) == len(steps)",
                 "if f0 is None:\n    f0 = self(x)",
                 "if np.isscalar(f0):\n    jac = np.zeros((1, len(x)))\nelse:\n    jac = np.zeros((len(f0), len(x)))",
                 "mask_input = self.mask_input"]
    if src[:7] != want_head or len(body) != 10 or src[8:] != ["self._last_jac = jac", "return jac"]:
        U("MeritFunctionForMatch.get_jacobian: statements outside the loop changed", fn)
    loop = body[7]
    if not (isinstance(loop, ast.For) and up(loop.target) == "ii" and up(loop.iter) == "range(len(x))" and not loop.orelse
            and len(loop.body) == 4 and up(loop.body[0]) == "if not mask_input[ii]:\n    continue"):
        U("MeritFunctionForMatch.get_jacobian: loop shape", loop)
    p, c, r = loop.body[1:]
    names = {"x[ii]": "x", "steps[ii]": "steps", "f0": "f0", "self(x, check_limits=False)": "f(x)"}

    def aug(st, what):
        if not (isinstance(st, ast.AugAssign) and up(st.target) == "x[ii]" and type(st.op) in BIN):
            U(f"get_jacobian: {what} {up(st)!r}", st)
        return [BIN[type(st.op)], ["var", "x"], aexpr(st.value, names, what)]
    if not (isinstance(c, ast.Assign) and up(c.targets[0]) == "jac[:, ii]"):
        U(f"get_jacobian: column assignment {up(c)!r}", c)
    steps = aexpr(body[2].value, {"self.steps_for_jacobian": "steps_for_jacobian"}, "steps")
    return {"steps": steps, "perturb": aug(p, "perturbation"), "column": aexpr(c.value, names, "column"),
            "restore": aug(r, "restore"), "skip_inactive": True}


# ------------------------------------------------------------------ MeritFuctionView
def view_call_fn(fn):
    body = strip_doc(fn.body)
    src = [up(s) for s in body]
    if len(body) != 3 or src[0] != "x = np.array(x)":
        U("MeritFuctionView.__call__: shape", fn)
    pre = prescale(body[1])
    r = body[2]
    if not (isinstance(r, ast.Return) and isinstance(r.value, ast.Call) and up(r.value.func) == "self.merit_function"
            and [up(a) for a in r.value.args] == ["x"]):
        U("MeritFuctionView.__call__: return", r)
    kws = []
    for k in r.value.keywords:
        if up(k.value) != f"self.{k.arg}":
            U(f"MeritFuctionView.__call__: keyword {k.arg}", r)
        kws.append(k.arg)
    return {"prescale": pre, "kwargs": kws}


def prescale(st):
    if not (isinstance(st, ast.If) and up(st.test) == "self.rescale_x" and not st.orelse and len(st.body) == 1
            and isinstance(st.body[0], ast.Assign) and up(st.body[0].targets[0]) == "x"
            and isinstance(st.body[0].value, ast.Call) and isinstance(st.body[0].value.func, ast.Attribute)
            and up(st.body[0].value.func.value) == "self" and [up(a) for a in st.body[0].value.args] == ["x"]):
        U("rescale_x pre-scaling shape", st)
    return st.body[0].value.func.attr


def view_jac_fn(fn):
    body = strip_doc(fn.body)
    if len(body) != 5 or up(body[0]) != "x = np.array(x)":
        U("MeritFuctionView.get_jacobian: shape", fn)
    pre = prescale(body[1])
    nat = body[2]
    if not (isinstance(nat, ast.Assign) and up(nat.targets[0]) == "jac_native" and isinstance(nat.value, ast.Call)
            and isinstance(nat.value.func, ast.Attribute) and up(nat.value.func.value) == "self.merit_function"
            and [up(a) for a in nat.value.args] == ["x"] and not nat.value.keywords):
        U("MeritFuctionView.get_jacobian: native Jacobian", nat)
    sc = body[3]
    if not (isinstance(sc, ast.If) and up(sc.test) == "self.rescale_x" and [up(s) for s in sc.orelse] == ["jac = jac_native"]
            and len(sc.body) == 5):
        U("MeritFuctionView.get_jacobian: rescale branch", sc)
    env = {}
    for st in sc.body[:3]:
        if not (isinstance(st, ast.Assign) and len(st.targets) == 1 and isinstance(st.targets[0], ast.Name)):
            U("MeritFuctionView.get_jacobian: rescale branch statement", st)
        names = {"x": "x"}
        names.update({k: k for k in env})
        env[st.targets[0].id] = subst(aexpr(st.value, names, "chain rule"), env)
    if list(env)[-1] != "dx_native_dx_scaled":
        U("MeritFuctionView.get_jacobian: dx_native_dx_scaled not found", sc)
    if up(sc.body[3]) != "jac = jac_native.copy()":
        U("MeritFuctionView.get_jacobian: jac copy", sc.body[3])
    loop = sc.body[4]
    if not (isinstance(loop, ast.For) and up(loop.target) == "jj" and up(loop.iter) == "range(jac_native.shape[1])"
            and len(loop.body) == 1 and isinstance(loop.body[0], ast.AugAssign) and up(loop.body[0].target) == "jac[:, jj]"
            and type(loop.body[0].op) in BIN and not loop.orelse):
        U("MeritFuctionView.get_jacobian: scaling loop", loop)
    col = [BIN[type(loop.body[0].op)], ["var", "jac_native"],
           aexpr(loop.body[0].value, {"dx_native_dx_scaled[jj]": "dx_native_dx_scaled"}, "scaling")]
    fin = body[4]
    if not (isinstance(fin, ast.If) and up(fin.test) == "self.return_scalar" and [up(s) for s in fin.orelse] == ["return jac"]
            and len(fin.body) == 2 and isinstance(fin.body[0], ast.Assign) and up(fin.body[0].targets[0]) == "f0"
            and isinstance(fin.body[1], ast.Return)):
        U("MeritFuctionView.get_jacobian: scalar branch", fin)
    f0 = fin.body[0].value
    if not (isinstance(f0, ast.Call) and up(f0.func) == "self.merit_function" and [up(a) for a in f0.args] == ["x"]):
        U("MeritFuctionView.get_jacobian: f0", fin.body[0])
    kws = []
    for k in f0.keywords:
        if up(k.value) != f"self.{k.arg}":
            U(f"MeritFuctionView.get_jacobian: f0 keyword {k.arg}", f0)
        kws.append(k.arg)
    scalar = aexpr(fin.body[1].value, {}, "scalar Jacobian")
    return {"prescale": pre, "native": nat.value.func.attr, "dxdx": env["dx_native_dx_scaled"], "scaled_column": col,
            "scalar": scalar, "f0_kwargs": kws}


# ------------------------------------------------------------------ SVD.lstsq
CMP = {ast.Lt: "lt", ast.LtE: "le", ast.Gt: "gt", ast.GtE: "ge"}


def mexpr(node):
    if isinstance(node, ast.Name):
        return ["v", node.id]
    if isinstance(node, ast.Attribute) and node.attr == "T":
        return ["tr", mexpr(node.value)]
    if isinstance(node, ast.BinOp) and isinstance(node.op, ast.MatMult):
        return ["mat", mexpr(node.left), mexpr(node.right)]
    if isinstance(node, ast.Call) and up(node.func) == "np.diag" and len(node.args) == 1 and not node.keywords:
        return ["diag", mexpr(node.args[0])]
    U(f"lstsq formula: {up(node)!r} not recognised", node)


def mask_assign(st, guard):
    if not (isinstance(st, ast.Assign) and len(st.targets) == 1 and isinstance(st.targets[0], ast.Subscript)
            and isinstance(st.targets[0].value, ast.Name) and isinstance(st.targets[0].slice, ast.Compare)
            and len(st.targets[0].slice.ops) == 1 and type(st.targets[0].slice.ops[0]) in CMP):
        U(f"lstsq: masked assignment {up(st)!r}", st)
    cmpn = st.targets[0].slice
    names = {"s": "s", "rcond": "rcond"}
    lhs = aexpr(cmpn.left, names, "mask")
    rhs = aexpr(cmpn.comparators[0], names, "mask")
    # the value may index with the same mask: s[<mask>] stands for the element
    msrc = up(cmpn)
    val = aexpr(st.value, {f"s[{msrc}]": "s", "rcond": "rcond"}, "masked value")
    return {"target": st.targets[0].value.id, "lhs": lhs, "op": CMP[type(cmpn.ops[0])], "rhs": rhs, "value": val, "guard": guard}


def lstsq_fn(fn):
    body = strip_doc(fn.body)
    params = [a.arg for a in fn.args.args][1:]
    if params != ["b", "rcond", "sing_val_cutoff"] or [up(d) for d in fn.args.defaults] != ["None", "None"]:
        U("SVD.lstsq: parameters", fn)
    i = 0
    if up(body[i]) != "if self.empty:\n    return np.array([])":
        U("SVD.lstsq: empty case", body[i])
    i += 1
    defaults = []
    while isinstance(body[i], ast.If) and up(body[i].test).endswith(" is None"):
        st = body[i]
        name = up(st.test)[:-len(" is None")]
        if not (len(st.body) == 1 and not st.orelse and isinstance(st.body[0], ast.Assign) and up(st.body[0].targets[0]) == name
                and isinstance(st.body[0].value, ast.Attribute) and up(st.body[0].value.value) == "self"):
            U("SVD.lstsq: default", st)
        defaults.append([name, st.body[0].value.attr])
        i += 1
    slices = []
    while isinstance(body[i], ast.Assign) and isinstance(body[i].value, ast.Subscript) and up(body[i].value.value).startswith("self."):
        st = body[i]
        sl = st.value.slice
        parts = sl.elts if isinstance(sl, ast.Tuple) else [sl]
        axis, stop = None, None
        for k, p in enumerate(parts):
            if not isinstance(p, ast.Slice) or p.lower is not None or p.step is not None:
                U(f"SVD.lstsq: slice {up(st)!r}", st)
            if p.upper is not None:
                if axis is not None or not isinstance(p.upper, ast.Name):
                    U(f"SVD.lstsq: slice bound {up(st)!r}", st)
                axis, stop = k, p.upper.id
        if axis is None:
            U(f"SVD.lstsq: slice without bound {up(st)!r}", st)
        slices.append([up(st.targets[0]), st.value.value.attr, axis, stop])
        i += 1
    if up(body[i]) != "s_inv = np.zeros_like(s)":
        U("SVD.lstsq: s_inv initialisation", body[i])
    i += 1
    masks = []
    while i < len(body) and not (isinstance(body[i], ast.Assign) and isinstance(body[i].value, ast.BinOp)
                                 and isinstance(body[i].value.op, ast.MatMult)):
        st = body[i]
        if isinstance(st, ast.If):
            t = up(st.test)
            if not (t.endswith(" is not None") and not st.orelse and len(st.body) == 1):
                U("SVD.lstsq: guarded mask", st)
            masks.append(mask_assign(st.body[0], t[:-len(" is not None")]))
        else:
            masks.append(mask_assign(st, None))
        i += 1
    if i + 2 != len(body):
        U("SVD.lstsq: tail", fn)
    st = body[i]
    if not (isinstance(st.targets[0], ast.Name) and isinstance(body[i + 1], ast.Return) and up(body[i + 1].value) == st.targets[0].id):
        U("SVD.lstsq: result", st)
    return {"defaults": defaults, "slices": slices, "init": ["s_inv", "zeros_like(s)"], "masks": masks,
            "result": st.targets[0].id, "formula": mexpr(st.value)}


def svd_init(fn):
    """SVD.__init__: the decomposition comes from numpy.linalg.svd(matrix, full_matrices=False)"""
    src = [up(s) for s in ast.walk(fn) if isinstance(s, ast.Assign)]
    if "self.U, self.s, self.Vh = np.linalg.svd(matrix, full_matrices=False)" not in src:
        U("SVD.__init__: the factors are not numpy.linalg.svd(matrix, full_matrices=False)", fn)
    return True


# ------------------------------------------------------------------ per-call arguments of the Newton step
def classify_arg(node, params):
    if isinstance(node, ast.Name):
        return ["param", node.id] if node.id in params else ["local", node.id]
    if isinstance(node, ast.Attribute) and up(node.value) == "self":
        return ["self", node.attr]
    return ["other", up(node)]


def the_call(fn, pred, what):
    calls = [n for n in ast.walk(fn) if isinstance(n, ast.Call) and pred(n)]
    if len(calls) != 1:
        U(f"{what}: expected exactly one such call, found {len(calls)}", fn)
    return calls[0]


def step_code(solver_cls, opt_cls):
    sm, om = methods(solver_cls), methods(opt_cls)
    for need, ms, cn in (("step", sm, "JacobianSolver"), ("step", om, "Optimize"), ("solve", om, "Optimize")):
        if need not in ms:
            U(f"{cn}.{need} not found")
    st = sm["step"]
    params = [a.arg for a in st.args.args][1:]
    if st.args.vararg or st.args.kwarg or st.args.kwonlyargs:
        U("JacobianSolver.step: parameter list shape", st)
    call = the_call(st, lambda n: isinstance(n.func, ast.Attribute) and n.func.attr == "lstsq", "JacobianSolver.step: lstsq call")
    if len(call.args) != 1 or up(call.func.value) != "jac_svd":
        U("JacobianSolver.step: lstsq call shape", call)
    lst_kw = [[k.arg, classify_arg(k.value, params)] for k in call.keywords]
    # the decomposition is a fresh SVD of the masked Jacobian with default settings
    src = [up(n) for n in ast.walk(st) if isinstance(n, ast.Assign)]
    if "jac_svd = SVD(jac[mask_output, :][:, mask_input])" not in src:
        U("JacobianSolver.step: jac_svd is not SVD(jac[mask_output, :][:, mask_input])", st)
    rebound = set()
    for n in ast.walk(st):
        tg = []
        if isinstance(n, ast.Assign):
            tg = n.targets
        elif isinstance(n, (ast.AugAssign, ast.AnnAssign, ast.For)):
            tg = [n.target]
        elif isinstance(n, ast.NamedExpr):
            tg = [n.target]
        for t in tg:
            for x in ast.walk(t):
                if isinstance(x, ast.Name) and x.id in params:
                    rebound.add(x.id)
    kwnames = {k for k, _ in lst_kw} | set(params)
    stores = set()
    for n in ast.walk(solver_cls):
        tg = n.targets if isinstance(n, ast.Assign) else [n.target] if isinstance(n, (ast.AugAssign, ast.AnnAssign)) else []
        for t in tg:
            for x in ast.walk(t):
                if isinstance(x, ast.Attribute) and up(x.value) == "self" and x.attr in kwnames:
                    stores.add(x.attr)
        if isinstance(n, ast.Call) and up(n.func) == "setattr":
            U("JacobianSolver uses setattr", n)
    want = ["dx = self.x - self._last_jac_x", "dy = y - self._last_y",
            "jac = self._last_jac + np.outer(dy - np.dot(self._last_jac, dx), dx) / np.dot(dx, dx)",
            "jac = myf.get_jacobian(self.x, f0=y)", "self._last_jac_x = self.x.copy()", "self._last_jac = jac.copy()",
            "self._last_y = y.copy()"]
    broyden_ok = all(w in src for w in want) and \
        any(isinstance(n, ast.If) and up(n.test) == "broyden and hasattr(self, '_last_jac')" for n in ast.walk(st))
    ostep, osolve = om["step"], om["solve"]
    c1 = the_call(ostep, lambda n: up(n.func) == "self.solver.step", "Optimize.step: solver.step call")
    c2 = the_call(osolve, lambda n: up(n.func) == "self.step", "Optimize.solve: step call")
    p1 = [a.arg for a in ostep.args.args][1:]
    p2 = [a.arg for a in osolve.args.args][1:]
    if c1.args:
        U("Optimize.step: positional arguments to solver.step", c1)
    return {"lstsq_kwargs": lst_kw, "params": params, "rebound": sorted(rebound), "self_stores": sorted(stores),
            "optimize_step_kwargs": [[k.arg, classify_arg(k.value, p1)] for k in c1.keywords],
            "solve_kwargs": [[k.arg, classify_arg(k.value, p2)] for k in c2.keywords if k.arg in ("rcond", "sing_val_cutoff", "broyden")],
            "broyden_update": bool(broyden_ok)}


def extract():
    t = parse("xdeps/optimize/optimize.py")
    cls = {name: c for _, name, _, c in classes(t)}
    for need in ("MeritFunctionForMatch", "MeritFuctionView"):
        if need not in cls:
            U(f"class {need} not found")
    mf, mv = methods(cls["MeritFunctionForMatch"]), methods(cls["MeritFuctionView"])
    for need in ("_x_to_knobs", "_knobs_to_x", "get_jacobian"):
        if need not in mf:
            U(f"MeritFunctionForMatch.{need} not found")
    for need in ("_scaled_to_native", "_scaled_from_native", "get_jacobian", "__call__"):
        if need not in mv:
            U(f"MeritFuctionView.{need} not found")
    t2 = parse("xdeps/optimize/matrixutils.py")
    cls2 = {name: c for _, name, _, c in classes(t2)}
    if "SVD" not in cls2:
        U("class SVD not found")
    ms = methods(cls2["SVD"])
    svd_init(ms["__init__"])
    t3 = parse("xdeps/optimize/jacobian.py")
    cls3 = {name: c for _, name, _, c in classes(t3)}
    if "JacobianSolver" not in cls3 or "Optimize" not in cls:
        U("class JacobianSolver / Optimize not found")
    return {"step": step_code(cls3["JacobianSolver"], cls["Optimize"]),
            "x_to_knobs": weight_fn(mf["_x_to_knobs"]), "knobs_to_x": weight_fn(mf["_knobs_to_x"]),
            "scaled_to_native": scaled_fn(mv["_scaled_to_native"]), "scaled_from_native": scaled_fn(mv["_scaled_from_native"]),
            "fd": fd_fn(mf["get_jacobian"]), "view_jac": view_jac_fn(mv["get_jacobian"]), "view_call": view_call_fn(mv["__call__"]),
            "lstsq": lstsq_fn(ms["lstsq"])}


# ------------------------------------------------------------------ Coq emission
def cs(s):
    return '"' + s.replace('"', '""') + '"'


def ca(e):
    k = e[0]
    if k == "var":
        return f"(AVar {cs(e[1])})"
    if k == "num":
        return f"(ANum ({e[1]})%Z)"
    if k == "first":
        return f"(AFirst {cs(e[1])})"
    if k in ("add", "sub", "mul", "div"):
        return "(" + {"add": "AAdd", "sub": "ASub", "mul": "AMul", "div": "ADiv"}[k] + f" {ca(e[1])} {ca(e[2])})"
    if k == "app":
        return f"(AApp {cs(e[1])} {ca(e[2])})"
    if k == "dot":
        return f"(ADot {cs(e[1])} {cs(e[2])})"
    raise Unrecognised(str(e))


def cm(e):
    k = e[0]
    if k == "v":
        return f"(MV {cs(e[1])})"
    if k == "tr":
        return f"(MTr {cm(e[1])})"
    if k == "diag":
        return f"(MDiag {cm(e[1])})"
    return f"(MMat {cm(e[1])} {cm(e[2])})"


def clist(xs):
    return "[" + "; ".join(xs) + "]"


def emit(d):
    o = ["(* GENERATED by tools/py2v/gen_opt.py from xdeps/optimize/optimize.py and matrixutils.py - do not edit *)",
         "From Coq Require Import String List ZArith.", "From XD Require Import model.OptExpr.", "Import ListNotations.",
         "Open Scope string_scope.", ""]
    for k in ("x_to_knobs", "knobs_to_x"):
        w = d[k]
        o.append(f"Definition {k}_code : weight_code := mk_weight {cs(w['source'])} {ca(w['update'])} {cs(w['guard'])}.")
    o.append(f"Definition scaled_to_native_expr : aexpr :=\n  {ca(d['scaled_to_native'])}.")
    o.append(f"Definition scaled_from_native_expr : aexpr :=\n  {ca(d['scaled_from_native'])}.")
    f = d["fd"]
    o.append(f"Definition fd : fd_code :=\n  mk_fd {ca(f['steps'])} {ca(f['perturb'])}\n        {ca(f['column'])} {ca(f['restore'])} {'true' if f['skip_inactive'] else 'false'}.")
    v = d["view_jac"]
    o.append(f"Definition view_jac : view_jac_code :=\n  mk_vj {cs(v['prescale'])} {cs(v['native'])}\n        {ca(v['dxdx'])}\n        {ca(v['scaled_column'])}\n        {ca(v['scalar'])} {clist([cs(x) for x in v['f0_kwargs']])}.")
    c = d["view_call"]
    o.append(f"Definition view_call : view_call_code := mk_vc {cs(c['prescale'])} {clist([cs(x) for x in c['kwargs']])}.")
    q = d["lstsq"]
    masks = [f"mk_mask {cs(m['target'])} {ca(m['lhs'])} {'C' + m['op'].capitalize()} {ca(m['rhs'])} {ca(m['value'])} "
             + ("None" if m["guard"] is None else f"(Some {cs(m['guard'])})") for m in q["masks"]]
    o.append("Definition lstsq : lstsq_code :=\n  mk_lstsq " + clist([f"({cs(a)}, {cs(b)})" for a, b in q["defaults"]]) + "\n    "
             + clist([f"mk_slice {cs(a)} {cs(b)} {c_} {cs(e)}" for a, b, c_, e in q["slices"]]) + "\n    "
             + f"({cs(q['init'][0])}, {cs(q['init'][1])})\n    " + clist(masks).replace("; mk_mask", ";\n     mk_mask") + "\n    "
             + f"{cs(q['result'])}\n    {cm(q['formula'])}.")
    sc = d["step"]

    def cargs(l):
        return clist([f"({cs(k)}, " + {"param": "ArgParam", "local": "ArgLocal", "self": "ArgSelf", "other": "ArgOther"}[v[0]] + f" {cs(v[1])})" for k, v in l])
    o.append("Definition step_args : step_code :=\n  mk_step " + cargs(sc["lstsq_kwargs"]) + "\n    " + clist([cs(x) for x in sc["params"]]) + " "
             + clist([cs(x) for x in sc["rebound"]]) + " " + clist([cs(x) for x in sc["self_stores"]]) + "\n    "
             + cargs(sc["optimize_step_kwargs"]) + "\n    " + cargs(sc["solve_kwargs"]) + " " + ("true" if sc["broyden_update"] else "false") + ".")
    return "\n".join(o) + "\n"


def main():
    try:
        d = extract()
        if "--json" in sys.argv:
            json.dump(d, sys.stdout, indent=1)
            return
        write_if_changed("GenOpt.v", emit(d))
    except Unrecognised as e:
        if "--json" not in sys.argv:
            # never leave the tables of another tree behind: the development must not build against stale data
            msg = str(e).replace("*)", "* )").replace("(*", "( *")
            write_if_changed("GenOpt.v", "(* tools/py2v translator FAILED on the current source: " + msg + " *)\n"
                             "Definition translator_failed_no_tables : bool := true.\n")
        fail("gen_opt: " + str(e))


if __name__ == "__main__":
    main()
