#!/usr/bin/env python3
"""Translator: the bookkeeping methods of xdeps/tasks.py (Manager.register, unregister,
freeze_tree, unfreeze_tree, find_taskids) and RefCount (xdeps/refs.py)  ->  coq/gen/GenTasks.v.

Every statement of those methods is matched against a closed list of forms and rewritten
into a term over the combinators of coq/model/TasksSem.v; anything else makes the
translator FAIL (exit 1, nothing written), so a source the translator does not understand
can never be mistaken for the modelled one.  coq/proofs/TasksSrc.v then proves that each
translated method IS the function of the hand-written model (model/Manager.v); a change of
the source changes the generated term and the proof no longer goes through.

Not translated (kept by the correspondence check only): docstrings and logger calls are
skipped (assumed free of effects on the manager), the `start_deps is None` default of
find_taskids, sorting.toposort itself, set_value / run_tasks (data layer)."""
import ast, os, sys

REPO = os.environ.get("VERIF_REPO", "/repo")
VERIF = os.path.dirname(os.path.dirname(os.path.dirname(os.path.abspath(__file__))))
OUT = os.path.join(VERIF, "coq", "gen", "GenTasks.v")

IX = {"rdeps": "IRdeps", "rtasks": "IRtasks", "deptasks": "IDeptasks", "tartasks": "ITartasks"}


class Unsupported(Exception):
    pass


def fail(node, why):
    raise Unsupported(f"line {getattr(node, 'lineno', '?')}: {why}: {ast.unparse(node)[:120]}")


def is_self_attr(e, name=None):
    return isinstance(e, ast.Attribute) and isinstance(e.value, ast.Name) and e.value.id == "self" and (name is None or e.attr == name)


def is_docstring_or_log(s):
    if isinstance(s, ast.Expr) and isinstance(s.value, ast.Constant) and isinstance(s.value.value, str):
        return True
    if isinstance(s, ast.Expr) and isinstance(s.value, ast.Call) and isinstance(s.value.func, ast.Attribute) \
            and isinstance(s.value.func.value, ast.Name) and s.value.func.value.id == "logger":
        return True
    return False


# ------------------------------------------------------------------ RefCount methods
def rc_expr(e, env):
    if isinstance(e, ast.Constant) and isinstance(e.value, int) and not isinstance(e.value, bool) and e.value >= 0:
        return str(e.value)
    if isinstance(e, ast.Name) and env.get(e.id) == "nat":
        return e.id
    if isinstance(e, ast.BinOp) and isinstance(e.op, (ast.Add, ast.Sub)):
        return f"({rc_expr(e.left, env)} {'+' if isinstance(e.op, ast.Add) else '-'} {rc_expr(e.right, env)})"
    if isinstance(e, ast.Call) and is_self_attr(e.func, "get") and len(e.args) == 2 and not e.keywords:
        return f"(match aget eqb {rc_key(e.args[0], env)} self with Some v => v | None => {rc_expr(e.args[1], env)} end)"
    fail(e, "RefCount expression form not supported")


def rc_key(e, env):
    if isinstance(e, ast.Name) and env.get(e.id) == "key":
        return e.id
    fail(e, "key expression not supported")


def is_self_item(e):
    return isinstance(e, ast.Subscript) and isinstance(e.value, ast.Name) and e.value.id == "self"


def rc_block(stmts, env, methods):
    """-> Gallina term of type res refcount; the state variable is called self"""
    stmts = [s for s in stmts if not is_docstring_or_log(s)]
    if not stmts:
        return "Ok self"
    s, rest = stmts[0], stmts[1:]
    if isinstance(s, ast.Assign) and len(s.targets) == 1 and is_self_item(s.targets[0]):
        return f"let self := aset eqb {rc_key(s.targets[0].slice, env)} {rc_expr(s.value, env)} self in\n  {rc_block(rest, env, methods)}"
    if isinstance(s, ast.Assign) and len(s.targets) == 1 and isinstance(s.targets[0], ast.Name) and is_self_item(s.value):
        n = s.targets[0].id
        return (f"match aget eqb {rc_key(s.value.slice, env)} self with\n  | None => Err EKey\n  | Some {n} =>\n  "
                f"{rc_block(rest, dict(env, **{n: 'nat'}), methods)}\n  end")
    if isinstance(s, ast.Delete) and len(s.targets) == 1 and is_self_item(s.targets[0]):
        k = rc_key(s.targets[0].slice, env)
        return f"match aget eqb {k} self with\n  | None => Err EKey\n  | Some _ => let self := adrop eqb {k} self in {rc_block(rest, env, methods)}\n  end"
    if isinstance(s, ast.If) and isinstance(s.test, ast.Compare) and len(s.test.ops) == 1 and isinstance(s.test.ops[0], ast.Gt):
        a, b = rc_expr(s.test.left, env), rc_expr(s.test.comparators[0], env)
        return (f"if {b} <? {a} then\n  {rc_block(list(s.body) + rest, env, methods)}\n  else\n  {rc_block(list(s.orelse) + rest, env, methods)}")
    if isinstance(s, ast.For) and isinstance(s.target, ast.Name) and isinstance(s.iter, ast.Name) and env.get(s.iter.id) == "keys" \
            and not s.orelse and len(s.body) == 1 and isinstance(s.body[0], ast.Expr) and isinstance(s.body[0].value, ast.Call) \
            and is_self_attr(s.body[0].value.func) and s.body[0].value.func.attr in methods \
            and len(s.body[0].value.args) == 1 and isinstance(s.body[0].value.args[0], ast.Name) and s.body[0].value.args[0].id == s.target.id:
        call = f"rc_for {s.iter.id} (fun {s.target.id} => src_rc_{s.body[0].value.func.attr} {s.target.id}) self"
        if not rest:
            return call
        return f"match {call} with\n  | Err e => Err e\n  | Ok self => {rc_block(rest, env, methods)}\n  end"
    fail(s, "RefCount statement form not supported")


def gen_refcount(tree):
    cls = next((n for n in tree.body if isinstance(n, ast.ClassDef) and n.name == "RefCount"), None)
    if cls is None:
        raise Unsupported("class RefCount not found in refs.py")
    if [ast.unparse(b) for b in cls.bases] != ["dict"]:
        raise Unsupported("RefCount is no longer a plain dict subclass")
    meths = {f.name: f for f in cls.body if isinstance(f, ast.FunctionDef)}
    extra = [ast.unparse(n)[:60] for n in cls.body if not isinstance(n, ast.FunctionDef) and not is_docstring_or_log(n)]
    if sorted(meths) != ["append", "extend", "remove"] or extra:
        raise Unsupported(f"RefCount members changed: {sorted(meths)} {extra}")
    out = []
    for name, argkind in (("append", "key"), ("extend", "keys"), ("remove", "key")):
        f = meths[name]
        args = [a.arg for a in f.args.args]
        if len(args) != 2 or args[0] != "self" or f.args.vararg or f.args.kwarg or f.args.defaults or f.decorator_list:
            fail(f, "RefCount method signature changed")
        ty = "K" if argkind == "key" else "list K"
        body = rc_block(f.body, {args[1]: argkind}, ["append"] if name == "extend" else [])
        out.append(f"Definition src_rc_{name} ({args[1]} : {ty}) : @RC K := fun self =>\n  {body}.\n")
    return "\n".join(out)


# ------------------------------------------------------------------ Manager methods
def ix_of(e):
    """self.<index>  ->  constructor name"""
    if is_self_attr(e) and e.attr in IX:
        return IX[e.attr]
    return None


def entry_of(e, env):
    """self.I[k] -> (I, k)"""
    if isinstance(e, ast.Subscript) and ix_of(e.value):
        return ix_of(e.value), key_expr(e.slice, env)
    return None


def key_expr(e, env):
    if isinstance(e, ast.Name) and env.get(e.id) == "key":
        return e.id
    fail(e, "key expression not supported")


def keys_expr(e, env):
    """task.targets / task.dependencies"""
    if isinstance(e, ast.Attribute) and isinstance(e.value, ast.Name) and env.get(e.value.id) == "task":
        if e.attr == "targets":
            return f"(t_targets {e.value.id})"
        if e.attr == "dependencies":
            return f"(t_deps {e.value.id})"
    fail(e, "key-set expression not supported")


def mentions_index(nodes, ixname):
    attr = [k for k, v in IX.items() if v == ixname][0]
    for n in nodes:
        for x in ast.walk(n):
            if is_self_attr(x, attr):
                return True
    return False


def m_block(stmts, env):
    """-> Gallina term of type M"""
    stmts = [s for s in stmts if not is_docstring_or_log(s)]
    if not stmts:
        return "ret"
    s, rest = stmts[0], stmts[1:]

    def then(term):
        return term if not rest else f"seq ({term})\n  ({m_block(rest, env)})"

    # if self._tree_frozen: raise ValueError(...)
    if isinstance(s, ast.If) and is_self_attr(s.test, "_tree_frozen") and not s.orelse and len(s.body) == 1 \
            and isinstance(s.body[0], ast.Raise) and isinstance(s.body[0].exc, ast.Call) \
            and isinstance(s.body[0].exc.func, ast.Name) and s.body[0].exc.func.id == "ValueError":
        return then("raise_if_frozen")
    # self._tree_frozen = True / False
    if isinstance(s, ast.Assign) and len(s.targets) == 1 and is_self_attr(s.targets[0], "_tree_frozen") \
            and isinstance(s.value, ast.Constant) and isinstance(s.value.value, bool):
        return then(f"assign_frozen {'true' if s.value.value else 'false'}")
    # taskid = task.taskid
    if isinstance(s, ast.Assign) and len(s.targets) == 1 and isinstance(s.targets[0], ast.Name) \
            and isinstance(s.value, ast.Attribute) and isinstance(s.value.value, ast.Name) and env.get(s.value.value.id) == "task" \
            and s.value.attr == "taskid":
        n = s.targets[0].id
        return f"let {n} := t_id {s.value.value.id} in\n  {m_block(rest, dict(env, **{n: 'key'}))}"
    # self.tasks[taskid] = task
    if isinstance(s, ast.Assign) and len(s.targets) == 1 and isinstance(s.targets[0], ast.Subscript) and is_self_attr(s.targets[0].value, "tasks") \
            and isinstance(s.value, ast.Name) and env.get(s.value.id) == "task":
        return then(f"tasks_setitem eqb {key_expr(s.targets[0].slice, env)} {s.value.id}")
    # task = self.tasks[taskid]
    if isinstance(s, ast.Assign) and len(s.targets) == 1 and isinstance(s.targets[0], ast.Name) and isinstance(s.value, ast.Subscript) \
            and is_self_attr(s.value.value, "tasks"):
        n = s.targets[0].id
        return f"with_task eqb {key_expr(s.value.slice, env)} (fun {n} =>\n  {m_block(rest, dict(env, **{n: 'task'}))})"
    # del self.tasks[taskid]
    if isinstance(s, ast.Delete) and len(s.targets) == 1 and isinstance(s.targets[0], ast.Subscript) and is_self_attr(s.targets[0].value, "tasks"):
        return then(f"tasks_delitem eqb {key_expr(s.targets[0].slice, env)}")
    # del self.I[k]
    if isinstance(s, ast.Delete) and len(s.targets) == 1 and entry_of(s.targets[0], env):
        i, k = entry_of(s.targets[0], env)
        return then(f"del_key eqb {i} {k}")
    # name = self.I[k]
    if isinstance(s, ast.Assign) and len(s.targets) == 1 and isinstance(s.targets[0], ast.Name) and entry_of(s.value, env):
        i, k = entry_of(s.value, env)
        if mentions_index(rest, i):
            fail(s, f"the rest of the block touches index {i} while an alias of one of its entries is live")
        n = s.targets[0].id
        return f"with_entry eqb {i} {k} (fun {n} =>\n  {m_block(rest, dict(env, **{n: ('entry', i)}))})"
    # for x in ...: body
    if isinstance(s, ast.For) and isinstance(s.target, ast.Name) and not s.orelse:
        x = s.target.id
        env2 = dict(env, **{x: "key"})
        if entry_of(s.iter, env):
            i, k = entry_of(s.iter, env)
            if mentions_index(s.body, i):
                fail(s, f"the loop body touches index {i} while one of its entries is being iterated")
            return then(f"for_entry eqb {i} {k} (fun {x} =>\n  {m_block(s.body, env2)})")
        if isinstance(s.iter, ast.Name) and isinstance(env.get(s.iter.id), tuple) and env[s.iter.id][0] == "entry":
            if mentions_index(s.body, env[s.iter.id][1]):
                fail(s, "the loop body touches the index whose entry is being iterated")
            return then(f"for_list (rc_keys {s.iter.id}) (fun {x} =>\n  {m_block(s.body, env2)})")
        return then(f"for_list {keys_expr(s.iter, env)} (fun {x} =>\n  {m_block(s.body, env2)})")
    # self.I[k].method(arg)
    if isinstance(s, ast.Expr) and isinstance(s.value, ast.Call) and isinstance(s.value.func, ast.Attribute) \
            and entry_of(s.value.func.value, env) and len(s.value.args) == 1 and not s.value.keywords:
        i, k = entry_of(s.value.func.value, env)
        meth = s.value.func.attr
        if meth in ("append", "remove"):
            return then(f"entry_call eqb {i} {k} (src_rc_{meth} {key_expr(s.value.args[0], env)})")
        if meth == "extend":
            return then(f"entry_call eqb {i} {k} (src_rc_extend {keys_expr(s.value.args[0], env)})")
        fail(s, "RefCount method not supported")
    # if v in self.I[k]: body      /     if k in self.I: body
    if isinstance(s, ast.If) and not s.orelse and isinstance(s.test, ast.Compare) and len(s.test.ops) == 1 and isinstance(s.test.ops[0], ast.In):
        c = s.test.comparators[0]
        if entry_of(c, env):
            i, k = entry_of(c, env)
            return then(f"if_in_entry eqb {i} {k} {key_expr(s.test.left, env)}\n  ({m_block(s.body, env)})")
        if ix_of(c):
            return then(f"if_has_key eqb {ix_of(c)} {key_expr(s.test.left, env)}\n  ({m_block(s.body, env)})")
    fail(s, "Manager statement form not supported")


def method(cls, name, params, kwarg=None):
    f = next((n for n in cls.body if isinstance(n, ast.FunctionDef) and n.name == name), None)
    if f is None:
        raise Unsupported(f"Manager.{name} not found")
    args = [a.arg for a in f.args.args]
    if args != ["self"] + params or f.args.vararg or (f.args.kwarg.arg if f.args.kwarg else None) != kwarg or f.decorator_list:
        fail(f, f"signature of Manager.{name} changed")
    return f


def gen_find_taskids(cls):
    f = method(cls, "find_taskids", ["start_deps"])
    body = [s for s in f.body if not is_docstring_or_log(s)]
    pats = ["if start_deps is None:\n    start_deps = self.rdeps",
            "start_tasks = set()",
            "for dep in start_deps:\n    start_tasks.update(self.deptasks[dep])",
            "tasks = toposort(self.rtasks, start_tasks)",
            "return tasks"]
    got = [ast.unparse(s) for s in body]
    if got != pats:
        raise Unsupported("Manager.find_taskids changed:\n" + "\n".join(got))
    return ("Definition src_find_taskids (start_deps order : list K) (m : @mgr K A) : res (list K * @mgr K A) :=\n"
            "  match for_list_acc start_deps (fun dep => set_update_entry eqb IDeptasks dep) [] m with\n"
            "  | Ok (start_tasks, m1) => call_toposort eqb IRtasks start_tasks order m1\n"
            "  | Err e => Err e\n  end.\n")


def gen_cleanup_refresh(cls):
    f = method(cls, "cleanup", [])
    body = body_src(f)
    want = ["for dct in (self.rdeps, self.rtasks, self.deptasks, self.tartasks):\n    for kk, ss in list(dct.items()):\n"
            "        if len(ss) == 0:\n            del dct[kk]"]
    if body != want:
        raise Unsupported("Manager.cleanup changed:\n" + "\n".join(body))
    loop = [x for x in f.body if not is_docstring_or_log(x)][0]
    ixs = [ix_of(e) for e in loop.iter.elts]
    out = ("Definition src_cleanup : @M K A :=\n  for_indices [" + "; ".join(ixs) + "] (fun dct =>\n"
           "  for_items dct (fun kk ss =>\n  if_empty ss (del_key eqb dct kk))).\n\n")
    f = method(cls, "refresh", [])
    parts = []
    for st in [x for x in f.body if not is_docstring_or_log(x)]:
        u = ast.unparse(st)
        if isinstance(st, ast.If) and is_self_attr(st.test, "_tree_frozen") and not st.orelse and len(st.body) == 1 \
                and isinstance(st.body[0], ast.Raise) and ast.unparse(st.body[0].exc.func) == "ValueError":
            parts.append("raise_if_frozen")
        elif isinstance(st, ast.Assign) and len(st.targets) == 1 and ix_of(st.targets[0]) and ast.unparse(st.value) == "defaultdict(RefCount)":
            parts.append(f"reset_index {ix_of(st.targets[0])}")
        elif u == "for task in self.tasks.values():\n    self.register(task)":
            parts.append("for_tasks (fun task => src_register task)")
        elif u == "self.cleanup()":
            parts.append("src_cleanup")
        else:
            fail(st, "Manager.refresh statement form not supported")
    term = parts[-1]
    for x in reversed(parts[:-1]):
        term = f"seq ({x})\n  ({term})"
    return out + "Definition src_refresh : @M K A :=\n  " + term + ".\n"


def gen_clone_verify(cls):
    f = method(cls, "clone", [])
    want = ["other = Manager()", "other.containers.update(self.containers)",
            "for task in self.tasks.values():\n    other.register(task)", "other.cleanup()", "return other"]
    if not same_body(f, want):
        raise Unsupported("Manager.clone changed:\n" + "\n".join(body_src(f)))
    out = ("(* clone(): a new manager (containers are not part of the model), every task of self registered in it, cleanup *)\n"
           "Definition src_clone (self : @mgr K A) : res (@mgr K A) :=\n"
           "  seq (tasks_loop (m_tasks self) (fun task => src_register task)) src_cleanup empty_mgr.\n\n")
    f = next((n for n in cls.body if isinstance(n, ast.FunctionDef) and n.name == "verify"), None)
    if f is None or [a.arg for a in f.args.args] != ["self", "dcts"] or ast.unparse(f.args.defaults[0]) != "('rdeps', 'rtasks', 'deptasks', 'tartasks')":
        raise Unsupported("signature of Manager.verify changed")
    want = ["self.cleanup()", "other = self.clone()",
            "for dct in dcts:\n    odct = getattr(other, dct)\n    sdct = getattr(self, dct)\n    for kk, ss in list(sdct.items()):\n"
            "        if set(ss) != set(odct[kk]):\n            print(f'{dct}[{kk}] not consistent')\n"
            "            print(f'{dct}[{kk}] self - check:', set(ss) - set(odct[kk]))\n"
            "            print(f'{dct}[{kk}] check - self:', set(odct[kk]) - set(ss))\n"
            "            raise ValueError(f'{self} is not consistent in {dct}[{kk}]')"]
    if not same_body(f, want):
        raise Unsupported("Manager.verify changed:\n" + "\n".join(body_src(f)))
    out += ("(* verify(): cleanup, clone, then for each of the four indices every entry of self must hold the same key SET as the\n"
            "   clone's entry (odct[kk] is a defaultdict read on the clone, which is discarded) *)\n"
            "Definition src_verify (self : @mgr K A) : res (@mgr K A) :=\n"
            "  match src_cleanup self with\n  | Err e => Err e\n  | Ok self1 =>\n"
            "      match src_clone self1 with\n      | Err e => Err e\n      | Ok other =>\n"
            "          if forallb (fun dct => forallb (fun p => keys_equiv eqb (snd p) (ipeek eqb (fst p) (ix_get dct other))) (ix_get dct self1))\n"
            "                     [IRdeps; IRtasks; IDeptasks; ITartasks]\n"
            "          then Ok self1 else Err EValue\n      end\n  end.\n")
    return out


def gen_find_tasks(cls):
    f = method(cls, "find_tasks", ["start_deps"])
    body = [ast.unparse(x) for x in f.body if not is_docstring_or_log(x)]
    pats = ["if start_deps is None:\n    start_deps = self.rdeps",
            "return [self.tasks[taskid] for taskid in self.find_taskids(start_deps)]"]
    if body != pats:
        raise Unsupported("Manager.find_tasks changed:\n" + "\n".join(body))
    return ("Definition src_find_tasks (start_deps order : list K) (m : @mgr K A) : res (list (@task K A) * @mgr K A) :=\n"
            "  match src_find_taskids start_deps order m with\n"
            "  | Ok (taskids, m1) =>\n"
            "      match lookup_tasks eqb (m_tasks m1) taskids with Ok l => Ok (l, m1) | Err e => Err e end\n"
            "  | Err e => Err e\n  end.\n")


# ------------------------------------------------------------------ data layer (GenTasksData.v)
def find_class(tree, name):
    c = next((n for n in tree.body if isinstance(n, ast.ClassDef) and n.name == name), None)
    if c is None:
        raise Unsupported(f"class {name} not found")
    return c


def same_body(f, wanted):
    """the statements of f (docstrings and logger calls aside) are exactly the wanted ones, compared as syntax trees"""
    got = [x for x in f.body if not is_docstring_or_log(x)]
    want = [ast.parse(w).body[0] for w in wanted]
    return len(got) == len(want) and all(ast.dump(a) == ast.dump(b) for a, b in zip(got, want))


def body_src(f):
    return [ast.unparse(x) for x in f.body if not is_docstring_or_log(x)]


def gen_data(tasks):
    out = []
    # ---- ExprTask.__init__: which expression fills which field
    et = find_class(tasks, "ExprTask")
    init = method(et, "__init__", ["target", "expr"])
    fields = {}
    for st in [x for x in init.body if not is_docstring_or_log(x)]:
        if not (isinstance(st, ast.Assign) and len(st.targets) == 1 and is_self_attr(st.targets[0])):
            fail(st, "ExprTask.__init__ statement form not supported")
        fields[st.targets[0].attr] = ast.unparse(st.value)
    if sorted(fields) != ["dependencies", "expr", "targets", "taskid"]:
        raise Unsupported(f"ExprTask.__init__ sets {sorted(fields)}")
    val = {"target": "target", "expr": "expr", "target._get_dependencies()": "targets_order", "expr._get_dependencies()": "deps_order"}
    for k, v in fields.items():
        if v not in val:
            raise Unsupported(f"ExprTask.__init__: self.{k} = {v} not supported")
    kinds = {"taskid": ("target",), "expr": ("expr",), "targets": ("targets_order", "deps_order"), "dependencies": ("targets_order", "deps_order")}
    for k, v in fields.items():
        if val[v] not in kinds[k]:
            raise Unsupported(f"ExprTask.__init__: self.{k} = {v} has the wrong kind")
    out.append("(* ExprTask.__init__(target, expr); the two *_order arguments are the iteration orders of the sets\n"
               "   target._get_dependencies() and expr._get_dependencies() *)\n"
               "Definition src_exprtask_init (target : path) (expr : expr) (deps_order targets_order : list path) : dtask :=\n"
               f"  mkTask {val[fields['taskid']]} {val[fields['targets']]} {val[fields['dependencies']]} (AExpr {val[fields['expr']]}).\n")
    # ---- ExprTask.run
    run = method(et, "run", [])
    if body_src(run) != ["value = self.expr._get_value()", "self.taskid._set_value(value)"]:
        raise Unsupported("ExprTask.run changed:\n" + "\n".join(body_src(run)))
    out.append("Definition src_exprtask_run (self : dtask) (self_expr : expr) : DM unit :=\n"
               "  dbind (d_get_value self_expr) (fun value =>\n  d_set_value_ref (t_id self) value).\n")
    # ---- FunctionTask.run
    ft = find_class(tasks, "FunctionTask")
    run = method(ft, "run", [])
    if body_src(run) != ["return self.action()"]:
        raise Unsupported("FunctionTask.run changed:\n" + "\n".join(body_src(run)))
    out.append("Definition src_functiontask_run (self_action : list (path * expr)) : DM unit :=\n  d_call_action self_action.\n")
    # ---- LinearKnob.run, statement by statement
    lk = find_class(tasks, "LinearKnob")
    run = method(lk, "run", [])
    stmts = [x for x in run.body if not is_docstring_or_log(x)]
    term_parts, closes = [], 0
    for st in stmts:
        u = ast.unparse(st)
        if u == "value = self.source._get_value()":
            term_parts.append("dbind (d_get_number self_source) (fun value =>"); closes += 1
        elif u == "delta = value - self.prev_value":
            term_parts.append("dbind (d_get_prev (t_id self)) (fun self_prev_value =>\n  let delta := (value - self_prev_value)%Z in"); closes += 1
        elif u == "for w, t in zip(self.weights, self.targets):\n    t._set_value(t._get_value() + w * delta)":
            term_parts.append("dseq (d_for_zip self_weights_targets (fun w t =>\n    dbind (d_get_number t) (fun t_value => d_set_value_ref t (Leaf (t_value + w * delta)%Z))))\n  ("); closes += 1
        elif u == "self.prev_value = value":
            term_parts.append("dseq (d_set_prev (t_id self) value)\n  ("); closes += 1
        else:
            fail(st, "LinearKnob.run statement form not supported")
    out.append("Definition src_linearknob_run (self : dtask) (self_source : path) (self_weights_targets : list (Z * path)) : DM unit :=\n  "
               + "\n  ".join(term_parts) + "\n  dret tt" + ")" * closes + ".\n")
    # ---- Manager.run_tasks / set_value (task.run() is dispatched on the task's class: a section variable)
    mg = find_class(tasks, "Manager")
    rt = method(mg, "run_tasks", ["tasks"])
    if body_src(rt) != ["if tasks is None:\n    tasks = self.tasks.values()", "for task in tasks:\n    logger.info('Run %s', task)\n    task.run()"]:
        raise Unsupported("Manager.run_tasks changed:\n" + "\n".join(body_src(rt)))
    out.append("Section Dispatch.\nVariable task_run : dtask -> DM unit.     (* task.run(): dispatch on the class of the task *)\n\n"
               "Definition src_run_tasks (tasks : list dtask) : DM unit :=\n  d_for_tasks tasks (fun task => task_run task).\n")
    sv = method(mg, "set_value", ["ref", "value"])
    parts, closes = [], 0
    for st in [x for x in sv.body if not is_docstring_or_log(x)]:
        u = ast.unparse(st)
        if u == "if ref in self.tasks:\n    self.unregister(ref)":
            parts.append("dseq (d_when (d_in_tasks ref) (d_call (src_unregister path_eqb ref)))\n  ("); closes += 1
        elif u == "if isinstance(value, BaseRef):\n    self.register(ExprTask(ref, value))\n    value = value._get_value()":
            parts.append("dbind (d_if_isref value (fun value deps_order targets_order =>\n"
                         "           dseq (d_call (src_register path_eqb (src_exprtask_init ref value deps_order targets_order)))\n"
                         "                (d_get_value value)))\n  (fun value =>"); closes += 1
        elif u == "ref._set_value(value)":
            parts.append("dseq (d_set_value_ref ref value)\n  ("); closes += 1
        elif u == "self.run_tasks(self.find_tasks(ref._get_dependencies()))":
            parts.append("dseq (dbind (d_query (src_find_tasks path_eqb sd_order start_order)) (fun tasks => src_run_tasks tasks))\n  ("); closes += 1
        else:
            fail(st, "Manager.set_value statement form not supported")
    # ---- Manager.load (the texts are already evaluated to (target, expression) pairs: parsing is C11's subject)
    ld = method(mg, "load", ["dump", "dct", "overwrite"])
    want = ["if dct is None:\n    dct = self.containers",
            "for lhs, rhs in dump:\n    lhs = eval(lhs, {'math': math}, dct)\n    rhs = eval(rhs, {'math': math}, dct)\n    task = ExprTask(lhs, rhs)\n"
            "    if lhs in self.tasks:\n        if overwrite:\n            self.unregister(lhs)\n        else:\n            continue\n    self.register(task)"]
    if not same_body(ld, want):
        raise Unsupported("Manager.load changed:\n" + "\n".join(body_src(ld)))
    load_def = ("(* dump: the (lhs, rhs) pairs after eval(), with the iteration orders of the two sets of each new ExprTask *)\n"
                "Definition src_load (dump : list (path * expr * list path * list path)) (overwrite : bool) : DM unit :=\n"
                "  d_for_each dump (fun item => let '(lhs, rhs, deps_order, targets_order) := item in\n"
                "  let task := src_exprtask_init lhs rhs deps_order targets_order in\n"
                "  d_ifelse (d_in_tasks lhs)\n"
                "    (if overwrite then dseq (d_call (src_unregister path_eqb lhs)) (d_call (src_register path_eqb task))\n"
                "     else dret tt)\n"
                "    (d_call (src_register path_eqb task))).\n")
    # ---- Manager.copy_expr_from / iter_expr_tasks_owner / _check_root_owner: the expression tasks of another manager whose
    #      target lies under one of its top-level containers, loaded here (the text round trip and the rebinding of labels
    #      are C11's subject: the pairs arrive evaluated, as for load)
    cro = next((n for n in tasks.body if isinstance(n, ast.FunctionDef) and n.name == "_check_root_owner"), None)
    if cro is None or [a.arg for a in cro.args.args] != ["t", "ref"] or not same_body(cro, [
            "if hasattr(t, '_owner'):\n    if t._owner is ref:\n        return True\n    else:\n        return _check_root_owner(t._owner, ref)\n"
            "else:\n    return False"]):
        raise Unsupported("_check_root_owner changed")
    it = method(mg, "iter_expr_tasks_owner", ["ref"])
    if not same_body(it, ["for t in self.tasks.values():\n    if isinstance(t, ExprTask) and _check_root_owner(t.taskid, ref):\n"
                          "        yield (str(t.taskid), str(t.expr))"]):
        raise Unsupported("Manager.iter_expr_tasks_owner changed:\n" + "\n".join(body_src(it)))
    cp = method(mg, "copy_expr_from", ["mgr", "name", "bindings", "overwrite"])
    if [ast.unparse(d) for d in cp.args.defaults] != ["None", "True"] or not same_body(cp, [
            "ref = mgr.containers[name]", "bindings = bindings or {}", "dct = dict(self.containers)",
            "for source_ref, target_ref in bindings.items():\n    dct[str(source_ref)] = target_ref",
            "tasks = list(mgr.iter_expr_tasks_owner(ref))", "self.load(tasks, dct, overwrite=overwrite)"]):
        raise Unsupported("Manager.copy_expr_from changed:\n" + "\n".join(body_src(cp)))
    load_def += ("\n(* iter_expr_tasks_owner(ref): the expression tasks, in the order of self.tasks, whose target lies under the container\n"
                 "   (a path lies under the container labelled by its first key) *)\n"
                 "Definition src_iter_expr_tasks_owner (label : N) (mgr : dmgr) : list (path * expr) :=\n"
                 "  flat_map (fun kt => match t_act (snd kt) with\n"
                 "                      | AExpr e => match t_id (snd kt) with l :: _ => if N.eqb l label then [(t_id (snd kt), e)] else [] | [] => [] end\n"
                 "                      | _ => []\n                      end) (m_tasks mgr).\n\n"
                 "(* copy_expr_from(mgr, name, bindings, overwrite): those pairs, loaded; orders: the iteration orders of the two sets of\n"
                 "   each new ExprTask (dependencies, targets) *)\n"
                 "Definition src_copy_expr_from (mgr : dmgr) (label : N) (orders : path -> list path * list path) (overwrite : bool) : DM unit :=\n"
                 "  src_load (map (fun pe => (fst pe, snd pe, fst (orders (fst pe)), snd (orders (fst pe)))) (src_iter_expr_tasks_owner label mgr)) overwrite.\n")
    # ---- Manager.mk_fun / gen_fun
    mk = method(mg, "mk_fun", ["name"], kwarg="kwargs")
    want = ["varlist = kwargs.keys()", "start = set()", "for vref in kwargs.values():\n    vref._get_dependencies(start)",
            "tasks = self.find_tasks(start)", "fdef = [f\"def {name}({','.join(varlist)}):\"]",
            "for vname, vref in kwargs.items():\n    fdef.append(f'  {vref} = {vname}')",
            "for tt in tasks:\n    fdef.append(f'  {tt}')", "fdef = '\\n'.join(fdef)", "return fdef"]
    if not same_body(mk, want):
        raise Unsupported("Manager.mk_fun changed:\n" + "\n".join(body_src(mk)))
    gf = method(mg, "gen_fun", ["name"], kwarg="kwargs")
    want = ["fdef = self.mk_fun(name, **kwargs)", "gbl = {}", "lcl = {}", "gbl.update(((k, r._owner) for k, r in self.containers.items()))",
            "exec(fdef, gbl, lcl)", "return lcl[name]"]
    if not same_body(gf, want):
        raise Unsupported("Manager.gen_fun changed:\n" + "\n".join(body_src(gf)))
    et_repr = method(et, "__repr__", [])
    if not same_body(et_repr, ["return f'{self.taskid} = {self.expr}'"]):
        raise Unsupported("ExprTask.__repr__ changed:\n" + "\n".join(body_src(et_repr)))
    mkfun_def = ("(* mk_fun(name, x0=ref0, x1=ref1, ...): kwargs are the references in argument order; the result is the list of body\n"
                 "   lines of the generated function (the def line carries no semantics beyond the parameter order) *)\n"
                 "Definition src_mk_fun (kwargs : list path) (sd_order start_order : list path) (m : dmgr) : res (list fline * dmgr) :=\n"
                 "  let start := fold_left d_deps_into kwargs [] in\n"
                 "  if same_set path_eqb sd_order start then\n"
                 "    match src_find_tasks path_eqb sd_order start_order m with\n"
                 "    | Ok (tasks, m') => Ok (assign_lines 0 kwargs ++ map LTask tasks, m')\n"
                 "    | Err e => Err e\n    end\n  else Err EOracle.\n\n"
                 "(* a call of the function returned by gen_fun, with the values *)\n"
                 "Definition src_gen_fun_call (kwargs : list path) (values : list node) (sd_order start_order : list path) : DM unit :=\n"
                 "  dbind (d_query (src_mk_fun kwargs sd_order start_order)) (fun fdef => run_lines fdef values).\n")
    out.append("(* sd_order: iteration order of the set ref._get_dependencies(); start_order: of the start set in find_taskids *)\n"
               "Definition src_set_value (ref : path) (value : vsrc) (sd_order start_order : list path) : DM unit :=\n  "
               + "\n  ".join(parts) + "\n  dret tt" + ")" * closes + ".\n\nEnd Dispatch.\n")
    return "\n".join(out) + "\n" + load_def + "\n" + mkfun_def


OUT2 = os.path.join(VERIF, "coq", "gen", "GenTasksData.v")
OUT3 = os.path.join(VERIF, "coq", "gen", "GenSorting.v")

DFS_SRC = '''
def _dfs(graph, source, stack, visited):
    visited.add(source)
    todo = [(source, iter(graph.get(source, [])))]
    while todo:
        vertex, neighbours = todo[-1]
        for neighbour in neighbours:
            if neighbour not in visited:
                visited.add(neighbour)
                todo.append((neighbour, iter(graph.get(neighbour, []))))
                break
        else:
            todo.pop()
            stack.appendleft(vertex)
'''
TOPOSORT_SRC = '''
def toposort(graph, start=None):
    stack = deque()
    visited = set()
    if start is None:
        start = reduce(set.union, graph.values(), graph.keys())
    for vertex in start:
        if vertex not in visited:
            _dfs(graph, vertex, stack, visited)
    return list(stack)
'''


def gen_routes(refs, tasks):
    """the assignment routes (refs.py: ref[key] = v, ref.attr = v, ref._set_to_expr(e); tasks.py: the DepEnv proxy) and the
    location read / write of ItemRef / AttrRef must be, statement for statement, the texts below: each route builds the
    reference of the location and calls Manager.set_value - nothing else"""
    def meth(cname, name, params, tree=refs):
        c = find_class(tree, cname)
        f = next((n for n in c.body if isinstance(n, ast.FunctionDef) and n.name == name), None)
        if f is None or [a.arg for a in f.args.args] != ["self"] + params or f.decorator_list or f.args.vararg or f.args.kwarg:
            raise Unsupported(f"{cname}.{name}: not found or signature changed")
        return f

    def want(cname, name, params, body, tree=refs):
        f = meth(cname, name, params, tree)
        if not same_body(f, body):
            raise Unsupported(f"{cname}.{name} changed:\n" + "\n".join(body_src(f)))
    guard = ("if attr in dir(self):\n    if not cython.compiled:\n        object.__setattr__(self, attr, value)\n        return\n"
             "    else:\n        raise AttributeError(f'Attribute {attr} is read-only.')")
    want("BaseRef", "_set_to_expr", ["expr"], ["self._manager.set_value(self, expr)"])
    want("MutableRef", "__setitem__", ["key", "value"], ["ref = ItemRef(self, key, self._manager)", "self._manager.set_value(ref, value)"])
    want("MutableRef", "__setattr__", ["attr", "value"], [guard, "ref = AttrRef(self, attr, self._manager)", "self._manager.set_value(ref, value)"])
    want("ObjectAttrRef", "__setattr__", ["attr", "value"], [guard, "ref = ItemRef(self, attr, self._manager)", "self._manager.set_value(ref, value)"])
    want("ItemRef", "_get_value", [], ["owner = BaseRef._mk_value(self._owner)", "item = BaseRef._mk_value(self._key)", "return owner[item]"])
    want("ItemRef", "_set_value", ["value"], ["owner = BaseRef._mk_value(self._owner)", "item = BaseRef._mk_value(self._key)", "owner[item] = value"])
    want("AttrRef", "_get_value", [], ["owner = BaseRef._mk_value(self._owner)", "attr = BaseRef._mk_value(self._key)", "return getattr(owner, attr)"])
    want("AttrRef", "_set_value", ["value"], ["owner = BaseRef._mk_value(self._owner)", "attr = BaseRef._mk_value(self._key)", "setattr(owner, attr, value)"])
    want("DepEnv", "__setattr__", ["key", "value"], ["self._[key] = value"], tasks)
    want("DepEnv", "__setitem__", ["key", "value"], ["self._[key] = value"], tasks)
    # the container registry: a label is bound once; a refused second container leaves the registry as it was
    for name, cls_ in (("ref", "Ref"), ("refattr", "ObjectAttrRef")):
        f = meth("Manager", name, ["container", "label"], tasks)
        if [ast.unparse(d) for d in f.args.defaults] != ["None", "'_'"] or not same_body(f, [
                "if container is None:\n    container = AttrDict()", f"objref = {cls_}(container, label, self)",
                "assert label not in self.containers", "self.containers[label] = objref", "return objref"]):
            raise Unsupported(f"Manager.{name} changed:\n" + "\n".join(body_src(f)))
    f = meth("Manager", "newenv", ["label", "data"], tasks)
    if [ast.unparse(d) for d in f.args.defaults] != ["'_'", "None"] or not same_body(f, [
            "if data is None:\n    data = AttrDict()", "ref = self.ref(data, label=label)", "return DepEnv(data, ref)"]):
        raise Unsupported("Manager.newenv changed:\n" + "\n".join(body_src(f)))
    # the library's own function object is a pure function of its two tables (the model reads function objects as pure)
    fn = ast.parse(open(os.path.join(REPO, "xdeps", "functions.py")).read())
    want("FunctionPieceWiseLinear", "__init__", ["x", "y"], ["self.x = np.array(x)", "self.y = np.array(y)"], fn)
    want("FunctionPieceWiseLinear", "__call__", ["x"], ["return np.interp(x, self.x, self.y, left=self.y[0], right=self.y[-1])"], fn)
    return ("\n(* ---- the assignment routes (shape-checked against refs.py / tasks.py on every run): the location of item / attribute\n"
            "   `key` of the location `owner` is the path owner ++ [key]; the members of the reference object itself (attr in dir(self))\n"
            "   are the known finding ref-member-attribute and outside the model *)\n"
            "Section Routes.\nVariable task_run : dtask -> DM unit.\n"
            "Definition src_set_to_expr (self : path) (expr : vsrc) (sd_order start_order : list path) : DM unit :=\n"
            "  src_set_value task_run self expr sd_order start_order.\n"
            "Definition src_setitem (owner : path) (key : N) (value : vsrc) (sd_order start_order : list path) : DM unit :=\n"
            "  let ref := owner ++ [key] in src_set_value task_run ref value sd_order start_order.\n"
            "Definition src_setattr (owner : path) (attr : N) (value : vsrc) (sd_order start_order : list path) : DM unit :=\n"
            "  let ref := owner ++ [attr] in src_set_value task_run ref value sd_order start_order.\n"
            "(* DepEnv: env.key = value and env[key] = value are self._[key] = value *)\n"
            "Definition src_env_set (env_ref : path) (key : N) (value : vsrc) (sd_order start_order : list path) : DM unit :=\n"
            "  src_setitem env_ref key value sd_order start_order.\n"
            "End Routes.\n")


def gen_sorting():
    """sorting._dfs / sorting.toposort must be, statement for statement, the text that lib/ToposortIter.v models (istep is one
    pass of the while loop, itoposort the loop over the start vertices); comments and docstrings aside"""
    tree = ast.parse(open(os.path.join(REPO, "xdeps", "sorting.py")).read())
    for name, want in (("_dfs", DFS_SRC), ("toposort", TOPOSORT_SRC)):
        f = next((n for n in tree.body if isinstance(n, ast.FunctionDef) and n.name == name), None)
        if f is None:
            raise Unsupported(f"sorting.{name} not found")
        w = ast.parse(want).body[0]
        if ast.dump(f.args) != ast.dump(w.args) or f.decorator_list:
            raise Unsupported(f"signature of sorting.{name} changed")
        got = [x for x in f.body if not is_docstring_or_log(x)]
        if len(got) != len(w.body) or any(ast.dump(a) != ast.dump(b) for a, b in zip(got, w.body)):
            raise Unsupported(f"sorting.{name} changed:\n" + "\n".join(ast.unparse(x) for x in got))
    # what tasks.py calls must be this very function
    imp = [ast.unparse(n) for n in ast.parse(open(os.path.join(REPO, "xdeps", "tasks.py")).read()).body if isinstance(n, ast.ImportFrom) and n.module == "sorting"]
    if imp != ["from .sorting import toposort"]:
        raise Unsupported(f"tasks.py imports from sorting: {imp}")
    return ("(* GENERATED by tools/py2v/gen_tasks.py: xdeps/sorting.py holds, statement for statement, the iterative depth-first search\n"
            "   modelled in lib/ToposortIter.v (one [istep] = one pass of the while loop of _dfs) — do not edit. *)\n"
            "From Coq Require Import List.\nFrom XD Require Import lib.Toposort lib.ToposortIter.\n\n"
            "Definition src_dfs_pass {K : Type} := @istep K.\n"
            "Definition src_toposort {K : Type} := @itoposort K.\n")



def main():
    try:
        refs = ast.parse(open(os.path.join(REPO, "xdeps", "refs.py")).read())
        tasks = ast.parse(open(os.path.join(REPO, "xdeps", "tasks.py")).read())
        cls = next((n for n in tasks.body if isinstance(n, ast.ClassDef) and n.name == "Manager"), None)
        if cls is None:
            raise Unsupported("class Manager not found")
        # the indices must be defaultdict(RefCount) and the flag a bool, as the combinators assume
        init = method(cls, "__init__", [])
        inits = {ast.unparse(s) for s in init.body}
        for nm in IX:
            if f"self.{nm} = defaultdict(RefCount)" not in inits:
                raise Unsupported(f"Manager.__init__ no longer sets self.{nm} = defaultdict(RefCount)")
        if "self._tree_frozen = False" not in inits or "self.tasks = {}" not in inits:
            raise Unsupported("Manager.__init__: self._tree_frozen = False / self.tasks = {} not found")
        parts = [gen_refcount(refs)]
        f = method(cls, "register", ["task"])
        parts.append(f"Definition src_register (task : @task K A) : @M K A :=\n  {m_block(f.body, {'task': 'task'})}.\n")
        f = method(cls, "unregister", ["taskid"])
        parts.append(f"Definition src_unregister (taskid : K) : @M K A :=\n  {m_block(f.body, {'taskid': 'key'})}.\n")
        f = method(cls, "freeze_tree", [])
        parts.append(f"Definition src_freeze_tree : @M K A :=\n  {m_block(f.body, {})}.\n")
        f = method(cls, "unfreeze_tree", [])
        parts.append(f"Definition src_unfreeze_tree : @M K A :=\n  {m_block(f.body, {})}.\n")
        parts.append(gen_find_taskids(cls))
        parts.append(gen_find_tasks(cls))
        parts.append(gen_cleanup_refresh(cls))
        parts.append(gen_clone_verify(cls))
        data = gen_data(tasks) + gen_routes(refs, tasks)
        sorting = gen_sorting()
    except (Unsupported, OSError, SyntaxError) as e:
        print("gen_tasks: cannot translate: " + str(e))
        return 1
    txt = ("(* GENERATED by tools/py2v/gen_tasks.py from xdeps/tasks.py and xdeps/refs.py — do not edit.\n"
           "   One definition per translated method; see model/TasksSem.v for the combinators. *)\n"
           "From Coq Require Import List Bool Arith.\n"
           "From XD Require Import lib.ListAux lib.Toposort model.Manager model.TasksSem.\n"
           "Import ListNotations.\n\n"
           "Section Gen.\nContext {K A : Type}.\nVariable eqb : K -> K -> bool.\n\n"
           + "\n".join(parts) + "\nEnd Gen.\n")
    if not os.path.exists(OUT) or open(OUT).read() != txt:
        open(OUT, "w").write(txt)
    txt2 = ("(* GENERATED by tools/py2v/gen_tasks.py from xdeps/tasks.py — do not edit.\n"
            "   Data-layer methods; see model/TasksSemData.v for the combinators. *)\n"
            "From Coq Require Import List Bool Arith ZArith NArith.\n"
            "From XD Require Import lib.ListAux lib.Toposort model.Manager model.ManagerData model.TasksSem model.TasksSemData gen.GenTasks.\n"
            "Import ListNotations.\n\n" + data)
    if not os.path.exists(OUT2) or open(OUT2).read() != txt2:
        open(OUT2, "w").write(txt2)
    if not os.path.exists(OUT3) or open(OUT3).read() != sorting:
        open(OUT3, "w").write(sorting)
    return 0


if __name__ == "__main__":
    sys.exit(main())
